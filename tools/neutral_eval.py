#!/venv/bin/python
"""Run every claimed check against behaviour-preserving patches (delivered by independent agents under /tmp/neutral/<PROP>/<n>/patch.diff):
any alarm is a false alarm of the machinery.

    neutral_eval.py /tmp/neutral [--only C09]
"""
import glob
import json
import os
import subprocess
import sys
from concurrent.futures import ThreadPoolExecutor

VERIF = os.path.dirname(os.path.dirname(os.path.abspath(__file__)))


def sh(cmd):
    return subprocess.run(cmd, shell=True, stdout=subprocess.PIPE, stderr=subprocess.STDOUT, text=True)


def main():
    root = sys.argv[1]
    only = sys.argv[sys.argv.index("--only") + 1] if "--only" in sys.argv else None
    variants = sys.argv[sys.argv.index("--variants") + 1].split(",") if "--variants" in sys.argv else None
    m = json.load(open(os.path.join(VERIF, "MANIFEST.json")))
    ids = [c["property_id"] for c in m["checks"]]
    bad = 0
    for pd in sorted(glob.glob(os.path.join(root, "C*", "n*", "patch.diff"))):
        d = os.path.dirname(pd)
        prop = os.path.basename(os.path.dirname(d))
        if only and prop != only:
            continue
        if variants and os.path.basename(d) not in variants:
            continue
        wt = f"/tmp/wt/neval-{prop}-{os.path.basename(d)}"
        sh(f"git -C /repo worktree remove --force {wt}")
        sh(f"git -C /repo worktree add -q --detach {wt} HEAD")
        try:
            r = sh(f"git -C {wt} apply {pd}")
            if r.returncode:
                print(f"{prop}/{os.path.basename(d)}: patch does not apply to HEAD ({r.stdout.strip()[:120]})")
                continue

            def one(p):
                r = sh(f"/venv/bin/python {VERIF}/sa/run.py check {p} --tier quick --no-write --root {wt}")
                und = [l.strip()[:300] for l in r.stdout.splitlines() if l.strip().startswith(("UNDISCHARGED", "ANALYSIS-ERROR"))]
                return p, r.returncode, und

            alarms = {}
            with ThreadPoolExecutor(6) as ex:
                for p, rc, und in ex.map(one, ids):
                    if rc != 0:
                        alarms[p] = und[:4]
            kind = ""
            try:
                kind = json.load(open(os.path.join(d, "notes.json"))).get("kind", "")
            except Exception:
                pass
            if alarms:
                bad += 1
                print(f"{prop}/{os.path.basename(d)} [{kind}]: FALSE ALARM")
                for p, und in alarms.items():
                    for u in und:
                        print(f"      {p}: {u}")
            else:
                print(f"{prop}/{os.path.basename(d)} [{kind}]: silent")
            json.dump({"alarms": alarms}, open(os.path.join(d, "neval.json"), "w"), indent=1)
        finally:
            sh(f"git -C /repo worktree remove --force {wt}")
    print("false alarms:", bad)
    return 1 if bad else 0


if __name__ == "__main__":
    sys.exit(main())
