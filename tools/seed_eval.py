#!/venv/bin/python
"""Confirm a seeded change and run the static checks against it.

    seed_eval.py <dir with patch.diff + demo.py> [--no-baseline] [--props C01,C02]

1. scratch worktree of /repo HEAD under /tmp/wt (removed afterwards)
2. demo on the clean tree must exit 0; with the patch applied it must exit non-zero
3. the pinned suite must still pass with the patch (tools/baseline_check.py), unless --no-baseline
4. the patch is applied to /repo itself (git apply), every claimed check runs (--no-write, so committed evidence is untouched),
   and /repo is restored (git checkout -- .) straight afterwards
Prints a JSON summary on the last line."""
import json
import os
import subprocess
import sys
from concurrent.futures import ThreadPoolExecutor

VERIF = os.path.dirname(os.path.dirname(os.path.abspath(__file__)))


def sh(cmd, **kw):
    return subprocess.run(cmd, shell=isinstance(cmd, str), stdout=subprocess.PIPE, stderr=subprocess.STDOUT, text=True, **kw)


def run_checks(root, props):
    hits = {}
    m = json.load(open(os.path.join(VERIF, "MANIFEST.json")))
    ids = props or [c["property_id"] for c in m["checks"]]

    def one(p):
        r = sh(["/venv/bin/python", os.path.join(VERIF, "sa", "run.py"), "check", p, "--tier", "quick", "--no-write", "--root", root], cwd=VERIF)
        und = [l.strip() for l in r.stdout.splitlines() if l.strip().startswith("UNDISCHARGED")]
        err = [l for l in r.stdout.splitlines() if l.startswith("ANALYSIS-ERROR")]
        return p, r.returncode, und, err

    with ThreadPoolExecutor(8) as ex:
        for p, rc, und, err in ex.map(one, ids):
            if rc != 0:
                hits[p] = {"rc": rc, "reports": [u[:260] for u in und[:6]] + err[:2]}
    return hits


def main():
    args = sys.argv[1:]
    d = os.path.abspath(args[0])
    nobase = "--no-baseline" in args
    props = None
    if "--props" in args:
        props = args[args.index("--props") + 1].split(",")
    patch = os.path.join(d, "patch.diff")
    demo = os.path.join(d, "demo.py")
    tag = d.strip("/").replace("/", "_")[-40:]
    wt = f"/tmp/wt/eval-{tag}"
    res = {"dir": d}
    if "--detect-only" in args:
        # re-run the checks only (the confirmation recorded in eval.json is kept)
        old = json.load(open(os.path.join(d, "eval.json")))
        sh(f"git -C /repo worktree remove --force {wt}")
        r = sh(f"git -C /repo worktree add -q --detach {wt} HEAD")
        try:
            ra = sh(f"git -C {wt} apply {patch}")
            if ra.returncode:
                print("patch does not apply:", ra.stdout[-300:])
                return 2
            old["detected_by"] = run_checks(wt, props)
        finally:
            sh(f"git -C /repo worktree remove --force {wt}")
        json.dump(old, open(os.path.join(d, "eval.json"), "w"), indent=1)
        print(d, "confirmed" if old.get("confirmed") else "NOT-CONFIRMED", "detected_by", sorted(old["detected_by"]))
        return 0
    sh(f"git -C /repo worktree remove --force {wt}")
    r = sh(f"git -C /repo worktree add -q --detach {wt} HEAD")
    if r.returncode:
        print(r.stdout)
        return 2
    try:
        env = dict(os.environ, PYTHONPATH=f"{wt}/src")
        r0 = sh(["/venv/bin/python", demo], env=env, cwd=wt, timeout=600)
        res["demo_clean_rc"] = r0.returncode
        ra = sh(f"git -C {wt} apply {patch}")
        res["apply_rc"] = ra.returncode
        if ra.returncode:
            res["apply_out"] = ra.stdout[-500:]
        r1 = sh(["/venv/bin/python", demo], env=env, cwd=wt, timeout=600)
        res["demo_patched_rc"] = r1.returncode
        res["demo_patched_tail"] = r1.stdout.strip().splitlines()[-3:]
        if not nobase:
            rb = sh(["/venv/bin/python", os.path.join(VERIF, "tools", "baseline_check.py"), wt, "-n", "10"])
            res["baseline_rc"] = rb.returncode
            res["baseline_tail"] = rb.stdout.strip().splitlines()[-3:]
        hits = {}
        if "--in-repo" not in args:
            hits = run_checks(wt, props)
    finally:
        sh(f"git -C /repo worktree remove --force {wt}")
    if "--in-repo" in args:
        # checks against /repo itself with the patch applied, restored straight afterwards
        st = sh("git -C /repo status --porcelain --untracked-files=no").stdout.strip()
        if st:
            print("refusing: /repo has uncommitted changes:\n" + st)
            return 2
        ra = sh(f"git -C /repo apply {patch}")
        try:
            if ra.returncode:
                res["repo_apply"] = ra.stdout[-300:]
            else:
                hits = run_checks("/repo", props)
        finally:
            sh("git -C /repo checkout -- .")
    res["detected_by"] = hits
    ok = res.get("demo_clean_rc") == 0 and res.get("demo_patched_rc") not in (0, None) and res.get("apply_rc") == 0 and (nobase or res.get("baseline_rc") == 0)
    res["confirmed"] = ok
    print(json.dumps(res, indent=1))
    return 0


if __name__ == "__main__":
    sys.exit(main())
