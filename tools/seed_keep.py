#!/venv/bin/python
"""Keep confirmed seeded changes under /verif/seeded/<PROP>-<variant>/ (patch.diff, demo.py, meta.json) and regenerate the
table of DESIGN.md §10.

    seed_keep.py /tmp/seed            copy every confirmed <PROP>/<variant> that has eval.json
    seed_keep.py --table              only regenerate the table from /verif/seeded/*/meta.json
"""
import glob
import json
import os
import re
import shutil
import sys

VERIF = os.path.dirname(os.path.dirname(os.path.abspath(__file__)))
SEEDED = os.path.join(VERIF, "seeded")


def keep(src_root):
    for ev in sorted(glob.glob(os.path.join(src_root, "C*", "*", "eval.json"))):
        d = os.path.dirname(ev)
        j = json.load(open(ev))
        if not j.get("confirmed"):
            print("skip (not confirmed):", d)
            continue
        prop = os.path.basename(os.path.dirname(d))
        var = os.path.basename(d)
        dst = os.path.join(SEEDED, f"{prop}-{var}")
        os.makedirs(dst, exist_ok=True)
        shutil.copy(os.path.join(d, "patch.diff"), os.path.join(dst, "patch.diff"))
        shutil.copy(os.path.join(d, "demo.py"), os.path.join(dst, "demo.py"))
        notes = {}
        try:
            notes = json.load(open(os.path.join(d, "notes.json")))
        except Exception:
            pass
        det = {}
        for p, h in j.get("detected_by", {}).items():
            det[p] = {"exit": h["rc"], "reports": h["reports"]}
        meta = {
            "id": f"{prop}-{var}",
            "breaks_property": prop,
            "origin": "independent sub-agent given only the property text and a scratch worktree",
            "summary": notes.get("summary", ""),
            "needs_to_manifest": notes.get("needs", ""),
            "why_tests_miss": notes.get("why_tests_miss", ""),
            "confirmed": {
                "demo_on_clean_tree_exit": j.get("demo_clean_rc"),
                "demo_with_patch_exit": j.get("demo_patched_rc"),
                "demo_with_patch_output_tail": j.get("demo_patched_tail"),
                "pinned_suite_with_patch": (j.get("baseline_tail") or [""])[-1] if j.get("baseline_rc") == 0 else j.get("baseline_tail"),
            },
            "ran": [
                "git -C /repo worktree add --detach <scratch> HEAD; PYTHONPATH=<scratch>/src /venv/bin/python demo.py   (clean: exit 0)",
                "git -C <scratch> apply patch.diff; PYTHONPATH=<scratch>/src /venv/bin/python demo.py   (patched: exit 1)",
                "/venv/bin/python tools/baseline_check.py <scratch> -n 10   (patched: not passing: 0)",
                "/venv/bin/python sa/run.py check <each claimed property> --tier quick --no-write --root <scratch>   (patched)",
                "git -C /repo worktree remove --force <scratch>",
            ],
            "detected_by": det,
            "detected_by_own_property_check": prop in det,
        }
        json.dump(meta, open(os.path.join(dst, "meta.json"), "w"), indent=1)
        print("kept", dst, "detected by", sorted(det))


def table():
    rows = []
    for mp in sorted(glob.glob(os.path.join(SEEDED, "*", "meta.json"))):
        m = json.load(open(mp))
        det = m.get("detected_by", {})
        rules = []
        for p, h in sorted(det.items()):
            rs = sorted({r.split()[1] for r in h["reports"] if r.startswith("UNDISCHARGED")})
            rules.append(f"{p}: {', '.join(rs) if rs else 'exit ' + str(h['exit'])}")
        summ = re.sub(r"\s+", " ", m.get("summary", "")).strip()
        if len(summ) > 150:
            summ = summ[:147] + "..."
        rows.append(f"| {m['id']} | {summ} | {'; '.join(rules) if rules else '**missed**'} | {'yes' if m.get('detected_by_own_property_check') else ('other check only' if det else 'no')} |")
    n = len(rows)
    own = sum(1 for r in rows if r.rstrip().endswith("| yes |"))
    anyc = sum(1 for r in rows if "**missed**" not in r)
    txt = (f"{n} seeded changes kept; {anyc} reported by at least one check, {own} by the check of the property they were written against.\n\n"
           "| id | change | reported by (rule ids) | own property's check |\n|---|---|---|---|\n" + "\n".join(rows) + "\n")
    p = os.path.join(VERIF, "DESIGN.md")
    s = open(p).read()
    a, b = "<!-- SEED-TABLE-BEGIN -->", "<!-- SEED-TABLE-END -->"
    i, k = s.index(a) + len(a), s.index(b)
    s = s[:i] + "\n" + txt + s[k:]
    open(p, "w").write(s)
    print(f"table: {n} rows, {anyc} detected, {own} by own check")


if __name__ == "__main__":
    if len(sys.argv) > 1 and sys.argv[1] != "--table":
        keep(sys.argv[1])
    table()
