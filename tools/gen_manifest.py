#!/venv/bin/python
"""Regenerates /verif/MANIFEST.json from the rule modules that exist (sa/rules/cNN.py)."""
import importlib
import json
import os
import subprocess
import sys

VERIF = os.path.dirname(os.path.dirname(os.path.abspath(__file__)))
sys.path.insert(0, VERIF)

NA = {
    "C19": "extensional equality of anyio.itertools / functools.reduce with the stdlib for every input is equivalence of two algorithms "
           "over run-time values (index arithmetic, tails, key changes); no static argument in reach decides it - it needs differential "
           "or symbolic execution, which are other technique families. The shape-visible parts (4 delegations, validation classes) cover "
           "a small minority of the mechanisms, so claiming it would be a proxy (DESIGN.md §6). Their checkpoint behaviour is decided under C08.",
}

TECH = {
    "C01": "CFG path automata + must-facts (join test is last before scope exit, spawn registration, done-callback bookkeeping), enum exhaustiveness",
    "C02": "value-routing path automaton over the done-callback (exactly one sink), guarded appends, raise-site facts",
    "C03": "must-pass-through on all CFG paths of the re-delivery chain, writer table of scope membership, restart-after-join rule",
    "C04": "sibling-walker agreement, must-facts at absorb/return sites, writer/reader string-table agreement, writer tables",
    "C05": "inverse-edit pairing automaton over __enter__/__exit__, counter drain/transfer paths, timer cleanup",
    "C06": "must-facts at the cancel/raise sites of deadline handling, one-live-timer writer table, argument-flow checks",
    "C07": "path automaton over start() handler, value-routing in the done-callback, future plumbing flow",
    "C08": "checkpoint typestate automaton (CANCELCHK/YIELD/EFFECT/UNDO) over every primitive and itertools generator",
    "C09": "guarded-write must-facts (facts die at suspension), hand-off path automaton, queue-end analysis, checkpoint typestate",
    "C10": "capacity-guard must-facts at every grant site, release outcome automata, queue ends, undo-argument identity, writer tables",
    "C11": "lock-holder dominance, owner-lifecycle writer/paths rule, notify/wait protocol automata, queue ends",
    "C12": "exactly-once placement/take automata, bounded-append must-facts, queue ends, register/deregister pairing",
    "C13": "clone-counter writer tables with guarded decrements, last-close wake-up paths, raise-site fact table",
    "C14": "token-held typestate, boolean evaluation of shield/scope selection, producer/consumer tuple agreement, result-report paths",
    "C15": "exactly-one-call/exactly-one-resolution path automaton, dominance of _check_running, join post-dominance",
    "C16": "value-flow / linear-slice conservation analysis of the buffer, search-offset linear form, decoder single-use",
    "C17": "pump-protocol path automaton, except-clause shadowing with the real ssl hierarchy, error mapping facts",
    "C18": "read-side typestate (pause on every exit of the wait, at every construction site), split slices, error mapping order, guards",
    "C20": "guarded removals (never an in-flight entry), atomic insert+evict section, single-flight lexical/fact rule, key def-use",
}


def main():
    ids = [f"C{i:02d}" for i in range(1, 21)]
    checks = []
    na = []
    for i in ids:
        p = os.path.join(VERIF, "sa", "rules", i.lower() + ".py")
        if os.path.exists(p) and i not in NA:
            mod = importlib.import_module(f"sa.rules.{i.lower()}")
            checks.append({
                "property_id": i,
                "quick_cmd": f"/venv/bin/python sa/run.py check {i} --tier quick",
                "thorough_cmd": f"/venv/bin/python sa/run.py check {i} --tier thorough",
                "evidence_file": f"/verif/evidence/{i}.json",
                "replay_cmd_template": "/venv/bin/python sa/run.py replay {path}",
                "engine": "sa",
                "level_claimed": {
                    "category": "other",
                    "text": "Static analysis: structural necessary conditions of the property are decided on every path of the anchored "
                            "functions (CFG with cancellation/exception edges, path-sensitive must-facts, typestate automata, writer tables). "
                            "Each rule is a necessary condition (breaking it breaks the behaviour); all rules holding is not a proof of the "
                            "behavioural property. " + getattr(mod, "EXPLANATION", ""),
                    "design_ref": f"DESIGN.md §4 {i}",
                },
                "level_note": "Assumes A1-A7 of DESIGN.md §1 (cancel-aware CFG model, suspension kills shared facts, summaries checked as "
                              "obligations, name-based field identity, asyncio/CPython trusted, queued waiter pairs are real objects, counters are non-negative). Not decided: " + getattr(mod, "NOT_DECIDED", ""),
                "technique": "static analysis: " + TECH.get(i, "CFG/dataflow obligations"),
            })
        else:
            na.append({"property_id": i, "reason": NA.get(i, "rule module not built yet (DESIGN.md §4 describes the planned static rules)")})
    m = {
        "version": 1,
        "setup_cmd": "/venv/bin/python -c \"import ast, sys; sys.exit(0)\"",
        "hooks": {
            "guard": "ANYIO_VERIF",
            "enable": "none needed: the checks parse /repo/src/anyio and execute nothing from it; no hook commits exist",
            "baseline_off_cmd": "cd /repo && /venv/bin/python -m pytest -ra -q -p no:cacheprovider --timeout=900 --continue-on-collection-errors",
            "source_commits": [],
            "add_only": True,
        },
        "engines": [{
            "name": "sa",
            "path": "/verif/sa",
            "serves_properties": [c["property_id"] for c in checks],
            "kind_free_text": "repository-specific static analyser: ast source model, statement CFG with cancel-aware exceptional edges, "
                              "path-sensitive must-fact exploration, typestate path automata, writer tables, queue-end and value-flow rules; "
                              "pure stdlib, run with /venv/bin/python",
        }],
        "checks": checks,
        "notes": "Static analysis only (DESIGN.md). Exit 0 = all obligations discharged, 1 = VIOLATION line(s), 2 = ANALYSIS-ERROR (fail closed). "
                 "Genuine defects found on the pinned tree were repaired by `fix:` commits in /repo and are recorded in known_findings.json. "
                 "The thorough tier adds the sensitivity audit (seeded mutants must be reported, neutral variants must stay silent) on a scratch copy.",
        "not_applicable": na,
    }
    with open(os.path.join(VERIF, "MANIFEST.json"), "w") as fh:
        json.dump(m, fh, indent=1)
    print("checks:", [c["property_id"] for c in checks])


if __name__ == "__main__":
    main()
