#!/usr/bin/env python3
"""Validate MANIFEST.json and every evidence file against the schemas in /root/.vp (needs jsonschema: run with python3-vt)."""
import glob
import json
import sys

import jsonschema

bad = 0
m = json.load(open("/verif/MANIFEST.json"))
try:
    jsonschema.validate(m, json.load(open("/root/.vp/MANIFEST.schema.json")))
    print("MANIFEST ok:", len(m["checks"]), "checks,", len(m.get("not_applicable", [])), "not applicable")
except jsonschema.ValidationError as e:
    print("MANIFEST INVALID:", e.message)
    bad += 1
es = json.load(open("/root/.vp/EVIDENCE.schema.json"))
claimed = {c["property_id"] for c in m["checks"]}
for p in sorted(glob.glob("/verif/evidence/C*.json")):
    try:
        j = json.load(open(p))
        jsonschema.validate(j, es)
        print(p, "ok", j["tier"], "obligations", j["coverage"].get("obligations"), "violations", j.get("violations"))
    except Exception as e:
        print(p, "INVALID", str(e)[:200])
        bad += 1
import os
for c in claimed:
    if not os.path.exists(f"/verif/evidence/{c}.json"):
        print("missing evidence for", c)
        bad += 1
ids = [json.loads(l)["id"] for l in open("/verif/properties.jsonl")]
na = {x["property_id"] for x in m.get("not_applicable", [])}
for i in ids:
    if i not in claimed and i not in na:
        print("property neither claimed nor not_applicable:", i)
        bad += 1
sys.exit(1 if bad else 0)
