#!/venv/bin/python
"""Regenerate sa/engine/fields.json: for every class of the (non-trio) package the attributes accessed on `self` in its methods, with a
usage signature per attribute (method:kind pairs).  The engine uses the table to recognise a *renamed* private attribute (one name of
the table is gone from the class, one unknown name with the same usage has appeared) and to analyse it under its canonical name."""
import json
import os
import sys

VERIF = os.path.dirname(os.path.dirname(os.path.abspath(__file__)))
sys.path.insert(0, VERIF)
from sa.engine.source import Repo          # noqa: E402
from sa.engine.fields import class_fields  # noqa: E402

repo = Repo("/repo")
table = {}
for name, lst in sorted(repo.classes.items()):
    for rel, cls in lst:
        if rel.endswith("_trio.py"):
            continue
        fs = class_fields(cls, repo.modules[rel])
        if fs:
            table[f"{rel}::{name}"] = {k: sorted(v) for k, v in sorted(fs.items())}
json.dump(table, open(os.path.join(VERIF, "sa", "engine", "fields.json"), "w"), indent=0, sort_keys=True)
import ast  # noqa: E402
funcs = {rel: sorted(n.name for n in ast.walk(tree) if isinstance(n, (ast.FunctionDef, ast.AsyncFunctionDef)) and getattr(n, "_parent", None) is tree
                     or isinstance(n, (ast.FunctionDef, ast.AsyncFunctionDef)) and isinstance(getattr(n, "_parent", None), ast.If)
                     and getattr(n._parent, "_parent", None) is tree)
         for rel, tree in sorted(repo.non_trio_modules().items())}
json.dump(funcs, open(os.path.join(VERIF, "sa", "engine", "functions.json"), "w"), indent=0, sort_keys=True)
print(sum(len(v) for v in funcs.values()), "module-level functions")
from sa.engine.fields import method_table  # noqa: E402
mt = method_table(repo)
json.dump(mt, open(os.path.join(VERIF, "sa", "engine", "methods.json"), "w"), indent=0, sort_keys=True)
print(sum(len(v) for v in mt.values()), "private methods")
pub = {}
for name, lst in sorted(repo.classes.items()):
    for rel, cls in lst:
        if not rel.endswith("_trio.py"):
            pub[f"{rel}::{name}"] = sorted(m.name for m in cls.body if isinstance(m, (ast.FunctionDef, ast.AsyncFunctionDef)) and not m.name.startswith("_"))
json.dump(pub, open(os.path.join(VERIF, "sa", "engine", "public_methods.json"), "w"), indent=0, sort_keys=True)
print(len(table), "classes,", sum(len(v) for v in table.values()), "fields")
