#!/venv/bin/python
"""Run the repository's pinned test-suite in a checkout (default /repo, or a scratch worktree) and compare with the
stable-pass list of /root/.vp/BASELINE.json.

    baseline_check.py [<checkout dir>] [-n JOBS] [-k EXPR] [paths...]

Prints every stable-pass test that did not pass; exit 0 iff there is none.  With -k / paths only the selected subset is
compared.  The junit file is written to a temporary directory and removed."""
import json
import os
import signal
import subprocess
import sys
import tempfile
import xml.etree.ElementTree as ET


def _sigint_default():
    # a shell that started us with `&` leaves SIGINT ignored, which the suite's KeyboardInterrupt tests inherit
    signal.signal(signal.SIGINT, signal.SIG_DFL)


def main():
    args = sys.argv[1:]
    root = "/repo"
    if args and not args[0].startswith("-") and os.path.isdir(os.path.join(args[0], "src", "anyio")):
        root = os.path.abspath(args.pop(0))
    jobs = "12"
    if "-n" in args:
        i = args.index("-n")
        jobs = args[i + 1]
        del args[i:i + 2]
    stable = set(json.load(open("/root/.vp/BASELINE.json"))["stable_pass"])
    with tempfile.TemporaryDirectory(prefix="blchk-") as tmp:
        xml = os.path.join(tmp, "junit.xml")
        env = dict(os.environ, PYTHONPATH=os.path.join(root, "src"))
        cmd = ["/venv/bin/python", "-m", "pytest", "-q", "-p", "no:cacheprovider", "--timeout=900", "--continue-on-collection-errors",
               "-n", jobs, f"--junitxml={xml}", "-o", "junit_family=xunit1"] + args
        p = subprocess.run(cmd, cwd=root, env=env, stdout=subprocess.PIPE, stderr=subprocess.STDOUT, text=True, preexec_fn=_sigint_default)
        tail = "\n".join(p.stdout.splitlines()[-3:])
        if not os.path.exists(xml):
            print(p.stdout[-3000:])
            print("no junit file produced")
            return 2
        passed, seen = set(), set()
        for tc in ET.parse(xml).getroot().iter("testcase"):
            name = f"{tc.get('classname')}::{tc.get('name')}"
            seen.add(name)
            if not any(ch.tag in ("failure", "error", "skipped") for ch in tc):
                passed.add(name)
    # tests that did not pass under xdist are re-run sequentially (the baseline was recorded sequentially; a parallel run is
    # load- and port-sensitive) and count only if they fail again
    for _attempt in range(3):
      retry = sorted((stable & seen) - passed)
      if retry and len(retry) <= 400:
          ids = []
          for name in retry:
              cls, _, tn = name.partition("::")
              parts = cls.split(".")
              for i in range(len(parts), 0, -1):
                  fp = os.path.join(root, *parts[:i]) + ".py"
                  if os.path.exists(fp):
                      ids.append("::".join(["/".join(parts[:i]) + ".py"] + parts[i:] + [tn]))
                      break
          with tempfile.TemporaryDirectory(prefix="blchk-") as tmp:
              xml = os.path.join(tmp, "junit.xml")
              cmd = ["/venv/bin/python", "-m", "pytest", "-q", "-p", "no:cacheprovider", "--timeout=900", f"--junitxml={xml}", "-o",
                     "junit_family=xunit1"] + ids
              subprocess.run(cmd, cwd=root, env=env, stdout=subprocess.PIPE, stderr=subprocess.STDOUT, text=True, preexec_fn=_sigint_default)
              if os.path.exists(xml):
                  for tc in ET.parse(xml).getroot().iter("testcase"):
                      name = f"{tc.get('classname')}::{tc.get('name')}"
                      if not any(ch.tag in ("failure", "error", "skipped") for ch in tc):
                          passed.add(name)
    subset = bool([a for a in args if not a.startswith("-")]) or "-k" in args
    expected = (stable & seen) if subset else stable
    missing = sorted(expected - passed)
    print(tail)
    print(f"stable-pass tests expected: {len(expected)}  passed: {len(expected & passed)}  not passing: {len(missing)}")
    for m in missing[:60]:
        print("  NOT PASSING:", m)
    return 1 if missing else 0


if __name__ == "__main__":
    sys.exit(main())
