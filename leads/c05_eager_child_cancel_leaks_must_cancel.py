import asyncio, anyio
from anyio import CancelScope
async def main():
    asyncio.get_running_loop().set_task_factory(asyncio.eager_task_factory)
    host = asyncio.current_task(); o={}
    with CancelScope() as s:
        async def eager_child():
            s.cancel()
        asyncio.create_task(eager_child())
        o["must_cancel_in_scope"]=host._must_cancel
    o["must_cancel_after_scope"]=host._must_cancel; o["cancelling_after"]=host.cancelling()
    try:
        await asyncio.sleep(0); o["after"]="not cancelled"
    except asyncio.CancelledError:
        o["after"]="CancelledError leaked past the scope"
    print(o)
anyio.run(main)
