import asyncio, anyio

async def main():
    cond = anyio.Condition()
    woke = []
    async def waiter(name):
        async with cond:
            await cond.wait()
            woke.append(name)
    t1 = asyncio.ensure_future(waiter("t1"))
    await anyio.wait_all_tasks_blocked()
    async with cond:
        t1.cancel()                 # native cancellation of the only waiter
        cond.notify_all()           # ... which is then selected by notify_all
        try:
            with anyio.move_on_after(0.3) as scope:
                await cond.wait()   # this task starts waiting only now
            woke.append("main" if not scope.cancelled_caught else "main-timeout")
        except BaseException as e:
            woke.append(repr(e))
    print(woke)
    try:
        await t1
    except asyncio.CancelledError:
        pass

anyio.run(main)
