"""Lead (iii): on the unmodified tree `await tg.start(child)` raises a CancelledError in a starter whose own
cancel scope is NOT cancelled, when the *group's* scope is cancelled before the child calls started().
Prints what is observed; exit 0 always (observation, not an oracle)."""
import asyncio
import anyio
from anyio import create_task_group, CancelScope, TASK_STATUS_IGNORED


async def child(*, task_status=TASK_STATUS_IGNORED):
    await anyio.sleep_forever()


async def main():
    observed = {}
    async with create_task_group() as outer:            # hosts the starter
        tg_holder = {}
        ready = anyio.Event()

        async def group_host():
            async with create_task_group() as tg:
                tg_holder["tg"] = tg
                ready.set()
                await anyio.sleep_forever()

        async def starter():
            await ready.wait()
            with CancelScope() as own:
                try:
                    await tg_holder["tg"].start(child)
                except BaseException as exc:
                    observed["exc"] = type(exc).__name__
                    observed["own_cancel_called"] = own.cancel_called
                    observed["outer_cancel_called"] = outer.cancel_scope.cancel_called
                    observed["task_cancelling"] = asyncio.current_task().cancelling()
                    # swallow so that we can report
                else:
                    observed["exc"] = None

        outer.start_soon(group_host)
        outer.start_soon(starter)
        await anyio.wait_all_tasks_blocked()
        tg_holder["tg"].cancel_scope.cancel()           # cancel the *group*, not the starter
        await anyio.wait_all_tasks_blocked()
    print(observed)


anyio.run(main)
