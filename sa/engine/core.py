"""Rule context: obligations, primitives (require_at / paths / writers / queue ends),
known findings, evidence (DESIGN §2.3–2.6, §3)."""
from __future__ import annotations

import ast
import json
import os
import time
from dataclasses import dataclass, field

from .cfg import CFG, Hierarchy, Node, call_name
from .facts import Bad, Explorer, F, Result, Summaries, atom, exit_kind, local_aliases, own_fragments
from .pattern import P, find_all, inst, u
from .source import AnalysisError, Func, Repo, norm, own_walk, stmt_of

ASSUMPTIONS = [
    "A1 cancel-aware control flow: exceptional edges for explicit raise, CancelledError at every await/async for/async with, "
    "classes named by enclosing except clauses (handler-driven), resolved raise summaries; other exceptions are outside the quantifier",
    "A2 a fact mentioning an attribute does not survive a suspending await/yield/async-with/async-for; writes kill facts on the written "
    "name/attribute; own-method calls kill the attributes their (transitive) body writes, or every self. fact if unknown",
    "A3 checkpoint_if_cancelled() does not suspend on its normal-return path (obligation R03-g checks its body); awaits inside a literal "
    "`with CancelScope(shield=True)` and cancel_shielded_checkpoint() raise no AnyIO-level cancellation (native-cancel edge model is a per-rule option)",
    "A4 fields are identified by attribute name within the defining class / by distinctive name; uniqueness is re-checked on every run",
    "A5 asyncio (Future/Task/Event/loop), CPython and the kernel are trusted; only the asyncio backend is analysed (trio is not installed)",
]


@dataclass
class Ob:
    rule: str
    instance: str
    where: str
    ok: bool
    detail: str = ""
    witness: str = ""
    key: str = ""
    by: tuple = ()
    known: bool = False

    def to_json(self):
        d = {"rule": self.rule, "instance": self.instance, "where": self.where, "ok": self.ok}
        if self.detail:
            d["detail"] = self.detail
        if self.witness:
            d["witness"] = self.witness
        if self.by:
            d["discharged_by"] = list(self.by)[:8]
        d["key"] = self.key
        return d


class Ctx:
    def __init__(self, root="/repo", tier="quick", prop=""):
        self.root = root
        self.tier = tier
        self.prop = prop
        self.repo = Repo(root)
        from .fields import canonicalise_fields, canonicalise_methods
        propagate_module_literals(self.repo)
        self.field_renames = canonicalise_fields(self.repo) + canonicalise_methods(self.repo)
        self.inlined = inline_fresh_helpers(self.repo) + inline_fresh_context_managers(self.repo)
        resolve_aliases(self.repo)
        self.hier = Hierarchy(self.repo)
        self.summaries = Summaries(self.repo)
        self.obs: list[Ob] = []
        self.stats = {"functions": set(), "cfg_nodes": 0, "states": 0, "transitions": 0, "explorations": 0}
        self._cfgs: dict = {}
        self._results: dict = {}
        self.info: list[str] = []

    def live_walk(self, tree):
        """ast.walk over a module without the definitions of helpers that were spliced into their callers (dead code now)"""
        return _walk_skipping(tree, getattr(self.repo, "dead_nodes", set()))

    # ------------------------------------------------------------------ anchors
    def fn(self, qual: str, hint: str | None = None) -> Func:
        f = self.repo.func(qual, hint)
        self.stats["functions"].add(f.where.split(" ")[1])
        return f

    def cfg(self, f: Func, native=False, extra_raises=None, broad=False) -> CFG:
        key = (id(f.node), native, id(extra_raises) if extra_raises else None, broad)
        if key not in self._cfgs:
            g = CFG(f.node, native_cancel=native, extra_raises=extra_raises, hier=self.hier, broad_handlers=broad)
            self._cfgs[key] = g
            self.stats["cfg_nodes"] += len(g.nodes)
        return self._cfgs[key]

    def explore(self, f: Func, native=False, inject=(), events=None, step=None, init=None, assume=None,
                extra_raises=None, aliases=None, broad=False) -> Result:
        cache_key = None
        if events is None and extra_raises is None:
            cache_key = (id(f.node), native, frozenset(inject), tuple(sorted((assume or {}).items())), broad)
            if cache_key in self._results:
                return self._results[cache_key]
        g = self.cfg(f, native, extra_raises, broad)
        ex = Explorer(g, f.node, clsname=f.cls, summaries=self.summaries, inject=inject, events=events, step=step,
                      init=init, assume=assume, aliases=aliases)
        r = ex.run()
        r.aliases = ex.aliases
        self.stats["states"] += r.nstates
        self.stats["transitions"] += r.ntrans
        self.stats["explorations"] += 1
        if cache_key is not None:
            self._results[cache_key] = r
        return r

    # ------------------------------------------------------------------ obligations
    def ob(self, rule, f: Func | str, instance, ok, detail="", witness="", node=None, by=()):
        if isinstance(f, Func):
            line = getattr(node, "lineno", None) or f.node.lineno
            where = f"src/anyio/{f.module}:{line} {f.qual}"
            qual = f.qual
        else:
            where = f
            qual = f.split(" ")[-1]
        ntext = norm(node) if node is not None else ""
        key = f"{rule}|{qual}|{instance}|{ntext}"
        o = Ob(rule, instance, where, bool(ok), detail, witness, key, tuple(by))
        self.obs.append(o)
        return o

    def floor(self, rule, what: str, found: int, minimum: int):
        """vacuity guard: a rule that matches *nothing* would pass for ever.  `minimum` documents how many instances were confirmed
        by hand on the pinned tree; only finding none at all is an analysis error - a refactoring may legitimately merge two sites
        into one, and a removed site is the business of the path rules (they report the missing mechanism as a violation)"""
        self.info.append(f"{rule}: {what}: {found} instance(s) (confirmed by hand on the pinned tree: {minimum})")
        if found < min(minimum, 1):
            raise AnalysisError(
                f"{rule}: instance floor not reached for {what}: found {found}, confirmed by hand {minimum} "
                f"(a rule that matches nothing would pass vacuously)"
            )

    def need(self, rule, f, what: str, found: int, minimum: int = 1, node=None) -> bool:
        """a mechanism inside an anchored function: its absence is a violation, not an analysis error"""
        ok = found >= minimum
        self.ob(rule, f, f"mechanism present: {what}", ok,
                detail="" if ok else f"{what}: found {found}, required {minimum} - the mechanism is missing from the anchored function",
                node=node, by=(f"{found} site(s)",))
        return ok

    # ------------------------------------------------------------------ sites
    def sites(self, f: Func, pattern: str, env=None):
        return find_all(pattern, f.node, own=True, env=env)

    def cfg_nodes_of(self, g: CFG, site: ast.AST) -> list[Node]:
        cur = site
        while cur is not None:
            ns = g.nodes_for(cur)
            ns = [n for n in ns if n.kind in ("stmt", "test", "return", "raise", "with_enter", "for_iter")]
            if ns:
                return ns
            if cur is g.fn:
                break
            # `for`/`with` headers: CFG node is keyed by the compound statement
            cur = getattr(cur, "_parent", None)
        return []

    def require_at(self, rule, f: Func, site: ast.AST, dnf, instance="", native=False, inject=(), assume=None,
                   what="", broad=False):
        """every abstract state reaching `site` satisfies one disjunct (list of fact texts / tuples)"""
        r = self.explore(f, native=native, inject=inject, assume=assume, broad=broad)
        g = r.cfg
        nodes = self.cfg_nodes_of(g, site)
        al = r.aliases
        dn = []
        for disj in dnf:
            dn.append([F(x, al) if isinstance(x, str) else x for x in disj])
        inst_name = instance or norm(site)
        if not nodes:
            # statically dead code (e.g. after an unconditional raise): nothing can go wrong there
            return self.ob(rule, f, inst_name, True, detail="site is dead code (no CFG node)", node=site)
        bad = None
        nstates = 0
        by = set()
        for n in nodes:
            for facts, st in r.states_at.get(n.id, []):
                nstates += 1
                okd = None
                for d in dn:
                    if all(x in facts for x in d):
                        okd = d
                        break
                if okd is None:
                    bad = (n, facts, st)
                    break
                by |= {f"{'' if p else 'not '}{k}" for k, p in okd}
            if bad:
                break
        if nstates == 0:
            # unreachable site: nothing can go wrong there, but say so
            return self.ob(rule, f, inst_name, True, detail="site unreachable in the CFG", node=site)
        if bad:
            n, facts, st = bad
            key = (n.id, facts, st)
            tr = r.trace(key)
            need = " OR ".join("{" + ", ".join(f"{'' if p else 'not '}{k}" for k, p in d) + "}" for d in dn)
            have = ", ".join(sorted(f"{'' if p else 'not '}{k}" for k, p in facts if k != "@exc"))
            return self.ob(rule, f, inst_name, False,
                           detail=f"{what or 'site'} `{norm(site)}` reachable without required facts {need}; facts on the offending path: [{have}]",
                           witness=" ".join(f"{l}:{e}" for l, e in tr[-30:]), node=site)
        return self.ob(rule, f, inst_name, True, node=site, by=sorted(by))

    def reachable(self, f: Func, site, native=False) -> bool:
        r = self.explore(f, native=native)
        return any(r.states_at.get(n.id) for n in self.cfg_nodes_of(r.cfg, site))

    def facts_at(self, f: Func, site, native=False, inject=(), assume=None, broad=False):
        r = self.explore(f, native=native, inject=inject, assume=assume, broad=broad)
        nodes = self.cfg_nodes_of(r.cfg, site)
        return [facts for n in nodes for facts, _ in r.states_at.get(n.id, [])]

    # ------------------------------------------------------------------ path automata
    def events_from(self, spec, env=None):
        """spec: list of (name, pattern | [patterns] | callable(fragment)->bool)"""
        comp = []
        for name, pats in spec:
            if isinstance(pats, str) or callable(pats):
                pats = [pats]
            comp.append((name, [P(p) if isinstance(p, str) else p for p in pats]))

        def events(node: Node):
            out = []
            for frag in (own_fragments(node) or [None]):
                for name, pats in comp:
                    for p in pats:
                        if callable(p) and not hasattr(p, "match"):
                            if p(frag, node):
                                out.append((getattr(frag, "lineno", 0), getattr(frag, "col_offset", 0), name))
                        elif frag is not None:
                            for m, b in find_all(p, frag, own=True, env=env):
                                out.append((getattr(m, "lineno", 0), getattr(m, "col_offset", 0), name))
            out.sort()
            # innermost-first evaluation order approximated by source position; de-duplicate
            seen = []
            for t in out:
                if t not in seen:
                    seen.append(t)
            return [t[2] for t in seen]

        return events

    def paths(self, rule, f: Func, events, step, init, at_exit, instance="", native=False, inject=(), assume=None,
              env=None, extra_raises=None, per_exit=True, allow_no_exit=False, broad=False):
        """run a typestate automaton over all paths; at_exit(kind, state, facts) -> message | None"""
        ev = self.events_from(events, env) if isinstance(events, list) else events
        r = self.explore(f, native=native, inject=inject, events=ev, step=step, init=init, assume=assume,
                         extra_raises=extra_raises, broad=broad)
        g = r.cfg
        obs = []
        viol = {}
        for v in r.violations:
            viol.setdefault((v.msg, v.node.line), v)
        by_exit: dict[str, list] = {}
        for node, facts, st, key in r.exits:
            kind = exit_kind(node, g)
            msg = at_exit(kind, st, facts) if at_exit else None
            by_exit.setdefault(kind, []).append((msg, key, facts, st))
        nm = instance or rule
        for (msg, line), v in viol.items():
            stmt = v.node.node
            obs.append(self.ob(rule, f, f"{nm}: {msg}", False, detail=msg, witness=v.path_text(), node=stmt))
        for kind, lst in sorted(by_exit.items()):
            bad = [(m, k, fa, st) for (m, k, fa, st) in lst if m]
            if bad:
                seenm = set()
                for m, k, fa, st in bad:
                    tr = r.trace(k)
                    last = tr[-1][0] if tr else 0
                    if (m, last) in seenm:
                        continue
                    seenm.add((m, last))
                    lastnode = _stmt_at_line(f.node, last)
                    obs.append(self.ob(rule, f, f"{nm} @{kind}: {m}", False, detail=f"{m} (exit {kind})",
                                       witness=" ".join(f"{l}:{e}" for l, e in tr[-30:]), node=lastnode))
            else:
                obs.append(self.ob(rule, f, f"{nm} @{kind}", True, detail=f"{len(lst)} abstract exit states",
                                   by=(f"{len(lst)} exit states",)))
        if not by_exit and not viol:
            if not allow_no_exit:
                raise AnalysisError(f"{rule}: no exit reachable in {f.qual}")
            obs.append(self.ob(rule, f, f"{nm} (no normal exit: infinite generator)", True, detail="no exit state", by=(f"{r.nstates} states",)))
        return r, obs

    # ------------------------------------------------------------------ writers
    def writers(self, attr: str, modules=None):
        """every write site of attribute `attr` in the (non-trio) repository:
        list of (Func|None, module, stmt, kind, value) with kind in assign/aug/del/call:<m>/subscript"""
        out = []
        dead = getattr(self.repo, "dead_nodes", set())
        for rel, tree in self.repo.non_trio_modules().items():
            if modules and not any(rel.endswith(m) for m in modules):
                continue
            for n in _walk_skipping(tree, dead):
                hit = None
                if isinstance(n, ast.Attribute) and n.attr == attr:
                    par = getattr(n, "_parent", None)
                    if isinstance(n.ctx, ast.Store):
                        if isinstance(par, ast.AugAssign) and par.target is n:
                            hit = ("aug", par, par.value)
                        elif isinstance(par, ast.AnnAssign):
                            if par.value is not None:
                                hit = ("assign", par, par.value)
                        elif isinstance(par, (ast.Assign,)):
                            hit = ("assign", par, par.value)
                        else:
                            hit = ("assign", stmt_of(n), None)
                    elif isinstance(n.ctx, ast.Del):
                        hit = ("del", stmt_of(n), None)
                    elif isinstance(par, ast.Attribute) and par.value is n and isinstance(getattr(par, "_parent", None), ast.Call) \
                            and par._parent.func is par:
                        from .facts import MUTATORS
                        if par.attr in MUTATORS:
                            hit = ("call:" + par.attr, stmt_of(n), par._parent)
                    elif isinstance(par, ast.Subscript) and par.value is n and isinstance(par.ctx, (ast.Store, ast.Del)):
                        hit = ("subscript", stmt_of(n), None)
                if hit:
                    kind, st, val = hit
                    out.append((self.repo.func_of(n), rel, st, kind, val, n))
        out.sort(key=lambda t: (t[1], getattr(t[2], "lineno", 0)))
        return out


def _walk_skipping(tree, dead):
    """ast.walk that does not descend into helper definitions whose body was inlined into their only caller"""
    stack = [tree]
    while stack:
        n = stack.pop()
        if id(n) in dead:
            continue
        yield n
        stack.extend(ast.iter_child_nodes(n))


class _AliasSubst(ast.NodeTransformer):
    def __init__(self, aliases):
        self.aliases = aliases
        self.root = None

    def visit(self, node):
        if node is not self.root and isinstance(node, (ast.FunctionDef, ast.AsyncFunctionDef, ast.ClassDef, ast.Lambda)):
            return node
        return super().visit(node)

    def visit_Name(self, n):
        if isinstance(n.ctx, ast.Load) and n.id in self.aliases:
            from .source import clone
            new = clone(self.aliases[n.id])
            for x in ast.walk(new):
                for a in ("lineno", "col_offset", "end_lineno", "end_col_offset"):
                    if hasattr(n, a):
                        setattr(x, a, getattr(n, a))
            return new
        return n


def _inline_return_temps(fn):
    """`tmp = <expr>; return tmp` (tmp used nowhere else) is rewritten in place to `return <expr>`: binding a returned
    expression to a temporary first is a behaviour-preserving edit that rules written against `return <expr>` must not notice"""
    uses: dict[str, int] = {}
    stores: dict[str, list] = {}
    loads: dict[str, int] = {}
    for n in own_walk(fn):
        if isinstance(n, ast.Name):
            uses[n.id] = uses.get(n.id, 0) + 1
            if isinstance(n.ctx, ast.Load):
                loads[n.id] = loads.get(n.id, 0) + 1
            else:
                stores.setdefault(n.id, []).append(n)
    # a name that is (re)defined k times, each definition a plain assignment immediately followed by the statement holding its only
    # use: k independent single-use temporaries (`outgoing = bio.read(); await send(outgoing)` at three places of one function)
    for nm, sts in stores.items():
        if len(sts) < 2 or loads.get(nm, 0) != len(sts):
            continue
        okm = True
        for x in sts:
            st_ = getattr(x, "_parent", None)
            if not (isinstance(st_, (ast.Assign, ast.AnnAssign)) and (st_.targets == [x] if isinstance(st_, ast.Assign) else st_.target is x)):
                okm = False
                break
            hold = getattr(st_, "_parent", None)
            blk_ = next((getattr(hold, fl) for fl in ("body", "orelse", "finalbody") if isinstance(getattr(hold, fl, None), list) and st_ in getattr(hold, fl)), None)
            if blk_ is None or blk_.index(st_) + 1 >= len(blk_):
                okm = False
                break
            nxt = blk_[blk_.index(st_) + 1]
            if sum(1 for y in ast.walk(nxt) if isinstance(y, ast.Name) and y.id == nm and isinstance(y.ctx, ast.Load)) != 1:
                okm = False
                break
        if okm:
            uses[nm] = 2
    changed = False
    for par in [fn] + list(own_walk(fn)):
        for fld in ("body", "orelse", "finalbody"):
            blk = getattr(par, fld, None)
            if not isinstance(blk, list) or len(blk) < 2:
                continue
            i = 0
            while i < len(blk) - 1:
                a, b = blk[i], blk[i + 1]
                if isinstance(a, (ast.Assign, ast.AnnAssign)) and isinstance(b, ast.Return) and isinstance(b.value, ast.Name):
                    tg = a.targets[0] if isinstance(a, ast.Assign) and len(a.targets) == 1 else (a.target if isinstance(a, ast.AnnAssign) else None)
                    if isinstance(tg, ast.Name) and tg.id == b.value.id and uses.get(tg.id, 0) == 2 and getattr(a, "value", None) is not None:
                        b.value = a.value
                        b.lineno = getattr(a, "lineno", b.lineno)
                        del blk[i]
                        changed = True
                        continue
                # `tmp = <expr>; return g(..., tmp, ...)` / `return a, tmp`: the temporary is the first thing the return statement
                # evaluates apart from plain names and constants, so folding it back keeps the evaluation order
                if isinstance(a, (ast.Assign, ast.AnnAssign)) and getattr(a, "value", None) is not None and (
                        (isinstance(b, ast.Return) and b.value is not None and not isinstance(b.value, ast.Name))
                        or (isinstance(b, ast.Expr) and isinstance(b.value, (ast.Await, ast.Call)))):
                    tg = a.targets[0] if isinstance(a, ast.Assign) and len(a.targets) == 1 else (a.target if isinstance(a, ast.AnnAssign) else None)
                    if isinstance(tg, ast.Name) and uses.get(tg.id, 0) == 2 and not any(isinstance(x, (ast.Yield, ast.YieldFrom, ast.NamedExpr, ast.Lambda)) for x in ast.walk(a.value)):
                        hit = None
                        for x in _eval_order(b):
                            if isinstance(x, ast.Name) and x.id == tg.id and isinstance(x.ctx, ast.Load):
                                hit = x
                                break
                            if isinstance(x, ast.Attribute) and _simple_arg(x):
                                continue        # a plain attribute chain (`self.transport_stream`) has no effect of its own
                            if not isinstance(x, (ast.Name, ast.Constant)):
                                break
                        if hit is not None:
                            holder = getattr(hit, "_parent", None)
                            done_ = False
                            for f_, val in ast.iter_fields(holder) if holder is not None else []:
                                if val is hit:
                                    setattr(holder, f_, a.value)
                                    done_ = True
                                elif isinstance(val, list) and any(y is hit for y in val):
                                    val[[y is hit for y in val].index(True)] = a.value
                                    done_ = True
                            if done_:
                                a.value._parent = holder
                                del blk[i]
                                changed = True
                                i = max(i - 1, 0)       # the statement before may be a temporary feeding the folded expression
                                continue
                i += 1
    return changed


# ----------------------------------------------------------------------------- inlining of freshly extracted helpers
_PROTECTED: set | None = None
_HOIST = [0]
INLINE_ALWAYS = {"_restart_cancellation_in_parent", "_notify_next_waiter", "_check_acquired", "_spawn_task_from_thread"}


def _protected_names() -> set:
    """method names the rule modules mention: those are anchors or summarised helpers and are never inlined"""
    global _PROTECTED
    if _PROTECTED is None:
        import re
        names = set()
        rd = os.path.join(os.path.dirname(os.path.dirname(os.path.abspath(__file__))), "rules")
        for fn in os.listdir(rd):
            if fn.endswith(".py"):
                with open(os.path.join(rd, fn), encoding="utf-8") as fh:
                    names |= set(re.findall(r"[A-Za-z_][A-Za-z_0-9]*", fh.read()))
        # small helpers whose *inlined* form is the canonical one: the rules speak about what the helper does at its call sites,
        # so that a maintainer inlining the helper by hand (and deleting it) changes nothing for them
        _PROTECTED = names - INLINE_ALWAYS
    return _PROTECTED


def _simple_arg(e) -> bool:
    """pure, cheap argument expressions that may be duplicated at every use of the parameter"""
    if isinstance(e, (ast.Name, ast.Constant)):
        return True
    if isinstance(e, ast.Attribute):
        return _simple_arg(e.value)
    if isinstance(e, ast.Call) and isinstance(e.func, ast.Name) and e.func.id in ("len", "id", "type") and len(e.args) == 1 and not e.keywords:
        return _simple_arg(e.args[0])
    if isinstance(e, ast.BinOp) and isinstance(e.op, (ast.Add, ast.Sub)):
        return _simple_arg(e.left) and _simple_arg(e.right)
    if isinstance(e, ast.UnaryOp) and isinstance(e.op, (ast.Not, ast.USub)):
        return _simple_arg(e.operand)
    return False


class _ParamSubst(ast.NodeTransformer):
    def __init__(self, mapping, renames):
        self.mapping, self.renames = mapping, renames

    def visit_Name(self, n):
        from .source import clone
        if n.id in self.mapping and isinstance(n.ctx, ast.Load):
            return clone(self.mapping[n.id])
        if n.id in self.renames:
            return ast.copy_location(ast.Name(id=self.renames[n.id], ctx=n.ctx), n)
        return n


def _may_fall_through(stmts) -> bool:
    """can control reach the end of this statement list (conservative: True when in doubt)"""
    if not stmts:
        return True
    last = stmts[-1]
    if isinstance(last, (ast.Return, ast.Raise)):
        return False
    if isinstance(last, ast.If):
        return _may_fall_through(last.body) or _may_fall_through(last.orelse)
    if isinstance(last, ast.Try):
        if last.finalbody and not _may_fall_through(last.finalbody):
            return False
        normal = _may_fall_through(last.orelse) if last.orelse else _may_fall_through(last.body)
        return normal or any(_may_fall_through(h.body) for h in last.handlers)
    if isinstance(last, ast.While) and isinstance(last.test, ast.Constant) and last.test.value is True \
            and not any(isinstance(x, ast.Break) for x in ast.walk(last)):
        return False
    return True


def inline_fresh_context_managers(repo: Repo) -> list[str]:
    """`with h(args): body` where h is a generator-based context manager (`@contextmanager` / `@asynccontextmanager`) that did not
    exist in the reference tree, is a module-level private function with exactly one `yield` standing as a statement, and is used only
    in such `with` statements: the statement is replaced by h's body with the `yield` replaced by `body` (parameters substituted,
    locals renamed, `as name` bound to the yielded value).  An exception leaving `body` is thrown into the generator at the `yield`,
    so the generator's try/except/finally around the yield apply to the body exactly as they do once it stands there."""
    from .source import clone
    known = _known_module_functions()
    done = []
    if known is None:
        return done
    serial = 0
    for f in list(repo.all_funcs):
        h = f.node
        if f.cls is not None or f.parent is not None or f.module.endswith("_trio.py") or not h.name.startswith("_") or h.name in known.get(f.module, ()):
            continue
        decos = [ast.unparse(d).split(".")[-1] for d in h.decorator_list]
        if decos not in (["contextmanager"], ["asynccontextmanager"]):
            continue
        is_async = decos == ["asynccontextmanager"]
        body = [s_ for s_ in h.body if not (isinstance(s_, ast.Expr) and isinstance(s_.value, ast.Constant) and isinstance(s_.value.value, str))]
        yields = [x for s_ in body for x in ast.walk(s_) if isinstance(x, (ast.Yield, ast.YieldFrom))]
        if len(yields) != 1 or not isinstance(yields[0], ast.Yield) or not isinstance(getattr(yields[0], "_parent", None), ast.Expr):
            continue
        if any(isinstance(x, (ast.FunctionDef, ast.AsyncFunctionDef, ast.ClassDef, ast.Lambda, ast.Return, ast.Global, ast.Nonlocal)) for s_ in body for x in ast.walk(s_)):
            continue
        a = h.args
        if a.vararg or a.kwarg or a.kwonlyargs or a.defaults:
            continue
        params = [x.arg for x in a.posonlyargs + a.args]
        tree = repo.modules[f.module]
        uses = [n for n in ast.walk(tree) if isinstance(n, ast.Name) and n.id == h.name and isinstance(n.ctx, ast.Load)]
        plans = []
        ok = bool(uses)
        for nm in uses:
            call = getattr(nm, "_parent", None)
            item = getattr(call, "_parent", None)
            w = getattr(item, "_parent", None)
            if not (isinstance(call, ast.Call) and call.func is nm and isinstance(item, ast.withitem) and item.context_expr is call
                    and isinstance(w, ast.AsyncWith if is_async else ast.With) and len(w.items) == 1
                    and (item.optional_vars is None or isinstance(item.optional_vars, ast.Name))
                    and len(call.args) == len(params) and not call.keywords and all(_simple_arg(v) for v in call.args)
                    and not any(x is w for x in ast.walk(h))):
                ok = False
                break
            plans.append((w, item, call))
        if not ok:
            continue
        stored = {x.id for s_ in body for x in ast.walk(s_) if isinstance(x, ast.Name) and isinstance(x.ctx, (ast.Store, ast.Del))}
        stored |= {hh.name for s_ in body for hh in ast.walk(s_) if isinstance(hh, ast.ExceptHandler) and hh.name}
        if stored & set(params):
            continue
        for w, item, call in plans:
            serial += 1
            mapping = dict(zip(params, call.args))
            renames = {v: f"{v}__{h.name.strip('_')}_cm{serial}" for v in stored}
            new = []
            for s_ in body:
                c = clone(s_)
                for hh in ast.walk(c):
                    if isinstance(hh, ast.ExceptHandler) and hh.name in renames:
                        hh.name = renames[hh.name]
                new.append(_ParamSubst(mapping, renames).visit(c))

            def put(stmts):
                out = []
                for s2 in stmts:
                    if isinstance(s2, ast.Expr) and isinstance(s2.value, ast.Yield):
                        if item.optional_vars is not None:
                            out.append(ast.copy_location(ast.Assign(targets=[ast.Name(id=item.optional_vars.id, ctx=ast.Store())],
                                                                    value=s2.value.value or ast.Constant(None)), w))
                        out.extend(w.body)
                        continue
                    for fld in ("body", "orelse", "finalbody"):
                        v = getattr(s2, fld, None)
                        if isinstance(v, list) and v and isinstance(v[0], ast.stmt):
                            setattr(s2, fld, put(v))
                    if isinstance(s2, ast.Try):
                        for hh in s2.handlers:
                            hh.body = put(hh.body)
                    out.append(s2)
                return out

            new = put(new)
            holder = getattr(w, "_parent", None)
            for fld in ("body", "orelse", "finalbody"):
                blk_ = getattr(holder, fld, None)
                if isinstance(blk_, list) and w in blk_:
                    i = blk_.index(w)
                    blk_[i:i + 1] = new
                    for x in new:
                        ast.copy_location(x, w) if not hasattr(x, "lineno") else None
                        ast.fix_missing_locations(x)
                    done.append(f"{f.qual} (context manager) -> {getattr(repo.func_of(holder), 'qual', '?')}")
                    break
            caller = repo.func_of(holder)
            root = caller.node if caller is not None else tree
            for par_ in ast.walk(root):
                for ch in ast.iter_child_nodes(par_):
                    ch._parent = par_
        dead = getattr(repo, "dead_nodes", None)
        if dead is None:
            dead = repo.dead_nodes = set()
        dead.add(id(h))
        repo.all_funcs = [x for x in repo.all_funcs if x is not f and x.parent is not f]
        repo.funcs[f.qual] = [x for x in repo.funcs.get(f.qual, []) if x is not f]
    return done


def _known_methods():
    import json
    import os
    path = os.path.join(os.path.dirname(os.path.abspath(__file__)), "methods.json")
    if not os.path.exists(path):
        return None
    return {k: {m.split("@")[0] for m in v} for k, v in json.load(open(path)).items()}


def clone_expr(e):
    from .source import clone
    return clone(e)


def clone_args(a):
    from .source import clone
    c = clone(a)
    for x in c.posonlyargs + c.args:
        x.annotation = None
    return c


def _known_classes():
    """(classes of the reference tree, their public method names)"""
    import json
    import os
    d = os.path.dirname(os.path.abspath(__file__))
    try:
        fields = json.load(open(os.path.join(d, "fields.json")))
        pub = json.load(open(os.path.join(d, "public_methods.json")))
    except OSError:
        return {}, {}
    return fields, {k: set(v) for k, v in pub.items()}


def _known_module_functions():
    import json
    import os
    path = os.path.join(os.path.dirname(os.path.abspath(__file__)), "functions.json")
    if not os.path.exists(path):
        return None
    return {k: set(v) for k, v in json.load(open(path)).items()}


def _helper_candidates(repo: Repo, prot: set):
    """private own-class methods that no rule names, with every use a supported `self.name(...)` call in the same class"""
    occ: dict[str, list] = {}
    for rel, tree in repo.non_trio_modules().items():
        for n in ast.walk(tree):
            if isinstance(n, ast.Attribute):
                occ.setdefault(n.attr, []).append(n)
    nocc: dict[tuple, list] = {}
    for rel, tree in repo.non_trio_modules().items():
        for n in ast.walk(tree):
            if isinstance(n, ast.Name):
                nocc.setdefault((rel, n.id), []).append(n)
    known = _known_module_functions()
    kmeth = _known_methods()
    kfields, kpublic = _known_classes()
    ndefs: dict[str, int] = {}
    for f_ in repo.all_funcs:
        if not f_.module.endswith("_trio.py"):
            ndefs[f_.node.name] = ndefs.get(f_.node.name, 0) + 1
    out = []
    for f in list(repo.all_funcs):
        if f.module.endswith("_trio.py") or f.parent is not None:
            continue
        h = f.node
        name = h.name
        is_method = f.cls is not None
        # private helpers; also any method that did not exist in the reference tree on a *private* class (a state record that
        # was given behaviour: `_MemoryObjectStreamState.release_send_channel`)
        fresh_on_private_cls = is_method and f.cls.startswith("_") and kmeth is not None and f"{f.module}::{f.cls}" in kfields \
            and name not in kmeth.get(f"{f.module}::{f.cls}", ()) and name not in kpublic.get(f"{f.module}::{f.cls}", ())
        if name.startswith("__") or name in prot or not (name.startswith("_") or fresh_on_private_cls):
            continue
        if not is_method:
            # module-level functions: only helpers that did not exist in the tree the rules were written against ("extract function")
            if known is None or name in known.get(f.module, ()) or name in occ:
                continue
        decos = [ast.unparse(d) for d in h.decorator_list]
        if decos not in ([], ["staticmethod"], ["classmethod"]):
            continue
        if len(repo.funcs.get(f.qual, [])) != 1:
            continue
        body = [s for s in h.body if not (isinstance(s, ast.Expr) and isinstance(s.value, ast.Constant) and isinstance(s.value.value, str))]
        if not body or len(list(ast.walk(h))) > 900:
            continue
        if any(isinstance(x, (ast.FunctionDef, ast.AsyncFunctionDef, ast.ClassDef, ast.Lambda, ast.Yield, ast.YieldFrom, ast.Global, ast.Nonlocal))
               for s_ in body for x in ast.walk(s_)):
            continue
        if any((isinstance(x, ast.Attribute) and x.attr == name) or (isinstance(x, ast.Name) and x.id == name) for s_ in body for x in ast.walk(s_)):
            continue        # recursive
        rets = [x for s_ in body for x in ast.walk(s_) if isinstance(x, ast.Return)]
        last_ret = body[-1] if isinstance(body[-1], ast.Return) else None
        early = [r for r in rets if r is not last_ret]
        # (an early return becomes a jump out of a synthetic try block; the CFG routes that jump past the helper's own handlers
        # and through its finally blocks, exactly like a return)
        sites = occ.get(name, []) if is_method else nocc.get((f.module, name), [])
        if not 1 <= len(sites) <= 16:
            continue
        plans = []
        ok = True
        for at in sites:
            call = getattr(at, "_parent", None)
            if not is_method and isinstance(at.ctx, ast.Load) and isinstance(call, ast.Call) and call.func is not at and any(a_ is at for a_ in call.args) \
                    and len(body) == 1 and isinstance(body[0], ast.Return) and body[0].value is not None and not isinstance(h, ast.AsyncFunctionDef) \
                    and not (h.args.vararg or h.args.kwarg or h.args.kwonlyargs or h.args.defaults) and repo.func_of(at) is not None \
                    and repo.func_of(at).module == f.module and repo.func_of(at).node is not h:
                # the one-expression helper is passed as a function (`exc.split(_pred)`): that is `lambda <params>: <expr>`
                lam = ast.copy_location(ast.Lambda(args=clone_args(h.args), body=clone_expr(body[0].value)), at)
                call.args[[a_ is at for a_ in call.args].index(True)] = lam
                ast.fix_missing_locations(lam)
                lam._parent = call
                for par_ in ast.walk(lam):
                    for ch_ in ast.iter_child_nodes(par_):
                        ch_._parent = par_
                continue
            if not (isinstance(call, ast.Call) and call.func is at and isinstance(at.ctx, ast.Load)):
                ok = False
                break
            caller = repo.func_of(call)
            if caller is None or caller.node is h or any(x is call for x in ast.walk(h)):
                ok = False
                break
            if caller.module != f.module:
                # a method moved to a class of another module: only if its body is closed - every name it reads is a parameter, a local
                # or a builtin (module globals would mean something else at the call site)
                import builtins as _b
                loc_ = {a_.arg for a_ in h.args.posonlyargs + h.args.args + h.args.kwonlyargs} | \
                       {x.id for s_ in body for x in ast.walk(s_) if isinstance(x, ast.Name) and isinstance(x.ctx, ast.Store)}
                if not is_method or any(isinstance(x, ast.Name) and isinstance(x.ctx, ast.Load) and x.id not in loc_ and not hasattr(_b, x.id)
                                        for s_ in body for x in ast.walk(s_)):
                    ok = False
                    break
            if is_method:
                own = isinstance(at.value, ast.Name) and at.value.id == "self" and caller.cls == f.cls \
                    and [ast.unparse(d_) for d_ in h.decorator_list] != ["classmethod"]
                if not own and isinstance(at.value, ast.Name) and at.value.id == "cls" and caller.cls == f.cls \
                        and [ast.unparse(d_) for d_ in h.decorator_list] == ["classmethod"] \
                        and any(ast.unparse(d_) == "classmethod" for d_ in caller.node.decorator_list):
                    own = True       # a class method calling a sibling class method: `cls` is the same object in both
                if not own:
                    # "move method": a private method that did not exist in the reference tree, defined once in the package and
                    # called through a pure attribute chain (`self._state._release()`): spliced in with `self` := the receiver
                    fresh = kmeth is not None and name not in kmeth.get(f"{f.module}::{f.cls}", ()) and name not in kpublic.get(f"{f.module}::{f.cls}", ())
                    chain = at.value
                    while isinstance(chain, ast.Attribute):
                        chain = chain.value
                    decos_ = [ast.unparse(d_) for d_ in h.decorator_list]
                    if fresh and decos_ == ["classmethod"] and isinstance(at.value, ast.Name) and at.value.id == f.cls and ndefs.get(name, 0) == 1:
                        call._inline_recv = at.value          # `Class.h(...)`: cls := the class
                    elif fresh and not decos_ and ndefs.get(name, 0) == 1 and isinstance(chain, ast.Name):
                        call._inline_recv = at.value
                    elif fresh and not decos_ and ndefs.get(name, 0) == 1 and isinstance(getattr(call, "_parent", None), ast.Expr):
                        # `<expression>.h(args)` as a statement: the receiver is evaluated once into a temporary first
                        est = call._parent
                        hold_ = getattr(est, "_parent", None)
                        blk_r = next((getattr(hold_, fl) for fl in ("body", "orelse", "finalbody") if isinstance(getattr(hold_, fl, None), list) and est in getattr(hold_, fl)), None)
                        if blk_r is None:
                            ok = False
                            break
                        _HOIST[0] += 1
                        tn_ = f"_recv__{name.strip('_')}_{_HOIST[0]}"
                        asg_ = ast.copy_location(ast.Assign(targets=[ast.Name(id=tn_, ctx=ast.Store())], value=at.value), est)
                        ast.fix_missing_locations(asg_)
                        blk_r.insert(blk_r.index(est), asg_)
                        asg_._parent = hold_
                        at.value = ast.copy_location(ast.Name(id=tn_, ctx=ast.Load()), at)
                        at.value._parent = at
                        call._inline_recv = at.value
                    else:
                        ok = False
                        break
            outer, par = call, getattr(call, "_parent", None)
            awaited = isinstance(par, ast.Await)
            if awaited != isinstance(h, ast.AsyncFunctionDef):
                ok = False
                break
            if awaited:
                outer, par = par, getattr(par, "_parent", None)
            st = par
            neg = False
            if isinstance(st, ast.UnaryOp) and isinstance(st.op, ast.Not) and isinstance(getattr(st, "_parent", None), (ast.If, ast.While)) and st._parent.test is st:
                neg, outer, st = True, st, st._parent
            single_expr = len(body) == 1 and isinstance(body[0], ast.Return) and body[0].value is not None and not awaited
            if single_expr:
                shape = "inline-expr"      # `return <expr>` helpers can be substituted at any position of an expression
                st = outer
            elif isinstance(st, ast.Expr) and st.value is outer:
                shape = "expr"
            elif isinstance(st, ast.Assign) and st.value is outer and len(st.targets) == 1:
                shape = "assign"
            elif isinstance(st, ast.AnnAssign) and st.value is outer:
                shape = "assign"
            elif isinstance(st, ast.Return) and st.value is outer:
                shape = "return"
            elif isinstance(st, ast.If) and st.test is outer:
                shape = "test"
            elif isinstance(st, ast.While) and st.test is outer and not st.orelse:
                shape = "wtest"          # `while h(): body` is `while True: r = h(); if not r: break; body`
            else:
                # the call sits deeper inside a simple statement (`return h() is not None`, `x = f(h())`, `if h() > 0:`): hoisted into a
                # temporary in front of it, provided nothing with an effect is evaluated before the call in that statement
                host = outer
                while host is not None and not isinstance(host, ast.stmt):
                    host = getattr(host, "_parent", None)
                hoistable = isinstance(host, (ast.Return, ast.Assign, ast.AnnAssign, ast.Expr, ast.If, ast.For)) and not awaited and any(r_.value is not None for r_ in rets)
                if hoistable and isinstance(host, ast.For) and not any(x is call for x in ast.walk(host.iter)):
                    hoistable = False        # (only the iterable of a `for` is evaluated once, before the loop)
                if hoistable:
                    region = host.test if isinstance(host, ast.If) else (host.iter if isinstance(host, ast.For) else host)
                    inside_call = {id(y) for y in ast.walk(call)}
                    for x in _eval_order(region):
                        if x is call:
                            break
                        if id(x) in inside_call:
                            continue         # the call's own arguments move with it
                        if isinstance(x, ast.Attribute) and _simple_arg(x):
                            continue
                        if not isinstance(x, (ast.Name, ast.Constant)):
                            hoistable = False
                            break
                    else:
                        hoistable = False
                hold = getattr(host, "_parent", None) if hoistable else None
                blk_h = next((getattr(hold, fl) for fl in ("body", "orelse", "finalbody") if isinstance(getattr(hold, fl, None), list) and host in getattr(hold, fl)), None) \
                    if hoistable else None
                if blk_h is None:
                    ok = False
                    break
                _HOIST[0] += 1
                tmpn = f"_hoisted__{name.strip('_')}_{_HOIST[0]}"
                par_c = getattr(call, "_parent", None)
                nmnode = ast.copy_location(ast.Name(id=tmpn, ctx=ast.Load()), call)
                for f_, val in ast.iter_fields(par_c):
                    if val is call:
                        setattr(par_c, f_, nmnode)
                    elif isinstance(val, list) and any(y is call for y in val):
                        val[[y is call for y in val].index(True)] = nmnode
                nmnode._parent = par_c
                asg = ast.copy_location(ast.Assign(targets=[ast.Name(id=tmpn, ctx=ast.Store())], value=call), host)
                ast.fix_missing_locations(asg)
                blk_h.insert(blk_h.index(host), asg)
                asg._parent = hold
                call._parent = asg
                asg.targets[0]._parent = asg
                st, shape = asg, "assign"
            plans.append((caller, call, st, shape, awaited))
        if not ok:
            continue
        out.append((f, body, rets, last_ret, early, plans))
    return out


def inline_fresh_helpers(repo: Repo, max_inlines: int = 200) -> list[str]:
    """"Extract method" in reverse.  A private own-class method (plain or @staticmethod) that no rule module mentions by name, is
    not recursive, and is used only through `self.name(simple args)` calls standing as a statement, an assignment, a `return` or
    the whole test of an `if`, is spliced into each of its callers in the parsed tree: parameters are substituted, locals renamed,
    an early `return v` becomes `result = v` plus a jump out of a synthetic `try` block (the CFG routes it like any other raise).
    The helper's own definition is dead code afterwards and is skipped by the writer tables.  Anything else stays an opaque
    own-method call (it kills `self.` facts per A2), which may make a rule report a *missing mechanism* on a refactored tree -
    a limitation, see DESIGN 9."""
    from .source import clone
    done: list[str] = []
    prot = set(_protected_names())      # (a private copy: the loop below adds to it)
    serial = 0
    queue: list = []
    passes = 0
    while True:
        if not queue:
            if passes >= 3 or len(done) >= max_inlines:
                break
            passes += 1
            # call sites are AST nodes, so splicing statements elsewhere does not invalidate the plans of the other helpers;
            # a later pass picks up calls that sat inside an inlined helper body (helpers calling helpers)
            queue = _helper_candidates(repo, prot)
            if not queue:
                break
        f, body, rets, last_ret, early, plans = queue.pop(0)
        h = f.node
        name = h.name
        a = h.args
        if a.vararg or a.kwarg:
            prot.add(name)
            continue
        allp = [x.arg for x in a.posonlyargs + a.args]
        params = allp if (([ast.unparse(d_) for d_ in h.decorator_list] == ["staticmethod"]) or f.cls is None) else allp[1:]
        defaults = dict(zip(reversed(allp), reversed(a.defaults))) if a.defaults else {}
        kwonly = {x.arg: d for x, d in zip(a.kwonlyargs, a.kw_defaults)}
        stored = {x.id for s_ in body for x in ast.walk(s_) if isinstance(x, ast.Name) and isinstance(x.ctx, (ast.Store, ast.Del))}
        stored |= {hh.name for s_ in body for hh in ast.walk(s_) if isinstance(hh, ast.ExceptHandler) and hh.name}
        ok_all = True
        bindings = []
        for caller, call, st, shape, awaited in plans:
            mapping = {}
            if len(call.args) > len(params) or any(isinstance(x, ast.Starred) for x in call.args) or any(k.arg is None for k in call.keywords):
                ok_all = False
                break
            recv = getattr(call, "_inline_recv", None)
            if recv is not None:
                mapping[allp[0]] = recv
            for pn, av in zip(params, call.args):
                mapping[pn] = av
            for k in call.keywords:
                if k.arg in params or k.arg in kwonly:
                    mapping[k.arg] = k.value
                else:
                    ok_all = False
            for pn in params:
                if pn not in mapping:
                    if pn in defaults:
                        mapping[pn] = defaults[pn]
                    else:
                        ok_all = False
            for pn, d in kwonly.items():
                if pn not in mapping:
                    if d is not None:
                        mapping[pn] = d
                    else:
                        ok_all = False
            def _arg_ok(pn_, v_):
                if _simple_arg(v_):
                    return True
                # a display (`{}`, `{"k": v}`, `[a, b]`, `(a, b)`) of simple elements may replace a parameter that the helper uses once
                if isinstance(v_, (ast.Dict, ast.List, ast.Tuple, ast.Set)):
                    elts = ([k_ for k_ in v_.keys if k_ is not None] + list(v_.values)) if isinstance(v_, ast.Dict) else list(v_.elts)
                    uses_ = sum(1 for s_ in body for x in ast.walk(s_) if isinstance(x, ast.Name) and x.id == pn_)
                    return all(_simple_arg(e_) for e_ in elts) and uses_ <= 1 and not (isinstance(v_, ast.Dict) and any(k_ is None for k_ in v_.keys))
                return False

            if not ok_all or not all(_arg_ok(k_, v) for k_, v in mapping.items()) or (stored & set(mapping)):
                ok_all = False
                break
            if shape in ("assign", "return", "test", "wtest", "inline-expr") and not any(r.value is not None for r in rets):
                ok_all = False
                break
            bindings.append(mapping)
        if not ok_all:
            prot.add(name)     # not inlinable: do not look at it again
            continue
        for (caller, call, st, shape, awaited), mapping in zip(plans, bindings):
            if shape == "inline-expr":
                expr = _ParamSubst(mapping, {}).visit(clone(body[0].value))
                holder = getattr(call, "_parent", None)
                replaced = False
                for f_, val in ast.iter_fields(holder) if holder is not None else []:
                    if val is call:
                        setattr(holder, f_, ast.copy_location(expr, call))
                        replaced = True
                    elif isinstance(val, list) and any(y is call for y in val):
                        val[[y is call for y in val].index(True)] = ast.copy_location(expr, call)
                        replaced = True
                if replaced:
                    ast.fix_missing_locations(expr)
                    for par_ in ast.walk(caller.node):
                        for ch in ast.iter_child_nodes(par_):
                            ch._parent = par_
                    done.append(f"{f.qual} -> {caller.qual} (expression)")
                continue
            serial += 1
            tag = f"{name.strip('_')}_{serial}"
            renames = {v: f"{v}__{tag}" for v in stored}
            if shape == "assign" and isinstance(st, ast.Assign):
                # a helper local that has the name of a variable this very statement assigns needs no renaming (the caller's variable
                # is overwritten by the statement anyway) - unless the caller could observe the early write: the name is read by an
                # argument, or the statement stands in a `try` whose handlers might look at it after a failure of the helper
                tnames = {x.id for x in ast.walk(st.targets[0]) if isinstance(x, ast.Name)}
                argnames = {x.id for v_ in mapping.values() for x in ast.walk(v_) if isinstance(x, ast.Name)}
                cur_ = getattr(st, "_parent", None)
                in_try = False
                while cur_ is not None and cur_ is not caller.node:
                    in_try = in_try or isinstance(cur_, ast.Try)
                    cur_ = getattr(cur_, "_parent", None)
                if not in_try:
                    for v in list(renames):
                        if v in tnames and v not in argnames:
                            del renames[v]
            # `t = self._h(...)` where the helper ends in `return r`: r is the caller's t (no copy, no renaming of r)
            same_var = None
            if shape == "assign" and not early and last_ret is not None and isinstance(last_ret.value, ast.Name) and last_ret.value.id in stored:
                tg_ = st.targets[0] if isinstance(st, ast.Assign) else st.target
                if isinstance(tg_, ast.Name):
                    same_var = tg_.id
                    renames[last_ret.value.id] = tg_.id
            res = f"_res__{tag}"
            jump = f"_InlineReturn__{tag}"
            # `t = helper(...)` with several returns: every `return v` becomes `t = v` (+ jump) - the caller's own variable is the
            # result variable, so that facts and patterns of the rules speak about the same name as in the un-extracted code
            own_target = None
            tuple_target = None
            if shape == "assign" and isinstance(st, ast.Assign) and isinstance(st.targets[0], ast.Tuple) and all(isinstance(e_, ast.Name) for e_ in st.targets[0].elts) \
                    and rets and all(isinstance(r_.value, ast.Tuple) and len(r_.value.elts) == len(st.targets[0].elts) for r_ in rets) \
                    and not _may_fall_through(body) and not ({e_.id for e_ in st.targets[0].elts} & set(renames.values())):
                # `a, b = helper(...)` where every return is a pair: each `return x, y` becomes `a, b = x, y` (+ jump)
                tuple_target = st.targets[0]
            if shape == "assign" and early and isinstance(st, ast.Assign) and isinstance(st.targets[0], ast.Name):
                tn_ = st.targets[0].id
                if not any(isinstance(x, ast.Name) and x.id == tn_ for v_ in mapping.values() for x in ast.walk(v_)) and tn_ not in renames.values():
                    own_target = tn_
                    res = tn_
            new = []
            for s_ in body:
                c = clone(s_)
                for hh in ast.walk(c):
                    if isinstance(hh, ast.ExceptHandler) and hh.name in renames:
                        hh.name = renames[hh.name]
                new.append(_ParamSubst(mapping, renames).visit(c))
            need_res = shape in ("assign", "return", "test", "wtest")
            use_block = bool(early)
            direct = None
            if tuple_target is not None:
                need_res = False
            if tuple_target is None and not early and last_ret is not None and last_ret.value is not None and shape in ("assign", "return"):
                # single return at the end: no result variable, the returned expression goes straight to the caller's statement
                direct = new.pop()
                need_res = False

            # `return helper(...)`: a return of the helper *is* a return of the caller (its own try/finally frames come along)
            tail_call = shape == "return" and early
            if tail_call:
                need_res = False
                use_block = False

            def conv(stmts):
                out = []
                for s2 in stmts:
                    if isinstance(s2, ast.Return) and tail_call:
                        out.append(s2 if s2.value is not None else ast.copy_location(ast.Return(ast.Constant(None)), s2))
                        continue
                    if isinstance(s2, ast.Return) and tuple_target is not None:
                        out.append(ast.copy_location(ast.Assign(targets=[clone(tuple_target)], value=s2.value), s2))
                        if use_block:
                            out.append(ast.copy_location(ast.Raise(exc=ast.Name(id=jump, ctx=ast.Load()), cause=None), s2))
                        continue
                    if isinstance(s2, ast.Return):
                        if need_res and s2.value is not None and shape in ("test", "wtest") and not isinstance(s2.value, ast.Constant):
                            # the result is only ever tested: `res = <cond>` is written `if <cond>: res = True else: res = False`, so
                            # that the caller's branch on res carries the facts of <cond> (a "decide" helper returning a bool)
                            mk = lambda v_: ast.copy_location(ast.Assign(targets=[ast.Name(id=res, ctx=ast.Store())], value=ast.Constant(v_)), s2)
                            out.append(ast.copy_location(ast.If(test=s2.value, body=[mk(True)], orelse=[mk(False)]), s2))
                        elif need_res and s2.value is not None and isinstance(s2.value, ast.Name) and s2.value.id == res:
                            pass          # `return t` where t already is the caller's target: nothing to assign
                        elif need_res and s2.value is not None:
                            out.append(ast.copy_location(ast.Assign(targets=[ast.Name(id=res, ctx=ast.Store())], value=s2.value), s2))
                        elif s2.value is not None and not isinstance(s2.value, (ast.Name, ast.Constant)):
                            out.append(ast.copy_location(ast.Expr(s2.value), s2))
                        if use_block:
                            out.append(ast.copy_location(ast.Raise(exc=ast.Name(id=jump, ctx=ast.Load()), cause=None), s2))
                        continue
                    for fld in ("body", "orelse", "finalbody"):
                        v = getattr(s2, fld, None)
                        if isinstance(v, list) and v and isinstance(v[0], ast.stmt):
                            setattr(s2, fld, conv(v) or [ast.copy_location(ast.Pass(), s2)])
                    if isinstance(s2, ast.Try):
                        for hh in s2.handlers:
                            hh.body = conv(hh.body) or [ast.copy_location(ast.Pass(), s2)]
                    if isinstance(s2, ast.Match):
                        for cs in s2.cases:
                            cs.body = conv(cs.body) or [ast.copy_location(ast.Pass(), s2)]
                    out.append(s2)
                return out

            falls_through = _may_fall_through(body)
            new = conv(new)
            pre = []
            if own_target is not None:
                if falls_through:
                    new.append(ast.copy_location(ast.Assign(targets=[ast.Name(id=res, ctx=ast.Store())], value=ast.Constant(None)), st))
            elif need_res:
                pre.append(ast.copy_location(ast.Assign(targets=[ast.Name(id=res, ctx=ast.Store())], value=ast.Constant(None)), st))
            if use_block:
                handler = ast.ExceptHandler(type=ast.Name(id=jump, ctx=ast.Load()), name=None, body=[ast.copy_location(ast.Pass(), st)])
                blk = ast.copy_location(ast.Try(body=new or [ast.copy_location(ast.Pass(), st)], handlers=[handler], orelse=[], finalbody=[]), st)
                ast.copy_location(handler, st)
                new = [blk]
            new = pre + new
            if shape == "assign":
                if (direct is not None and same_var is not None) or own_target is not None or tuple_target is not None:
                    pass        # the helper's own variable *is* the target now / the returns assign the target themselves
                else:
                    repl = clone(st)
                    repl.value = direct.value if direct is not None else ast.Name(id=res, ctx=ast.Load())
                    new.append(ast.copy_location(repl, st))
            elif shape == "return" and tail_call:
                if falls_through:
                    new.append(ast.copy_location(ast.Return(ast.Constant(None)), st))
            elif shape == "return":
                new.append(ast.copy_location(ast.Return(direct.value if direct is not None else ast.Name(id=res, ctx=ast.Load())), st))
            elif shape == "test":
                # the call was (the operand of `not` in) the whole test of an `if`: evaluate first, test the result
                t = st.test
                nm = ast.Name(id=res, ctx=ast.Load())
                st.test = ast.copy_location(ast.UnaryOp(op=ast.Not(), operand=nm), t) if isinstance(t, ast.UnaryOp) else ast.copy_location(nm, t)
                new.append(st)
            if shape == "wtest":
                t = st.test
                nm = ast.Name(id=res, ctx=ast.Load())
                leave = nm if isinstance(t, ast.UnaryOp) else ast.UnaryOp(op=ast.Not(), operand=nm)
                brk = ast.copy_location(ast.If(test=ast.copy_location(leave, t), body=[ast.copy_location(ast.Break(), t)], orelse=[]), t)
                st.test = ast.copy_location(ast.Constant(True), t)
                st.body = new + [brk] + st.body
                for x in st.body:
                    ast.fix_missing_locations(x)
                new = [st]
            holder = getattr(st, "_parent", None)
            spliced = False
            for fld in ("body", "orelse", "finalbody"):
                blk_ = getattr(holder, fld, None)
                if isinstance(blk_, list) and st in blk_:
                    i = blk_.index(st)
                    blk_[i:i + 1] = new or [ast.copy_location(ast.Pass(), st)]
                    spliced = True
                    break
            if not spliced and isinstance(holder, ast.ExceptHandler) and st in holder.body:
                i = holder.body.index(st)
                holder.body[i:i + 1] = new
                spliced = True
            for x in new:
                ast.fix_missing_locations(x)
            for par_ in ast.walk(caller.node):
                for ch in ast.iter_child_nodes(par_):
                    ch._parent = par_
            if spliced:
                done.append(f"{f.qual} -> {caller.qual}")
        dead = getattr(repo, "dead_nodes", None)
        if dead is None:
            dead = repo.dead_nodes = set()
        dead.add(id(h))
        repo.all_funcs = [x for x in repo.all_funcs if x is not f and x.parent is not f]
        repo.funcs[f.qual] = [x for x in repo.funcs.get(f.qual, []) if x is not f]
        prot.add(name)
    return done


def _eval_order(n):
    """sub-expressions of a statement/expression in (an approximation of) evaluation order, innermost first"""
    if isinstance(n, (ast.Assign, ast.AnnAssign, ast.AugAssign, ast.Return, ast.Expr)):
        v = getattr(n, "value", None)
        if v is not None:
            yield from _eval_order(v)
        return
    if isinstance(n, (ast.If, ast.While)):
        yield from _eval_order(n.test)
        return
    if isinstance(n, ast.Call):
        yield from _eval_order(n.func)
        for a in n.args:
            yield from _eval_order(a)
        for k in n.keywords:
            yield from _eval_order(k.value)
        yield n
        return
    if isinstance(n, ast.Attribute):
        yield from _eval_order(n.value)
        yield n
        return
    if isinstance(n, (ast.Await, ast.YieldFrom)):
        yield from _eval_order(n.value)
        yield n
        return
    if isinstance(n, ast.BinOp):
        yield from _eval_order(n.left)
        yield from _eval_order(n.right)
        yield n
        return
    if isinstance(n, ast.UnaryOp):
        yield from _eval_order(n.operand)
        yield n
        return
    if isinstance(n, ast.Compare):
        yield from _eval_order(n.left)
        for c in n.comparators:
            yield from _eval_order(c)
        yield n
        return
    if isinstance(n, ast.Subscript):
        yield from _eval_order(n.value)
        yield from _eval_order(n.slice)
        yield n
        return
    if isinstance(n, (ast.Tuple, ast.List)):
        for e in n.elts:
            yield from _eval_order(e)
        yield n
        return
    if isinstance(n, ast.Starred):
        yield from _eval_order(n.value)
        return
    yield n


def _inline_single_use_temps(fn) -> bool:
    """`t = f(x)` immediately followed by a statement whose first evaluation is the call `t(...)`, with t used nowhere else: the
    temporary is folded back (`f(x)(...)`).  Splitting a chained call through a temporary is a behaviour-preserving edit; evaluation
    order is unchanged because nothing is evaluated between the two."""
    uses: dict[str, int] = {}
    loads: dict[str, int] = {}
    for n in own_walk(fn):
        if isinstance(n, ast.Name):
            uses[n.id] = uses.get(n.id, 0) + 1
            if isinstance(n.ctx, ast.Load):
                loads[n.id] = loads.get(n.id, 0) + 1
    changed = False
    for par in [fn] + list(own_walk(fn)):
        for fld in ("body", "orelse", "finalbody"):
            blk = getattr(par, fld, None)
            if not isinstance(blk, list) or len(blk) < 2:
                continue
            i = 0
            while i < len(blk) - 1:
                a, b = blk[i], blk[i + 1]
                ok = False
                if isinstance(a, (ast.Assign, ast.AnnAssign)) and getattr(a, "value", None) is not None and isinstance(b, (ast.Assign, ast.AnnAssign, ast.Return, ast.Expr, ast.If)):
                    tg = a.targets[0] if isinstance(a, ast.Assign) and len(a.targets) == 1 else (a.target if isinstance(a, ast.AnnAssign) else None)
                    v = a.value
                    if isinstance(tg, ast.Name) and uses.get(tg.id, 0) == 2 and isinstance(v, ast.Call) \
                            and not any(isinstance(x, (ast.Await, ast.Yield, ast.YieldFrom, ast.NamedExpr, ast.Lambda)) for x in ast.walk(v)):
                        first_nontrivial = None
                        for x in _eval_order(b):
                            if isinstance(x, ast.Name) and x.id == tg.id and isinstance(x.ctx, ast.Load):
                                first_nontrivial = x
                                break
                            if isinstance(x, (ast.Call, ast.Await, ast.Subscript, ast.BinOp, ast.Compare)):
                                break
                        # only the "split chained call" shape: the temporary is the callee of a call in the next statement
                        hp = getattr(first_nontrivial, "_parent", None) if first_nontrivial is not None else None
                        # ... or the receiver of a method call (`w = self.wait()` / `yield from w.__await__()`)
                        recv = isinstance(hp, ast.Attribute) and hp.value is first_nontrivial and isinstance(getattr(hp, "_parent", None), ast.Call) \
                            and hp._parent.func is hp
                        if not (isinstance(hp, ast.Call) and hp.func is first_nontrivial) and not recv:
                            first_nontrivial = None
                        if first_nontrivial is not None:
                            holder = getattr(first_nontrivial, "_parent", None)
                            for f_, val in ast.iter_fields(holder) if holder is not None else []:
                                if val is first_nontrivial:
                                    setattr(holder, f_, v)
                                    ok = True
                                elif isinstance(val, list) and any(y is first_nontrivial for y in val):
                                    val[[y is first_nontrivial for y in val].index(True)] = v
                                    ok = True
                # boolean temporary: `t = <condition>` followed by `if t:` / `if not t:` (t used nowhere else)
                if not ok and isinstance(a, (ast.Assign, ast.AnnAssign)) and getattr(a, "value", None) is not None and isinstance(b, ast.If):
                    tg = a.targets[0] if isinstance(a, ast.Assign) and len(a.targets) == 1 else (a.target if isinstance(a, ast.AnnAssign) else None)
                    v = a.value
                    # (used nowhere else: one definition and one test - or the same name reused for several such definition/test pairs)
                    if isinstance(tg, ast.Name) and (uses.get(tg.id, 0) == 2 or (loads.get(tg.id, 0) * 2 == uses.get(tg.id, 0) and tg.id not in
                                                                                  {a_.arg for a_ in fn.args.args + fn.args.kwonlyargs})) \
                            and isinstance(v, (ast.BoolOp, ast.Compare, ast.UnaryOp, ast.Call, ast.Attribute)) \
                            and not any(isinstance(x, (ast.Await, ast.Yield, ast.YieldFrom, ast.NamedExpr, ast.Lambda)) for x in ast.walk(v)):
                        t = b.test
                        if isinstance(t, ast.Name) and t.id == tg.id:
                            b.test = v
                            ok = True
                        elif isinstance(t, ast.UnaryOp) and isinstance(t.op, ast.Not) and isinstance(t.operand, ast.Name) and t.operand.id == tg.id:
                            t.operand = v
                            ok = True
                # the subject of the next statement bound to a name first: `cm = <expr>` / `with cm:` and `it = <expr>` / `for x in it:`
                # (the subject is the first thing the statement evaluates; t used nowhere else)
                if not ok and isinstance(a, (ast.Assign, ast.AnnAssign)) and getattr(a, "value", None) is not None \
                        and isinstance(b, (ast.With, ast.AsyncWith, ast.For, ast.AsyncFor)):
                    tg = a.targets[0] if isinstance(a, ast.Assign) and len(a.targets) == 1 else (a.target if isinstance(a, ast.AnnAssign) else None)
                    v = a.value
                    if isinstance(tg, ast.Name) and uses.get(tg.id, 0) == 2 \
                            and not any(isinstance(x, (ast.Await, ast.Yield, ast.YieldFrom, ast.NamedExpr, ast.Lambda)) for x in ast.walk(v)):
                        if isinstance(b, (ast.With, ast.AsyncWith)) and isinstance(b.items[0].context_expr, ast.Name) and b.items[0].context_expr.id == tg.id:
                            b.items[0].context_expr = v
                            ok = True
                        elif isinstance(b, (ast.For, ast.AsyncFor)) and isinstance(b.iter, ast.Name) and b.iter.id == tg.id:
                            b.iter = v
                            ok = True
                if ok:
                    del blk[i]
                    changed = True
                    continue
                i += 1
    return changed


_PURE_CALLS = {"len", "min", "max", "abs", "bool", "int", "isinstance", "id", "type"}


def _is_pure_expr(e) -> bool:
    """no effect, no dependence on anything but the values it names: safe to evaluate again later if those are unchanged"""
    if isinstance(e, (ast.Constant, ast.Name)):
        return True
    if isinstance(e, ast.Attribute):
        return _is_pure_expr(e.value)
    if isinstance(e, ast.Subscript):
        return _is_pure_expr(e.value) and _is_pure_expr(e.slice)
    if isinstance(e, ast.Slice):
        return all(x is None or _is_pure_expr(x) for x in (e.lower, e.upper, e.step))
    if isinstance(e, ast.Call):
        return isinstance(e.func, ast.Name) and e.func.id in _PURE_CALLS and not e.keywords and all(_is_pure_expr(a) for a in e.args)
    if isinstance(e, ast.BinOp):
        return isinstance(e.op, (ast.Add, ast.Sub, ast.Mult, ast.FloorDiv, ast.Mod)) and _is_pure_expr(e.left) and _is_pure_expr(e.right)
    if isinstance(e, ast.UnaryOp):
        return _is_pure_expr(e.operand)
    if isinstance(e, ast.Compare):
        return _is_pure_expr(e.left) and all(_is_pure_expr(c) for c in e.comparators)
    if isinstance(e, ast.BoolOp):
        return all(_is_pure_expr(v) for v in e.values)
    return False


def _forward_tuple_results(fn) -> bool:
    """`t = (a, b)` ... `x, y = t` (the pair-or-None result of a spliced-in "decide" helper, unpacked by the caller): the unpacking reads
    the one tuple display that can reach it - a `t = None` definition cannot, unpacking None raises - so it is `x, y = a, b`, provided a and
    b are locals with a single definition and the tuple is built right before control leaves their region (the next statement is a
    jump: raise / return / break), so that they cannot change between the display and the unpacking."""
    changed = False
    defs: dict[str, list] = {}
    stores: dict[str, int] = {}
    for n in own_walk(fn):
        if isinstance(n, ast.Name) and isinstance(n.ctx, (ast.Store, ast.Del)):
            stores[n.id] = stores.get(n.id, 0) + 1
        if isinstance(n, ast.Assign) and len(n.targets) == 1 and isinstance(n.targets[0], ast.Name):
            defs.setdefault(n.targets[0].id, []).append(n)
    for n in list(own_walk(fn)):
        if not (isinstance(n, ast.Assign) and len(n.targets) == 1 and isinstance(n.targets[0], ast.Tuple) and isinstance(n.value, ast.Name)
                and all(isinstance(e, ast.Name) for e in n.targets[0].elts)):
            continue
        t = n.value.id
        ds = [d for d in defs.get(t, []) if not (isinstance(d.value, ast.Constant) and d.value.value is None)]
        if len(ds) != 1 or stores.get(t, 0) != len(defs.get(t, [])):
            continue
        d = ds[0]
        if not (isinstance(d.value, ast.Tuple) and len(d.value.elts) == len(n.targets[0].elts) and all(isinstance(e, ast.Name) for e in d.value.elts)):
            continue
        if any(stores.get(e.id, 0) != 1 for e in d.value.elts):
            continue
        hold = getattr(d, "_parent", None)
        blk = next((getattr(hold, fl) for fl in ("body", "orelse", "finalbody") if isinstance(getattr(hold, fl, None), list) and d in getattr(hold, fl)), None)
        if blk is None or blk.index(d) + 1 >= len(blk) or not isinstance(blk[blk.index(d) + 1], (ast.Raise, ast.Return, ast.Break)):
            continue
        from .source import clone
        n.value = ast.copy_location(clone(d.value), n.value)
        for x in ast.walk(n.value):
            if hasattr(x, "ctx"):
                x.ctx = ast.Load()
        changed = True
    return changed


def _resolve_tuple_subscripts(fn) -> bool:
    """`t = (a, b)` (the only binding of t; a, b bound once, or parameters) ... `t[1]` is `b`: tuples are immutable, so a constant
    subscript of such a local denotes the element it was built from"""
    from .source import clone
    stores: dict[str, int] = {}
    defs: dict[str, ast.AST] = {}
    for n in own_walk(fn):
        if isinstance(n, ast.Name) and isinstance(n.ctx, (ast.Store, ast.Del)):
            stores[n.id] = stores.get(n.id, 0) + 1
        if isinstance(n, (ast.Assign, ast.AnnAssign)) and getattr(n, "value", None) is not None:
            tg = n.targets if isinstance(n, ast.Assign) else [n.target]
            if len(tg) == 1 and isinstance(tg[0], ast.Name) and isinstance(n.value, ast.Tuple):
                defs[tg[0].id] = n.value
    params = {a.arg for a in fn.args.posonlyargs + fn.args.args + fn.args.kwonlyargs}
    changed = False
    for n in list(own_walk(fn)):
        if isinstance(n, ast.Subscript) and isinstance(n.ctx, ast.Load) and isinstance(n.value, ast.Name) and isinstance(n.slice, ast.Constant) \
                and isinstance(n.slice.value, int) and not isinstance(n.slice.value, bool):
            t = n.value.id
            d = defs.get(t)
            if d is None or stores.get(t, 0) != 1 or not (0 <= n.slice.value < len(d.elts)):
                continue
            e = d.elts[n.slice.value]
            if not (isinstance(e, ast.Name) and (stores.get(e.id, 0) == 1 or (e.id in params and stores.get(e.id, 0) == 0))):
                continue
            par = getattr(n, "_parent", None)
            rep = ast.copy_location(ast.Name(id=e.id, ctx=ast.Load()), n)
            for f_, val in ast.iter_fields(par) if par is not None else []:
                if val is n:
                    setattr(par, f_, rep)
                    changed = True
                elif isinstance(val, list) and any(y is n for y in val):
                    val[[y is n for y in val].index(True)] = rep
                    changed = True
            rep._parent = par
    return changed


def _is_plain_target(t) -> bool:
    """a local name, or an attribute of a local name chain (`self._x`)"""
    if isinstance(t, ast.Name):
        return True
    while isinstance(t, ast.Attribute):
        t = t.value
        if isinstance(t, ast.Name):
            return True
    return False


def _split_parallel_assignments(fn) -> bool:
    """`a, b = x, y` is `a = x; b = y` when no right-hand side reads a target assigned before it (binding a local name has no effect
    of its own, so evaluating x, binding a, evaluating y, binding b is the same as evaluating x, y and binding both)"""
    changed = False
    for par in [fn] + list(own_walk(fn)):
        for fld in ("body", "orelse", "finalbody"):
            blk = getattr(par, fld, None)
            if not isinstance(blk, list):
                continue
            i = 0
            while i < len(blk):
                st = blk[i]
                if isinstance(st, ast.Assign) and len(st.targets) > 1 and isinstance(st.value, ast.Constant) and all(_is_plain_target(t) for t in st.targets):
                    # `a = b = <constant>` is `a = <constant>; b = <constant>` (targets are bound left to right)
                    parts = [ast.copy_location(ast.Assign(targets=[t], value=ast.copy_location(ast.Constant(value=st.value.value), st.value)), st) for t in st.targets]
                    blk[i:i + 1] = parts
                    for x in parts:
                        ast.fix_missing_locations(x)
                    changed = True
                    i += len(parts)
                    continue
                if isinstance(st, ast.Assign) and len(st.targets) == 1 and isinstance(st.targets[0], ast.Tuple) and isinstance(st.value, ast.Tuple) \
                        and len(st.targets[0].elts) == len(st.value.elts) and all(_is_plain_target(t) for t in st.targets[0].elts) \
                        and not any(isinstance(x, (ast.Starred, ast.NamedExpr)) for v in st.value.elts for x in ast.walk(v)):
                    tl = [ast.unparse(t) for t in st.targets[0].elts]
                    # sequential assignment gives the same result if no later right-hand side reads an earlier target
                    # (`a, b = a, e` with e not mentioning a is fine: `a = a` changes nothing); after an attribute target the later
                    # right-hand sides must also be call-free (a call could read the attribute through another name)

                    def _reads_earlier(j, v):
                        for x in ast.walk(v):
                            if isinstance(x, (ast.Name, ast.Attribute)) and ast.unparse(x) in tl[:j]:
                                return True
                            if isinstance(x, (ast.Call, ast.Await)) and any("." in t for t in tl[:j]):
                                return True
                        return False

                    if len(set(tl)) == len(tl) and not any(_reads_earlier(j, v) for j, v in enumerate(st.value.elts)):
                        parts = [ast.copy_location(ast.Assign(targets=[t], value=v), st) for t, v in zip(st.targets[0].elts, st.value.elts)
                                 if not (isinstance(v, ast.Name) and isinstance(t, ast.Name) and v.id == t.id)]        # `a = a` is dropped
                        parts = parts or [ast.copy_location(ast.Pass(), st)]
                        blk[i:i + 1] = parts
                        for x in parts:
                            ast.fix_missing_locations(x)
                        changed = True
                        i += len(parts)
                        continue
                i += 1
    return changed


def _canonical_counter_updates(fn) -> bool:
    """(a) `t = E` directly followed by `c = t` (E pure, t a local, c a name or attribute chain) is `c = E` followed by `t = c`: the
    update is then written against the field, and t is an ordinary alias of it;
    (b) `c = c + E` / `c = c - E` (E pure and not mentioning c) is `c += E` / `c -= E`."""
    changed = False
    for par in [fn] + list(own_walk(fn)):
        for fld in ("body", "orelse", "finalbody"):
            blk = getattr(par, fld, None)
            if not isinstance(blk, list):
                continue
            # `t = E; t.m(...); c = t` (the object is prepared through the local, then stored): the store moves up next to the definition -
            # nothing in between mentions c, and binding order of a fresh object is unobservable inside one synchronous section
            for i in range(len(blk) - 2):
                a = blk[i]
                if not (isinstance(a, ast.Assign) and len(a.targets) == 1 and isinstance(a.targets[0], ast.Name) and isinstance(a.value, ast.Call)
                        and isinstance(a.value.func, (ast.Name, ast.Attribute)) and ast.unparse(a.value.func).split(".")[-1][:1].isupper()):
                    continue        # (only for a freshly constructed object)
                tn = a.targets[0].id
                j = i + 1
                while j < len(blk) and isinstance(blk[j], ast.Expr) and isinstance(blk[j].value, ast.Call) and isinstance(blk[j].value.func, ast.Attribute) \
                        and isinstance(blk[j].value.func.value, ast.Name) and blk[j].value.func.value.id == tn \
                        and not any(isinstance(x, (ast.Await, ast.Yield, ast.YieldFrom, ast.Call)) for a_ in blk[j].value.args for x in ast.walk(a_)):
                    j += 1
                if j == i + 1 or j >= len(blk):
                    continue
                b = blk[j]
                if isinstance(b, ast.Assign) and len(b.targets) == 1 and isinstance(b.targets[0], ast.Attribute) and _is_plain_target(b.targets[0]) \
                        and isinstance(b.value, ast.Name) and b.value.id == tn:
                    blk.insert(i + 1, blk.pop(j))
                    changed = True
            for i in range(len(blk) - 1):
                a, b = blk[i], blk[i + 1]
                if isinstance(a, ast.AnnAssign) and a.value is not None and isinstance(a.target, ast.Name) and a.simple and isinstance(b, ast.Assign) \
                        and isinstance(b.value, ast.Name) and b.value.id == a.target.id:
                    a = blk[i] = ast.copy_location(ast.Assign(targets=[a.target], value=a.value), a)       # (the annotation has no run-time effect)
                    a._parent = par
                # (evaluate E, bind t, store c) and (evaluate E, store c, bind t) are the same whatever E does: binding a local has no
                # effect, and the target c is a plain name/attribute chain
                if isinstance(a, ast.Assign) and len(a.targets) == 1 and isinstance(a.targets[0], ast.Name) and isinstance(b, ast.Assign) \
                        and len(b.targets) == 1 and isinstance(b.value, ast.Name) and b.value.id == a.targets[0].id \
                        and _is_plain_target(b.targets[0]) and not isinstance(a.value, (ast.Name, ast.Attribute, ast.Constant)) \
                        and (_is_pure_expr(a.value) or isinstance(b.targets[0], ast.Attribute)) \
                        and not any(isinstance(x, ast.Name) and x.id == a.targets[0].id for x in ast.walk(b.targets[0])) \
                        and not any(isinstance(x, ast.Name) and x.id == a.targets[0].id for x in ast.walk(a.value)):
                    t_name, c_tgt = a.targets[0], b.targets[0]
                    a.targets, b.targets = [c_tgt], [t_name]
                    load = ast.parse(ast.unparse(c_tgt), mode="eval").body
                    b.value = ast.copy_location(load, b.value)
                    ast.fix_missing_locations(b)
                    changed = True
            for i, st in enumerate(blk):
                if isinstance(st, ast.Assign) and len(st.targets) == 1 and _is_plain_target(st.targets[0]) and isinstance(st.value, ast.BinOp) \
                        and isinstance(st.value.op, (ast.Add, ast.Sub)) and ast.unparse(st.value.left) == ast.unparse(st.targets[0]) \
                        and _is_pure_expr(st.value.right) and ast.unparse(st.targets[0]) not in ast.unparse(st.value.right):
                    blk[i] = ast.copy_location(ast.AugAssign(target=st.targets[0], op=st.value.op, value=st.value.right), st)
                    ast.fix_missing_locations(blk[i])
                    changed = True
    return changed


def _canonical_clamps(fn) -> bool:
    """`x = E` immediately followed by `if x < 0: x = 0` is `x = max(E, 0)`"""
    changed = False
    for par in [fn] + list(own_walk(fn)):
        for fld in ("body", "orelse", "finalbody"):
            blk = getattr(par, fld, None)
            if not isinstance(blk, list) or len(blk) < 2:
                continue
            i = 0
            while i < len(blk) - 1:
                a, b = blk[i], blk[i + 1]
                if isinstance(a, ast.Assign) and len(a.targets) == 1 and isinstance(a.targets[0], ast.Name) and isinstance(b, ast.If) and not b.orelse \
                        and len(b.body) == 1 and isinstance(b.body[0], ast.Assign) and len(b.body[0].targets) == 1 \
                        and isinstance(b.body[0].targets[0], ast.Name) and b.body[0].targets[0].id == a.targets[0].id \
                        and isinstance(b.body[0].value, ast.Constant) and b.body[0].value.value == 0 and not isinstance(b.body[0].value.value, bool) \
                        and isinstance(b.test, ast.Compare) and len(b.test.ops) == 1 and isinstance(b.test.ops[0], ast.Lt) \
                        and isinstance(b.test.left, ast.Name) and b.test.left.id == a.targets[0].id \
                        and isinstance(b.test.comparators[0], ast.Constant) and b.test.comparators[0].value == 0 and _is_pure_expr(a.value):
                    a.value = ast.copy_location(ast.Call(func=ast.Name(id="max", ctx=ast.Load()), args=[a.value, ast.Constant(0)], keywords=[]), a.value)
                    ast.fix_missing_locations(a)
                    del blk[i + 1]
                    changed = True
                i += 1
    return changed


def _forward_pure_temps(fn) -> bool:
    """A local assigned once from a pure expression that is more than a plain name or attribute chain (`n = len(self._buffer)`,
    `head = chunk[:k]`, `missing = nbytes - len(self._buffer)`) is replaced by that expression at its uses - hoisting a sub-expression
    into a local, or folding one back, is then the same program for the rules - provided that every use follows the definition
    inside the same block and nothing between the definition and the use can change a value the expression reads: no store to a
    name it mentions, and, if it reads attributes, no suspension point, no call other than the pure builtins, no store/delete
    through an attribute or subscript."""
    from .source import clone
    params = {a.arg for a in fn.args.posonlyargs + fn.args.args + fn.args.kwonlyargs}
    stores: dict[str, list] = {}
    for n in own_walk(fn):
        if isinstance(n, ast.Name) and isinstance(n.ctx, (ast.Store, ast.Del)):
            stores.setdefault(n.id, []).append(n)
        elif isinstance(n, ast.ExceptHandler) and n.name:
            stores.setdefault(n.name, []).append(n)
    changed = False
    for t, sts in list(stores.items()):
        if len(sts) != 1 or t in params or not isinstance(sts[0], ast.Name):
            continue
        d = getattr(sts[0], "_parent", None)
        if not (isinstance(d, (ast.Assign, ast.AnnAssign)) and getattr(d, "value", None) is not None
                and ((isinstance(d, ast.Assign) and d.targets == [sts[0]]) or (isinstance(d, ast.AnnAssign) and d.target is sts[0]))):
            continue
        v = d.value
        if isinstance(v, (ast.Attribute, ast.Constant)) or not _is_pure_expr(v):
            continue
        if isinstance(v, ast.Name) and (v.id in params or v.id in ("self", "cls") or len(stores.get(v.id, [])) != 1):
            continue        # a plain copy `y = x` is forwarded only for a local x with a single definition
        if any(isinstance(x, ast.Name) and x.id == t for x in ast.walk(v)):
            continue
        holder = getattr(d, "_parent", None)
        blk = next((getattr(holder, fl) for fl in ("body", "orelse", "finalbody") if isinstance(getattr(holder, fl, None), list) and d in getattr(holder, fl)), None)
        if blk is None:
            continue
        after = blk[blk.index(d) + 1:]
        uses = [x for x in own_walk(fn) if isinstance(x, ast.Name) and x.id == t and isinstance(x.ctx, ast.Load)]
        inside = {id(x) for s_ in after for x in ast.walk(s_)}
        if not uses or any(id(u_) not in inside for u_ in uses):
            continue
        if sum(1 for x in ast.walk(fn) if isinstance(x, ast.Name) and x.id == t) != len(uses) + 1:
            continue        # also used in a nested function
        names = {x.id for x in ast.walk(v) if isinstance(x, ast.Name)} - _PURE_CALLS
        reads_attrs = any(isinstance(x, ast.Attribute) for x in ast.walk(v))
        use_ids = {id(u_) for u_ in uses}

        def _root(x):
            while isinstance(x, (ast.Attribute, ast.Subscript)):
                x = x.value
            return x.id if isinstance(x, ast.Name) else None

        def has_use(node):
            return any(id(x) in use_ids for x in ast.walk(node))

        def effect(node) -> bool:
            """may evaluating `node` change a value the expression reads?"""
            for x in ast.walk(node):
                if isinstance(x, ast.Name) and isinstance(x.ctx, (ast.Store, ast.Del)) and x.id in names:
                    return True
                if isinstance(x, ast.ExceptHandler) and x.name in names:
                    return True
                # the objects the expression's locals refer to: mutated through a method call or a subscript store on that local
                if isinstance(x, ast.Call) and isinstance(x.func, ast.Attribute) and _root(x.func.value) in names:
                    return True
                if isinstance(x, ast.Subscript) and isinstance(x.ctx, (ast.Store, ast.Del)) and _root(x.value) in names:
                    return True
                if reads_attrs:
                    if isinstance(x, (ast.Await, ast.Yield, ast.YieldFrom, ast.AsyncFor, ast.AsyncWith)):
                        return True
                    if isinstance(x, (ast.Attribute, ast.Subscript)) and isinstance(x.ctx, (ast.Store, ast.Del)):
                        return True
                    if isinstance(x, ast.Call) and not (isinstance(x.func, ast.Name) and (x.func.id in _PURE_CALLS or x.func.id[:1].isupper()
                                                                                          or x.func.id in ("bytes", "cast", "str", "repr"))):
                        return True
            return False

        def simple_ok(st_, dirty) -> bool:
            """uses inside a simple statement: fine if nothing dirty happened before; if the statement itself has an effect, its
            uses must all be evaluated before that effect - i.e. sit in the arguments of the one outermost effectful call"""
            if not has_use(st_):
                return True
            if dirty:
                return False
            if not effect(st_):
                return True
            calls = [x for x in ast.walk(st_) if isinstance(x, ast.Call) and effect(x)]
            inner = [c for c in calls if not any(c is not o and any(y is c for y in ast.walk(o)) for o in calls)]     # outermost ones
            if len(inner) != 1 or any(isinstance(x, (ast.Await, ast.Yield, ast.YieldFrom)) for x in ast.walk(st_) if not any(y is x for y in ast.walk(inner[0]))
                                      and not (isinstance(x, ast.Await) and x.value is inner[0])):
                return False
            c0 = inner[0]
            arg_ids = {id(y) for a_ in list(c0.args) + [k.value for k in c0.keywords] for y in ast.walk(a_)}
            if any(effect(a_) for a_ in list(c0.args) + [k.value for k in c0.keywords]):
                return False
            return all(id(u_) in arg_ids for u_ in uses if any(y is u_ for y in ast.walk(st_)))

        def scan(stmts, dirty):
            """(ok, dirty at the end if control falls through)"""
            for s_ in stmts:
                if isinstance(s_, ast.If):
                    if has_use(s_.test) and (dirty or effect(s_.test)):
                        return False, True
                    dirty = dirty or effect(s_.test)
                    ok1, d1 = scan(s_.body, dirty)
                    ok2, d2 = scan(s_.orelse, dirty)
                    if not (ok1 and ok2):
                        return False, True
                    f1, f2 = _may_fall_through(s_.body), (_may_fall_through(s_.orelse) if s_.orelse else True)
                    dirty = (d1 and f1) or ((d2 if s_.orelse else dirty) and f2)
                elif isinstance(s_, (ast.While, ast.For, ast.AsyncFor)):
                    head = s_.test if isinstance(s_, ast.While) else s_.iter
                    d_in = dirty or effect(s_)
                    if has_use(head) and d_in:
                        return False, True
                    ok1, _ = scan(s_.body, d_in)
                    ok2, _ = scan(s_.orelse, d_in)
                    if not (ok1 and ok2):
                        return False, True
                    dirty = d_in
                elif isinstance(s_, (ast.With, ast.AsyncWith)):
                    for it_ in s_.items:
                        if has_use(it_.context_expr) and (dirty or effect(it_.context_expr)):
                            return False, True
                        dirty = dirty or effect(it_.context_expr) or isinstance(s_, ast.AsyncWith)
                    ok1, dirty = scan(s_.body, dirty or (reads_attrs and isinstance(s_, ast.AsyncWith)))
                    if not ok1:
                        return False, True
                elif isinstance(s_, ast.Try):
                    ok1, d1 = scan(s_.body, dirty)
                    d_any = dirty or effect(s_)
                    oks = [ok1] + [scan(h_.body, d_any)[0] for h_ in s_.handlers] + [scan(s_.orelse, d1)[0], scan(s_.finalbody, d_any)[0]]
                    if not all(oks):
                        return False, True
                    dirty = d_any
                elif isinstance(s_, (ast.FunctionDef, ast.AsyncFunctionDef, ast.ClassDef, ast.Match)):
                    if has_use(s_):
                        return False, True
                else:
                    if not simple_ok(s_, dirty):
                        return False, True
                    dirty = dirty or effect(s_)
            return True, dirty

        ok, _ = scan(after, False)
        if not ok:
            continue
        for u_ in uses:
            h_ = getattr(u_, "_parent", None)
            rep = ast.copy_location(clone(v), u_)
            for f_, val in ast.iter_fields(h_) if h_ is not None else []:
                if val is u_:
                    setattr(h_, f_, rep)
                elif isinstance(val, list) and any(y is u_ for y in val):
                    val[[y is u_ for y in val].index(True)] = rep
            ast.fix_missing_locations(rep)
        blk.remove(d)
        if not blk:
            blk.append(ast.copy_location(ast.Pass(), d))
        changed = True
        for par_ in ast.walk(fn):
            for ch in ast.iter_child_nodes(par_):
                ch._parent = par_
    return changed


def _canonical_snapshot_pop_loops(fn) -> bool:
    """`for k in list(Q): v = Q.pop(k); BODY` over a mapping Q that BODY does not write is the keyed spelling of the head-take loop
    `while Q: k, v = Q.popitem(last=False); BODY`: the snapshot lists the keys in insertion order, every iteration removes exactly the
    key it was given, nothing else touches Q in between (one synchronous section), so the pairs come out in the same order and an early
    `break` / `return` leaves the same remainder.  Rewritten in place to the popitem form."""
    changed = False
    for n in own_walk(fn):
        if not (isinstance(n, ast.For) and isinstance(n.target, ast.Name) and not n.orelse and n.body):
            continue
        it = n.iter
        if not (isinstance(it, ast.Call) and isinstance(it.func, ast.Name) and it.func.id in ("list", "tuple") and len(it.args) == 1 and not it.keywords):
            continue
        q = it.args[0]
        if isinstance(q, ast.Call) and isinstance(q.func, ast.Attribute) and q.func.attr == "keys" and not q.args:
            q = q.func.value
        if not (isinstance(q, (ast.Attribute, ast.Name)) and _simple_arg(q)):
            continue
        qs = ast.unparse(q)
        first = n.body[0]
        if not (isinstance(first, ast.Assign) and len(first.targets) == 1 and isinstance(first.targets[0], ast.Name)
                and isinstance(first.value, ast.Call) and isinstance(first.value.func, ast.Attribute) and first.value.func.attr == "pop"
                and ast.unparse(first.value.func.value) == qs and len(first.value.args) == 1 and not first.value.keywords
                and isinstance(first.value.args[0], ast.Name) and first.value.args[0].id == n.target.id):
            continue
        rest = n.body[1:]
        touches = False
        for s_ in rest:
            for x in ast.walk(s_):
                if isinstance(x, (ast.Attribute, ast.Name)) and ast.unparse(x) == qs:
                    par = getattr(x, "_parent", None)
                    if not (isinstance(par, ast.Attribute) and False):
                        touches = True
                if isinstance(x, (ast.Await, ast.Yield, ast.YieldFrom)):
                    touches = True
                if isinstance(x, ast.Call) and isinstance(x.func, ast.Attribute) and isinstance(x.func.value, ast.Name) and x.func.value.id == "self":
                    touches = True      # an own-method call may write the mapping
        if touches:
            continue
        take = ast.copy_location(ast.Assign(
            targets=[ast.Tuple(elts=[ast.Name(id=n.target.id, ctx=ast.Store()), ast.Name(id=first.targets[0].id, ctx=ast.Store())], ctx=ast.Store())],
            value=ast.Call(func=ast.Attribute(value=q, attr="popitem", ctx=ast.Load()), args=[], keywords=[ast.keyword(arg="last", value=ast.Constant(False))])), first)
        loop = ast.copy_location(ast.While(test=ast.copy_location(q, n), body=[take] + rest, orelse=[]), n)
        ast.fix_missing_locations(loop)
        holder = getattr(n, "_parent", None)
        for fld in ("body", "orelse", "finalbody"):
            blk = getattr(holder, fld, None)
            if isinstance(blk, list) and n in blk:
                blk[blk.index(n)] = loop
                changed = True
                break
    return changed


def _expand_conditional_expressions(fn) -> bool:
    """`x = A if c else B` / `return A if c else B` are rewritten in place to the if/else statement form, so that the two spellings are
    one construct for the CFG (a test node with two branches) and for the rules"""
    from .source import clone
    changed = False
    for par in [fn] + list(own_walk(fn)):
        for fld in ("body", "orelse", "finalbody"):
            blk = getattr(par, fld, None)
            if not isinstance(blk, list):
                continue
            i = 0
            while i < len(blk):
                st = blk[i]
                v = getattr(st, "value", None) if isinstance(st, (ast.Assign, ast.AnnAssign, ast.Return, ast.Expr)) else None
                awaited = False
                if isinstance(v, ast.Await) and isinstance(v.value, ast.IfExp):
                    v, awaited = v.value, True        # `await (A if c else B)`: the test is evaluated first, then one of the two is awaited
                if isinstance(st, ast.Expr) and not awaited:
                    v = None
                if isinstance(st, ast.Raise) and isinstance(st.exc, ast.IfExp):
                    # `raise (A if c else B) [from X]`: the test is evaluated first, then one of the two is raised
                    def mkr(val):
                        c = clone(st)
                        c.exc = val
                        return c
                    blk[i] = ast.copy_location(ast.If(test=st.exc.test, body=[mkr(st.exc.body)], orelse=[mkr(st.exc.orelse)]), st)
                    changed = True
                    continue
                if isinstance(v, ast.IfExp) and not (isinstance(st, ast.AnnAssign) and st.value is None):
                    def mk(val):
                        c = clone(st)
                        c.value = ast.copy_location(ast.Await(value=val), val) if awaited else val
                        if isinstance(c, ast.AnnAssign):
                            c = ast.copy_location(ast.Assign(targets=[c.target], value=val), st)
                        return c
                    new = ast.copy_location(ast.If(test=v.test, body=[mk(v.body)], orelse=[mk(v.orelse)]), st)
                    blk[i] = new
                    changed = True
                    continue      # nested conditional expressions in the branches are expanded on the next visit
                i += 1
    return changed


def resolve_aliases(repo: Repo):
    """substitute, in place, single-assignment local aliases (`waiters = self._waiters`,
    `task = current_task()`) at their use sites, so that patterns and facts are written
    against the field / call itself and introducing or removing such a temporary is neutral"""
    for f in repo.all_funcs:
        ch = False
        for _ in range(4):
            if not _expand_conditional_expressions(f.node):
                break
            ch = True
        if ch:
            for par in ast.walk(f.node):
                for chd in ast.iter_child_nodes(par):
                    chd._parent = par
    for f in repo.all_funcs:
        _canonical_suppress(f.node)
        _expand_kwargs_dicts(f.node)
        _canonical_partial_spawn(f.node)
        _split_live_ranges(f.node)
    for f in repo.all_funcs:
        if _canonical_bool_locals(f.node, repo):
            for par in ast.walk(f.node):
                for chd in ast.iter_child_nodes(par):
                    chd._parent = par
    for f in repo.all_funcs:
        ch = _forward_tuple_results(f.node)
        if ch:
            for par in ast.walk(f.node):
                for chd in ast.iter_child_nodes(par):
                    chd._parent = par
        ch = _split_parallel_assignments(f.node) or ch
        ch = _canonical_counter_updates(f.node) or ch
        ch = _canonical_clamps(f.node) or ch
        if ch:
            for par in ast.walk(f.node):
                for chd in ast.iter_child_nodes(par):
                    chd._parent = par
        _forward_pure_temps(f.node)
        if _resolve_tuple_subscripts(f.node):
            for par in ast.walk(f.node):
                for chd in ast.iter_child_nodes(par):
                    chd._parent = par
    for f in repo.all_funcs:
        if _canonical_snapshot_pop_loops(f.node):
            for par in ast.walk(f.node):
                for ch in ast.iter_child_nodes(par):
                    ch._parent = par
    for f in repo.all_funcs:
        if _inline_single_use_temps(f.node):
            for par in ast.walk(f.node):
                for ch in ast.iter_child_nodes(par):
                    ch._parent = par
    for f in repo.all_funcs:
        if _inline_return_temps(f.node):
            for par in ast.walk(f.node):
                for ch in ast.iter_child_nodes(par):
                    ch._parent = par
    from . import facts as _facts
    _facts.VOLATILE_ATTRS.clear()
    for cn, lst in repo.classes.items():
        for rel, cd in lst:
            if rel.endswith("_trio.py") or not any(ast.unparse(b).split(".")[-1].endswith("Protocol") for b in cd.bases):
                continue
            for m in cd.body:
                if isinstance(m, (ast.FunctionDef, ast.AsyncFunctionDef)) and m.name not in ("__init__", "__post_init__", "__new__", "connection_made"):      # (connection_made is the protocol's initialiser: called once, first)
                    for x in ast.walk(m):
                        if isinstance(x, ast.Attribute) and isinstance(x.ctx, ast.Store) and isinstance(x.value, ast.Name) and x.value.id == "self" \
                                and isinstance(getattr(x, "_parent", None), (ast.Assign, ast.AnnAssign)):
                            _facts.VOLATILE_ATTRS.add(x.attr)
    for f in repo.all_funcs:
        al = local_aliases(f.node)
        if not al:
            continue
        t = _AliasSubst(al)
        t.root = f.node
        t.visit(f.node)
        for par in ast.walk(f.node):
            for ch in ast.iter_child_nodes(par):
                ch._parent = par
    for f in repo.all_funcs:
        if _forward_field_snapshots(f.node):
            for par in ast.walk(f.node):
                for ch in ast.iter_child_nodes(par):
                    ch._parent = par
    for f in repo.all_funcs:
        if _canonical_counter_updates(f.node):          # (`c = t + E` with t an alias of c has become `c = c + E`)
            for par in ast.walk(f.node):
                for ch in ast.iter_child_nodes(par):
                    ch._parent = par


def propagate_module_literals(repo: Repo) -> int:
    """A private module-level name bound exactly once to a string or bytes literal (`_EOF_MARKER = "UNEXPECTED_EOF..."`) and never
    rebound is that literal wherever a function of the module reads it: hoisting a literal into a named constant, or writing it
    out again, is the same program.  Names the rules mention are left alone."""
    prot = set(_protected_names())
    n_sub = 0
    for rel, tree in repo.non_trio_modules().items():
        cands: dict[str, ast.Constant] = {}
        stores: dict[str, int] = {}
        for x in ast.walk(tree):
            if isinstance(x, ast.Name) and isinstance(x.ctx, (ast.Store, ast.Del)):
                stores[x.id] = stores.get(x.id, 0) + 1
            elif isinstance(x, (ast.Global, ast.Nonlocal)):
                for nm in x.names:
                    stores[nm] = stores.get(nm, 0) + 2
            elif isinstance(x, ast.arg):
                stores[x.arg] = stores.get(x.arg, 0) + 2
        for st in tree.body:
            tg, v = None, None
            if isinstance(st, ast.Assign) and len(st.targets) == 1 and isinstance(st.targets[0], ast.Name):
                tg, v = st.targets[0].id, st.value
            elif isinstance(st, ast.AnnAssign) and isinstance(st.target, ast.Name) and st.value is not None:
                tg, v = st.target.id, st.value
            if tg and tg.startswith("_") and not tg.startswith("__") and tg not in prot and stores.get(tg, 0) == 1 \
                    and isinstance(v, ast.Constant) and isinstance(v.value, (str, bytes)):
                cands[tg] = v
        if not cands:
            continue
        for x in list(ast.walk(tree)):
            if isinstance(x, ast.Name) and isinstance(x.ctx, ast.Load) and x.id in cands:
                par = getattr(x, "_parent", None)
                rep = ast.copy_location(ast.Constant(value=cands[x.id].value), x)
                for f_, val in ast.iter_fields(par) if par is not None else []:
                    if val is x:
                        setattr(par, f_, rep)
                        rep._parent = par
                        n_sub += 1
                    elif isinstance(val, list) and any(y is x for y in val):
                        val[[y is x for y in val].index(True)] = rep
                        rep._parent = par
                        n_sub += 1
    return n_sub


def _canonical_partial_spawn(fn) -> bool:
    """`run_sync(partial(F, a, b, k=v), c)` calls `F(a, b, c, k=v)` in the target thread, as does `run_sync(partial(F, k=v), a, b, c)`:
    positional arguments bound by the partial are written at the call (also when the partial was bound to a single-use local in
    the statement before).  Only for `run_sync`, whose contract is `func(*args)`."""
    uses: dict[str, int] = {}
    for n in own_walk(fn):
        if isinstance(n, ast.Name):
            uses[n.id] = uses.get(n.id, 0) + 1
    changed = False

    def is_partial(e):
        return isinstance(e, ast.Call) and isinstance(e.func, ast.Name) and e.func.id == "partial" and e.args \
            and not any(isinstance(a, ast.Starred) for a in e.args) and not any(k.arg is None for k in e.keywords) \
            and not any(isinstance(x, (ast.Call, ast.Await, ast.NamedExpr, ast.Yield, ast.YieldFrom)) for a in e.args for x in ast.walk(a))

    for par in [fn] + list(own_walk(fn)):
        for fld in ("body", "orelse", "finalbody"):
            blk = getattr(par, fld, None)
            if not isinstance(blk, list):
                continue
            i = 0
            while i < len(blk):
                st = blk[i]
                for c in [x for x in ast.walk(st) if isinstance(x, ast.Call) and isinstance(x.func, ast.Name) and x.func.id == "run_sync" and x.args] \
                        if isinstance(st, (ast.Expr, ast.Assign, ast.Return)) else []:
                    first = c.args[0]
                    pdef = None
                    if isinstance(first, ast.Name) and uses.get(first.id, 0) == 2 and i > 0 and isinstance(blk[i - 1], ast.Assign) \
                            and len(blk[i - 1].targets) == 1 and isinstance(blk[i - 1].targets[0], ast.Name) and blk[i - 1].targets[0].id == first.id \
                            and is_partial(blk[i - 1].value):
                        pdef = blk[i - 1]
                        pc = pdef.value
                    elif is_partial(first):
                        pc = first
                    else:
                        continue
                    if len(pc.args) <= 1 and pdef is None:
                        continue        # already canonical
                    head = ast.Call(func=pc.func, args=[pc.args[0]], keywords=pc.keywords) if pc.keywords else pc.args[0]
                    ast.copy_location(head, first)
                    c.args = [head] + list(pc.args[1:]) + list(c.args[1:])
                    ast.fix_missing_locations(c)
                    if pdef is not None:
                        del blk[i - 1]
                        i -= 1
                    changed = True
                i += 1
    if changed:
        for par_ in ast.walk(fn):
            for ch in ast.iter_child_nodes(par_):
                ch._parent = par_
    return changed


def _expand_kwargs_dicts(fn) -> bool:
    """`opts = {"a": x, "b": y}` used only as `f(..., **opts)` (never mutated, values plain names/attributes/constants) is the keywords
    written out at each call"""
    changed = False
    for d in [x for x in own_walk(fn) if isinstance(x, (ast.Assign, ast.AnnAssign)) and isinstance(getattr(x, "value", None), ast.Dict)]:
        tg = d.targets[0] if isinstance(d, ast.Assign) and len(d.targets) == 1 else (d.target if isinstance(d, ast.AnnAssign) else None)
        if not isinstance(tg, ast.Name):
            continue
        v = d.value
        if not v.keys or not all(isinstance(k, ast.Constant) and isinstance(k.value, str) and k.value.isidentifier() for k in v.keys) \
                or not all(isinstance(x, (ast.Name, ast.Attribute, ast.Constant)) for x in v.values):
            continue
        occ = [x for x in ast.walk(fn) if isinstance(x, ast.Name) and x.id == tg.id]
        loads = [x for x in occ if isinstance(x.ctx, ast.Load)]
        if len(occ) != len(loads) + 1 or not loads:
            continue
        if not all(isinstance(getattr(x, "_parent", None), ast.keyword) and x._parent.arg is None for x in loads):
            continue
        names = {y.id for x in v.values for y in ast.walk(x) if isinstance(y, ast.Name)}
        if any(isinstance(x, ast.Name) and isinstance(x.ctx, (ast.Store, ast.Del)) and x.id in names and x is not tg for x in own_walk(fn)):
            continue        # a value name is rebound somewhere: keep the dict
        for x in loads:
            kw = x._parent
            call = getattr(kw, "_parent", None)
            if not isinstance(call, ast.Call):
                break
            i = [k is kw for k in call.keywords].index(True)
            call.keywords[i:i + 1] = [ast.keyword(arg=k.value, value=clone_expr(val)) for k, val in zip(v.keys, v.values)]
            ast.fix_missing_locations(call)
        else:
            hold = getattr(d, "_parent", None)
            for fl in ("body", "orelse", "finalbody"):
                blk = getattr(hold, fl, None)
                if isinstance(blk, list) and d in blk:
                    blk.remove(d)
                    if not blk:
                        blk.append(ast.copy_location(ast.Pass(), d))
            changed = True
    if changed:
        for par_ in ast.walk(fn):
            for ch in ast.iter_child_nodes(par_):
                ch._parent = par_
    return changed


def _canonical_suppress(fn) -> bool:
    """`with suppress(E1, E2): body` (contextlib) is `try: body / except (E1, E2): pass`"""
    changed = False
    for par in [fn] + list(own_walk(fn)):
        for fld in ("body", "orelse", "finalbody"):
            blk = getattr(par, fld, None)
            if not isinstance(blk, list):
                continue
            for i, st in enumerate(blk):
                if isinstance(st, ast.With) and len(st.items) == 1 and st.items[0].optional_vars is None and isinstance(st.items[0].context_expr, ast.Call) \
                        and ast.unparse(st.items[0].context_expr.func) in ("suppress", "contextlib.suppress") and st.items[0].context_expr.args \
                        and not st.items[0].context_expr.keywords and all(isinstance(a, (ast.Name, ast.Attribute)) for a in st.items[0].context_expr.args):
                    ex = st.items[0].context_expr.args
                    typ = ex[0] if len(ex) == 1 else ast.Tuple(elts=list(ex), ctx=ast.Load())
                    h = ast.ExceptHandler(type=typ, name=None, body=[ast.Pass()])
                    t = ast.copy_location(ast.Try(body=st.body, handlers=[h], orelse=[], finalbody=[]), st)
                    ast.copy_location(h, st)
                    ast.fix_missing_locations(t)
                    # the handler sits after the body
                    end = max((getattr(x, "end_lineno", 0) or 0) for x in ast.walk(st))
                    for x in ast.walk(h):
                        if hasattr(x, "lineno"):
                            x.lineno = x.end_lineno = end
                    blk[i] = t
                    changed = True
    if changed:
        for par_ in ast.walk(fn):
            for ch in ast.iter_child_nodes(par_):
                ch._parent = par_
    return changed


def _split_live_ranges(fn) -> bool:
    """A local assigned more than once by plain statements of one block (`x = self._f; if x is not None: return x; x = make(); ...`)
    is several variables that share a name: every use reads the latest assignment above it in that block.  Each later assignment
    gets a name of its own, so that the single-assignment canonicalisations (aliases, temporaries) apply to each range."""
    params = {a.arg for a in fn.args.posonlyargs + fn.args.args + fn.args.kwonlyargs}
    if fn.args.vararg:
        params.add(fn.args.vararg.arg)
    if fn.args.kwarg:
        params.add(fn.args.kwarg.arg)
    stores: dict[str, list] = {}
    bad: set[str] = set()
    for n in own_walk(fn):
        if isinstance(n, ast.Name) and isinstance(n.ctx, (ast.Store, ast.Del)):
            par = getattr(n, "_parent", None)
            if isinstance(par, ast.Assign) and par.targets == [n] or isinstance(par, ast.AnnAssign) and par.target is n and par.value is not None:
                stores.setdefault(n.id, []).append(par)
            else:
                bad.add(n.id)
        elif isinstance(n, ast.ExceptHandler) and n.name:
            bad.add(n.name)
        elif isinstance(n, (ast.Global, ast.Nonlocal)):
            bad.update(n.names)
    changed = False
    for k, defs in stores.items():
        if len(defs) < 2 or k in bad or k in params or k.startswith("_"):
            continue
        holder = getattr(defs[0], "_parent", None)
        blk = next((getattr(holder, fl) for fl in ("body", "orelse", "finalbody") if isinstance(getattr(holder, fl, None), list) and defs[0] in getattr(holder, fl)), None)
        if blk is None or not all(any(d is s_ for s_ in blk) for d in defs):
            continue
        idx = sorted(blk.index(d) for d in defs)
        names = [x for x in ast.walk(fn) if isinstance(x, ast.Name) and x.id == k]
        own_ids = {id(x) for x in own_walk(fn)}
        if any(id(x) not in own_ids for x in names):
            continue        # captured by a nested function
        where = {}
        okk = True
        for x in names:
            j = next((i for i, s_ in enumerate(blk) if any(y is x for y in ast.walk(s_))), None)
            if j is None or j < idx[0]:
                okk = False
                break
            if isinstance(x.ctx, ast.Store):
                where[id(x)] = idx.index(j)
            else:
                # a use inside the defining statement itself reads the previous range
                m = max(i for i, d_ in enumerate(idx) if d_ < j or (d_ == j and False)) if any(d_ < j for d_ in idx) else None
                if m is None:
                    okk = False
                    break
                where[id(x)] = m
        if not okk:
            continue
        for x in names:
            m = where[id(x)]
            if m > 0:
                x.id = f"{k}__{m + 1}"
        changed = True
    return changed


def _surely_bool(e, repo) -> bool:
    if isinstance(e, ast.Compare):
        return True
    if isinstance(e, ast.UnaryOp) and isinstance(e.op, ast.Not):
        return True
    if isinstance(e, ast.Constant) and isinstance(e.value, bool):
        return True
    if isinstance(e, ast.BoolOp):
        return all(_surely_bool(v, repo) for v in e.values)
    if isinstance(e, ast.Call) and isinstance(e.func, ast.Name):
        if e.func.id in ("isinstance", "issubclass", "callable", "hasattr", "bool"):
            return True
        defs = [f for f in repo.all_funcs if f.node.name == e.func.id and f.cls is None and f.parent is None]
        return bool(defs) and all(isinstance(f.node.returns, ast.Name) and f.node.returns.id == "bool" for f in defs)
    if isinstance(e, ast.Call) and isinstance(e.func, ast.Attribute) and e.func.attr in ("cancelled", "done", "is_set", "locked") and not e.args and not e.keywords:
        return True
    return False


def _canonical_bool_locals(fn, repo) -> bool:
    """`ok = A and B ... if ok: ... return ok` with a boolean-valued right-hand side is the written-out decision
    `if A and B: ok = True else: ok = False ... if ok: return True else: return False`: the rules then see the conditions on
    the paths, and the literal verdicts."""
    counts: dict[str, int] = {}
    for n in own_walk(fn):
        if isinstance(n, ast.Name) and isinstance(n.ctx, (ast.Store, ast.Del)):
            counts[n.id] = counts.get(n.id, 0) + 1
        elif isinstance(n, ast.ExceptHandler) and n.name:
            counts[n.name] = counts.get(n.name, 0) + 2
    changed = False
    for d in [x for x in own_walk(fn) if isinstance(x, ast.Assign) and len(x.targets) == 1 and isinstance(x.targets[0], ast.Name)]:
        k = d.targets[0].id
        if counts.get(k) != 1 or not isinstance(d.value, ast.BoolOp) or not _surely_bool(d.value, repo):
            continue        # (a single atom bound to a local is folded back by the temporaries rules; only compound decisions are written out)
        uses = [x for x in ast.walk(fn) if isinstance(x, ast.Name) and x.id == k and isinstance(x.ctx, ast.Load)]
        if not uses:
            continue

        def role(u_):
            p_ = getattr(u_, "_parent", None)
            if isinstance(p_, ast.UnaryOp) and isinstance(p_.op, ast.Not):
                u_, p_ = p_, getattr(p_, "_parent", None)
            if isinstance(p_, (ast.If, ast.While)) and p_.test is u_:
                return "test"
            if isinstance(p_, ast.Return) and p_.value is u_ and isinstance(u_, ast.Name):
                return "return"
            return None

        roles = [role(u_) for u_ in uses]
        if None in roles:
            continue

        holder = getattr(d, "_parent", None)
        blk = next((getattr(holder, fl) for fl in ("body", "orelse", "finalbody") if isinstance(getattr(holder, fl, None), list) and d in getattr(holder, fl)), None)
        if blk is None:
            continue
        mk = lambda val: ast.copy_location(ast.Assign(targets=[ast.Name(id=k, ctx=ast.Store())], value=ast.Constant(value=val)), d)
        dec = ast.copy_location(ast.If(test=d.value, body=[mk(True)], orelse=[mk(False)]), d)
        ast.fix_missing_locations(dec)
        blk[blk.index(d)] = dec
        for u_, r_ in zip(uses, roles):
            if r_ != "return":
                continue
            ret = u_._parent
            hold2 = getattr(ret, "_parent", None)
            blk2 = next((getattr(hold2, fl) for fl in ("body", "orelse", "finalbody") if isinstance(getattr(hold2, fl, None), list) and ret in getattr(hold2, fl)), None)
            if blk2 is None:
                continue
            rt = lambda val: ast.copy_location(ast.Return(value=ast.Constant(value=val)), ret)
            sel = ast.copy_location(ast.If(test=ast.Name(id=k, ctx=ast.Load()), body=[rt(True)], orelse=[rt(False)]), ret)
            ast.fix_missing_locations(sel)
            blk2[blk2.index(ret)] = sel
        changed = True
        for par_ in ast.walk(fn):
            for ch in ast.iter_child_nodes(par_):
                ch._parent = par_
    return changed


def _forward_field_snapshots(fn) -> bool:
    """`t = self._x` whose field is rewritten later in the same function (`n = self._count; if n: self._count = 0; parent += n`) is
    not an alias - but every use of t positioned before the first thing that could change the field (a store to an attribute of
    the chain, a call, a suspension point; a loop that contains both) still reads the field's value, and is written against the
    field.  The definition stays for the remaining uses."""
    from .facts import strip_cast
    counts: dict[str, int] = {}
    for n in own_walk(fn):
        if isinstance(n, ast.Name) and isinstance(n.ctx, (ast.Store, ast.Del)):
            counts[n.id] = counts.get(n.id, 0) + 1
        elif isinstance(n, ast.ExceptHandler) and n.name:
            counts[n.name] = counts.get(n.name, 0) + 2
    params = {a.arg for a in fn.args.posonlyargs + fn.args.args + fn.args.kwonlyargs}
    changed = False
    pos = lambda n_: (getattr(n_, "lineno", 0), getattr(n_, "col_offset", 0))
    for d in [x for x in own_walk(fn) if isinstance(x, ast.Assign) and len(x.targets) == 1 and isinstance(x.targets[0], ast.Name)]:
        k = d.targets[0].id
        v = strip_cast(d.value)
        if counts.get(k) != 1 or k in params or not isinstance(v, ast.Attribute) or any(isinstance(x, (ast.Call, ast.Subscript)) for x in ast.walk(v)):
            continue
        base = v
        while isinstance(base, ast.Attribute):
            base = base.value
        if not (isinstance(base, ast.Name) and counts.get(base.id, 0) == 0):
            continue
        holder = getattr(d, "_parent", None)
        blk = next((getattr(holder, fl) for fl in ("body", "orelse", "finalbody") if isinstance(getattr(holder, fl, None), list) and d in getattr(holder, fl)), None)
        if blk is None:
            continue
        after = blk[blk.index(d) + 1:]
        inside = {id(x) for s_ in after for x in ast.walk(s_)}
        uses = [x for x in own_walk(fn) if isinstance(x, ast.Name) and x.id == k and isinstance(x.ctx, ast.Load)]
        if not uses or any(id(x) not in inside for x in uses):
            continue
        if sum(1 for x in ast.walk(fn) if isinstance(x, ast.Name) and x.id == k) != len(uses) + 1:
            continue
        chain_attrs = {x.attr for x in ast.walk(v) if isinstance(x, ast.Attribute)}

        def disturbs(x):
            if isinstance(x, ast.Attribute) and isinstance(x.ctx, (ast.Store, ast.Del)) and x.attr in chain_attrs:
                return True
            if isinstance(x, (ast.Yield, ast.YieldFrom, ast.AsyncFor, ast.AsyncWith, ast.Await)):
                return True
            if isinstance(x, ast.Call) and not (isinstance(x.func, ast.Name) and (x.func.id in _PURE_CALLS or x.func.id[:1].isupper())):
                return True
            return False

        dist = [x for s_ in after for x in ast.walk(s_) if hasattr(x, "lineno") and disturbs(x)]
        loops = [x for s_ in after for x in ast.walk(s_) if isinstance(x, (ast.While, ast.For))]
        if not dist:
            continue            # a plain alias: the business of local_aliases
        def eff_pos(x):
            # the target of an assignment is stored after its right-hand side was evaluated
            par_ = getattr(x, "_parent", None)
            if isinstance(x, ast.Attribute) and isinstance(x.ctx, ast.Store) and isinstance(par_, (ast.Assign, ast.AnnAssign)) and getattr(par_, "value", None) is not None:
                return (getattr(par_, "end_lineno", 0) or 0, getattr(par_, "end_col_offset", 0) or 0)
            return pos(x)

        def ancestors(n_):
            out_ = []
            while n_ is not None and n_ is not fn:
                out_.append(n_)
                n_ = getattr(n_, "_parent", None)
            return out_

        def exclusive(x, u_):
            """x and u_ sit in different arms of one `if`: x is on no path to u_"""
            ax = ancestors(x)
            au = ancestors(u_)
            for i_ in [a_ for a_ in ax if isinstance(a_, ast.If) and any(a_ is b_ for b_ in au)]:
                in_body = lambda n_, arm: any(any(y is n_ for y in ast.walk(s_)) for s_ in arm)
                if (in_body(x, i_.body) and in_body(u_, i_.orelse)) or (in_body(x, i_.orelse) and in_body(u_, i_.body)):
                    return True
            return False

        for u_ in uses:
            rel_ = [x for x in dist if not exclusive(x, u_)
                    and not (isinstance(x, ast.Call) and isinstance(x.func, ast.Attribute) and x.func.value is u_)]      # (the receiver is read before its call runs)
            first = min((eff_pos(x) for x in rel_), default=(10 ** 9, 0))
            if pos(u_) >= first:
                continue
            if any(any(y is u_ for y in ast.walk(lp)) and any(disturbs(y) for y in ast.walk(lp)) for lp in loops):
                continue
            h_ = getattr(u_, "_parent", None)
            rep = ast.copy_location(clone_expr(v), u_)
            for x in ast.walk(rep):
                if hasattr(x, "ctx"):
                    x.ctx = ast.Load()
            for f_, val in ast.iter_fields(h_) if h_ is not None else []:
                if val is u_:
                    setattr(h_, f_, rep)
                elif isinstance(val, list) and any(y is u_ for y in val):
                    val[[y is u_ for y in val].index(True)] = rep
            ast.fix_missing_locations(rep)
            changed = True
    return changed


def _stmt_at_line(fn, line):
    best = None
    for n in ast.walk(fn):
        if isinstance(n, ast.stmt) and getattr(n, "lineno", None) == line:
            if best is None or isinstance(best, (ast.If, ast.While, ast.For, ast.With, ast.Try, ast.AsyncWith, ast.AsyncFor)):
                best = n
    return best


# ----------------------------------------------------------------------------- known findings
def load_known(path="/verif/known_findings.json"):
    if not os.path.exists(path):
        return []
    with open(path) as fh:
        return json.load(fh).get("findings", [])


def match_known(ob: Ob, prop: str, known: list) -> dict | None:
    for k in known:
        if k.get("status") != "open" or k.get("property") != prop:
            continue
        if k.get("rule") == ob.rule and k.get("key") == ob.key:
            return k
    return None
