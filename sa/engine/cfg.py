"""Statement-level control-flow graph for (async) Python functions with cancel-aware
exceptional edges (DESIGN §2.2, assumption A1)."""
from __future__ import annotations

import ast
import builtins
import itertools
from dataclasses import dataclass, field

from .source import own_walk

CANCEL = "CancelledError"

# ----------------------------------------------------------------------------- hierarchy
_EXTRA_HIER = {
    "CancelledError": "BaseException",
    "InvalidStateError": "Exception",
    "QueueEmpty": "Exception",
    "QueueFull": "Exception",
    "SSLError": "OSError",
    "SSLWantReadError": "SSLError",
    "SSLWantWriteError": "SSLError",
    "SSLSyscallError": "SSLError",
    "SSLEOFError": "SSLError",
    "SSLZeroReturnError": "SSLError",
    "SSLCertVerificationError": "SSLError",
    "CertificateError": "SSLError",
    "Empty": "Exception",
    "Full": "Exception",
    "gaierror": "OSError",
    "IncompleteReadError": "EOFError",
    "LimitOverrunError": "Exception",
    "BrokenExecutor": "RuntimeError",
    "BrokenProcessPool": "RuntimeError",
    "EndOfChannel": "Exception",
    "ClosedResourceErrorT": "Exception",
    "StopWorker": "Exception",
}


class Hierarchy:
    def __init__(self, repo=None):
        self.parent: dict[str, str | None] = {}
        for name in dir(builtins):
            obj = getattr(builtins, name)
            if isinstance(obj, type) and issubclass(obj, BaseException):
                b = obj.__bases__[0]
                self.parent[name] = b.__name__ if issubclass(b, BaseException) else None
        self.parent["EnvironmentError"] = "Exception"
        self.parent["IOError"] = "Exception"
        self.parent.update(_EXTRA_HIER)
        if repo is not None:
            for rel, tree in repo.modules.items():
                for n in ast.walk(tree):
                    if isinstance(n, ast.ClassDef) and n.bases:
                        for b in n.bases:
                            bn = exc_name(b)
                            if bn in self.parent and n.name not in self.parent:
                                self.parent[n.name] = bn
                                break
            # second pass for classes deriving from repo classes declared later
            for rel, tree in repo.modules.items():
                for n in ast.walk(tree):
                    if isinstance(n, ast.ClassDef) and n.bases and n.name not in self.parent:
                        for b in n.bases:
                            bn = exc_name(b)
                            if bn in self.parent:
                                self.parent[n.name] = bn
                                break

    def is_sub(self, a: str, b: str) -> bool:
        seen = 0
        while a is not None and seen < 20:
            if a == b:
                return True
            if a not in self.parent:
                a = "Exception" if a != "Exception" else None
            else:
                a = self.parent[a]
            seen += 1
        return False


DEFAULT_HIER = Hierarchy()

_CANCEL_NAMES = {"CancelledError", "get_cancelled_exc_class", "_cancelled_exc_class", "cancelled_exc_class", "Cancelled"}


def exc_name(e) -> str:
    if e is None:
        return "BaseException"
    if isinstance(e, ast.Call):
        e = e.func
    if isinstance(e, ast.Subscript):
        e = e.value
    if isinstance(e, ast.Attribute):
        n = e.attr
    elif isinstance(e, ast.Name):
        n = e.id
    else:
        return "?"
    return CANCEL if n in _CANCEL_NAMES else n


def handler_names(h: ast.ExceptHandler) -> list[str]:
    if h.type is None:
        return ["BaseException"]
    if isinstance(h.type, ast.Tuple):
        return [exc_name(x) for x in h.type.elts]
    return [exc_name(h.type)]


def contains(n, types) -> bool:
    if isinstance(n, types):
        return True
    for x in own_walk(n):
        if isinstance(x, types):
            return True
    return False


def awaits_in(n) -> list[ast.AST]:
    out = []
    if isinstance(n, ast.Await):
        out.append(n)
    for x in own_walk(n):
        if isinstance(x, ast.Await):
            out.append(x)
        elif isinstance(x, ast.comprehension) and x.is_async:
            out.append(x)
    return out


def call_name(c) -> str:
    """last component of a call's function name"""
    if isinstance(c, ast.Await):
        c = c.value
    if isinstance(c, ast.Call):
        f = c.func
        if isinstance(f, ast.Attribute):
            return f.attr
        if isinstance(f, ast.Name):
            return f.id
    return ""


SHIELDED_YIELDS = {"cancel_shielded_checkpoint"}
NONSUSPENDING = {"checkpoint_if_cancelled"}


def is_shield_with(w) -> bool:
    """`with CancelScope(shield=True)`: a literally shielded block"""
    if not isinstance(w, (ast.With, ast.AsyncWith)):
        return False
    for it in w.items:
        c = it.context_expr
        if isinstance(c, ast.Call) and call_name(c) in ("CancelScope", "move_on_after", "move_on_at", "fail_after", "fail_at"):
            for k in c.keywords:
                if k.arg == "shield" and isinstance(k.value, ast.Constant) and k.value.value is True:
                    return True
    return False


@dataclass(eq=False)
class Node:
    id: int
    kind: str
    node: ast.AST | None = None
    succ: list = field(default_factory=list)  # (label, Node)
    info: dict = field(default_factory=dict)

    def add(self, label, other):
        if (label, other) not in self.succ:
            self.succ.append((label, other))

    @property
    def line(self) -> int:
        return getattr(self.node, "lineno", 0) or 0

    def __repr__(self):
        src = ""
        if self.node is not None:
            try:
                src = ast.unparse(self.node).split("\n")[0][:60]
            except Exception:
                src = type(self.node).__name__
        return f"<{self.id}:{self.kind}@{self.line} {src}>"


class CFG:
    """Builds the graph of one function.

    opts:
      native_cancel   – awaits inside literally shielded blocks and
                        cancel_shielded_checkpoint() may raise a *native* CancelledError
      extra_raises    – callable(stmt) -> set of class names (raise summaries of callees)
      hier            – exception hierarchy
    """

    def __init__(self, fn: ast.AST, native_cancel: bool = False, extra_raises=None, hier: Hierarchy | None = None,
                 broad_handlers: bool = False):
        self.fn = fn
        self.native_cancel = native_cancel
        self.extra_raises = extra_raises
        self.hier = hier or DEFAULT_HIER
        self.broad_handlers = broad_handlers
        self.ids = itertools.count()
        self.nodes: list[Node] = []
        self.entry = self.new("entry")
        self.exit = self.new("exit")
        self.rexits: dict[str, Node] = {}
        self.by_ast: dict[int, list[Node]] = {}
        self._closure_text = None
        end = self.block(fn.body, self.entry, [])
        if end is not None:
            end.add("next", self.exit)

    # ------------------------------------------------------------------ helpers
    def new(self, kind, node=None, **info) -> Node:
        n = Node(next(self.ids), kind, node, info=info)
        self.nodes.append(n)
        if node is not None:
            self.by_ast.setdefault(id(node), []).append(n)
        return n

    def rexit(self, cls) -> Node:
        if cls not in self.rexits:
            self.rexits[cls] = self.new("raise_exit", None, cls=cls)
        return self.rexits[cls]

    def is_exit(self, n: Node) -> bool:
        return n is self.exit or n.kind == "raise_exit"

    def nodes_for(self, astnode) -> list[Node]:
        return self.by_ast.get(id(astnode), [])

    def _scope_can_be_cancelled(self, w) -> bool:
        """swallow edge only if the analysis sees how the scope can get cancelled"""
        for it in w.items:
            c = it.context_expr
            if not isinstance(c, ast.Call):
                continue
            nm = call_name(c)
            if nm in ("move_on_after", "move_on_at"):
                return True
            if nm == "CancelScope":
                if any(k.arg == "deadline" for k in c.keywords):
                    return True
                if it.optional_vars is not None and isinstance(it.optional_vars, ast.Name):
                    name = it.optional_vars.id
                    for x in ast.walk(self.fn):
                        if (
                            isinstance(x, ast.Call)
                            and isinstance(x.func, ast.Attribute)
                            and x.func.attr == "cancel"
                            and isinstance(x.func.value, ast.Name)
                            and x.func.value.id == name
                        ):
                            return True
        return False

    # ------------------------------------------------------------------ exception routing
    def route_exc(self, src: Node, classes, frames, label="exc"):
        for cls in sorted(classes):
            self._route_one(src, cls, list(frames), label)

    def _route_one(self, src, cls, frames, label):
        cur = src
        lab = f"{label}:{cls}"
        while frames:
            fr = frames.pop()
            if fr["kind"] == "try" and fr["phase"] == "body":
                caught = False
                for i, (h, hentry) in enumerate(fr["handlers"]):
                    for hn in handler_names(h):
                        if cls.startswith("_InlineReturn__") and hn != cls:
                            continue      # the jump of an inlined `return`: only its own synthetic handler receives it
                        if self.hier.is_sub(cls, hn):
                            cur.add(lab, hentry)
                            fr["arrived"][i].add(cls)
                            caught = True
                            break
                        if self.hier.is_sub(hn, cls):  # maybe caught: handler is narrower
                            cur.add(lab, hentry)
                            fr["arrived"][i].add(cls)
                    if caught:
                        break
                if caught:
                    return
                if fr["finalbody"]:
                    cur = self.inline_finally(fr, cur, lab, frames)
                    lab = f"exc:{cls}"
            elif fr["kind"] == "try" and fr["phase"] in ("handler", "else"):
                if fr["finalbody"]:
                    cur = self.inline_finally(fr, cur, lab, frames)
                    lab = f"exc:{cls}"
            elif fr["kind"] == "with":
                w = self.new("with_exit_exc", fr["node"], cls=cls)
                cur.add(lab, w)
                cur, lab = w, f"exc:{cls}"
                if fr.get("swallows") and self.hier.is_sub(cls, CANCEL):
                    w.add("swallow", fr["after"])
                    fr["after_used"] = True
        cur.add(lab, self.rexit(cls))

    def inline_finally(self, fr, cur, lab, outer_frames) -> Node:
        start = self.new("finally", fr["node"])
        cur.add(lab, start)
        end = self.block(fr["finalbody"], start, list(outer_frames))
        fin_end = self.new("finally_end", fr["node"])
        if end is not None:
            end.add("next", fin_end)
        return fin_end

    # ------------------------------------------------------------------ may-raise model
    def may_raise(self, s, frames) -> set:
        out = set()
        aw = awaits_in(s)
        shielded = any(fr["kind"] == "with" and fr.get("shield") for fr in frames)
        for a in aw:
            nm = call_name(a) if isinstance(a, ast.Await) else ""
            if nm in SHIELDED_YIELDS or shielded:
                if self.native_cancel:
                    out.add(CANCEL)
            else:
                out.add(CANCEL)
        risky = contains(s, (ast.Call, ast.Await, ast.Subscript, ast.Attribute))
        if risky:
            has_call = contains(s, (ast.Call, ast.Await))
            for fr in frames:
                if fr["kind"] == "try" and fr["phase"] == "body":
                    for h, _ in fr["handlers"]:
                        for hn in handler_names(h):
                            if hn.startswith("_InlineReturn__"):
                                continue     # synthetic jump target of an inlined helper: reached only by its own explicit raises
                            if hn in ("BaseException", "Exception"):
                                if self.broad_handlers and has_call:
                                    out.add("Exception")
                                continue
                            if hn == CANCEL:
                                # only awaits raise cancellation - and Future.exception()/result() of a cancelled future
                                if any(isinstance(x, ast.Call) and call_name(x) in ("exception", "result") for x in own_walk(s)) or \
                                        (isinstance(s, ast.Call) and call_name(s) in ("exception", "result")):
                                    out.add(CANCEL)
                                continue
                            if hn in ("KeyError", "IndexError", "LookupError") and not contains(s, (ast.Subscript, ast.Call)):
                                continue
                            if hn not in ("KeyError", "IndexError", "LookupError", "AttributeError") and not has_call:
                                continue
                            out.add(hn)
        if self.extra_raises is not None:
            out |= set(self.extra_raises(s))
        return out

    # ------------------------------------------------------------------ statements
    def block(self, stmts, cur, frames):
        for s in stmts:
            if cur is None:
                return None
            cur = self.stmt(s, cur, frames)
        return cur

    def simple(self, s, cur, frames, kind="stmt") -> Node:
        n = self.new(kind, s)
        cur.add("next", n)
        self.route_exc(n, self.may_raise(s, frames), frames)
        return n

    def cond(self, test, cur, frames):
        """returns (true_ends, false_ends): lists of dangling (node, label) edges"""
        if isinstance(test, ast.Call) and isinstance(test.func, ast.Name) and test.func.id == "bool" and len(test.args) == 1 and not test.keywords:
            test = test.args[0]        # `bool(a and b)` branches like `a and b`
        if isinstance(test, ast.BoolOp):
            if isinstance(test.op, ast.And):
                pend = [(cur, "next")]
                falses = []
                for v in test.values:
                    j = self.new("join")
                    for (n, l) in pend:
                        n.add(l, j)
                    t, f = self.cond(v, j, frames)
                    pend = t
                    falses += f
                return pend, falses
            else:
                pend = [(cur, "next")]
                trues = []
                for v in test.values:
                    j = self.new("join")
                    for (n, l) in pend:
                        n.add(l, j)
                    t, f = self.cond(v, j, frames)
                    pend = f
                    trues += t
                return trues, pend
        if isinstance(test, ast.UnaryOp) and isinstance(test.op, ast.Not):
            t, f = self.cond(test.operand, cur, frames)
            return f, t
        n = self.new("test", test)
        cur.add("next", n)
        self.route_exc(n, self.may_raise(test, frames), frames)
        return [(n, "true")], [(n, "false")]

    def stmt(self, s, cur, frames):
        if isinstance(s, ast.If):
            t, f = self.cond(s.test, cur, frames)
            tj = self.new("join")
            fj = self.new("join")
            for n, l in t:
                n.add(l, tj)
            for n, l in f:
                n.add(l, fj)
            te = self.block(s.body, tj, frames)
            fe = self.block(s.orelse, fj, frames)
            if te is None and fe is None:
                return None
            j = self.new("join")
            if te is not None:
                te.add("next", j)
            if fe is not None:
                fe.add("next", j)
            return j
        if isinstance(s, ast.Assert):
            t, f = self.cond(s.test, cur, frames)
            j = self.new("join")
            for n, l in t:
                n.add(l, j)
            # assertion failures are programming errors outside the properties' quantifiers
            return j
        if isinstance(s, ast.While):
            head = self.new("loop_head", s)
            cur.add("next", head)
            after = self.new("join")
            const_true = isinstance(s.test, ast.Constant) and bool(s.test.value)
            if const_true:
                t, f = [(head, "next")], []
            else:
                t, f = self.cond(s.test, head, frames)
            bj = self.new("join")
            for n, l in t:
                n.add(l, bj)
            fr = {"kind": "loop", "break": after, "continue": head, "used_break": False}
            be = self.block(s.body, bj, frames + [fr])
            if be is not None:
                be.add("back", head)
            if f:
                ej = self.new("join")
                for n, l in f:
                    n.add(l, ej)
                ee = self.block(s.orelse, ej, frames)
                if ee is not None:
                    ee.add("next", after)
            if not f and not fr["used_break"]:
                return None
            return after
        if isinstance(s, (ast.For, ast.AsyncFor)):
            it = self.new("for_iter", s)
            cur.add("next", it)
            classes = self.may_raise(s.iter, frames)
            if isinstance(s, ast.AsyncFor):
                it.info["async"] = True
                shielded = any(fr["kind"] == "with" and fr.get("shield") for fr in frames)
                if not shielded or self.native_cancel:
                    classes = classes | {CANCEL}
                # handler-driven: an async iteration step is a call
                classes |= self.may_raise(ast.Expr(ast.Call(func=ast.Name(id="anext", ctx=ast.Load()), args=[], keywords=[])), frames)
            self.route_exc(it, classes, frames)
            after = self.new("join")
            bj = self.new("join")
            it.add("iter", bj)
            rng = s.iter if (isinstance(s, ast.For) and isinstance(s.iter, ast.Call) and isinstance(s.iter.func, ast.Name) and s.iter.func.id == "range"
                             and len(s.iter.args) == 1 and not s.iter.keywords and isinstance(s.iter.args[0], (ast.Name, ast.Attribute))) else None
            back_head = it
            if rng is not None:
                # `for _ in range(n)`: the first arrival is kept apart from the later ones (a separate head node for the back edges and
                # `continue`), so that the exploration can drop the zero-iteration exit when `n > 0` is known on entry
                it.info["first_range"] = ast.unparse(rng.args[0])
                back_head = self.new("for_iter", s)
                back_head.add("iter", bj)
            fr = {"kind": "loop", "break": after, "continue": back_head, "used_break": False}
            be = self.block(s.body, bj, frames + [fr])
            if be is not None:
                be.add("back", back_head)
            ej = self.new("join")
            it.add("done", ej)
            if back_head is not it:
                back_head.add("done", ej)
            ee = self.block(s.orelse, ej, frames)
            if ee is not None:
                ee.add("next", after)
            return after
        if isinstance(s, (ast.With, ast.AsyncWith)):
            enter = self.new("with_enter", s)
            cur.add("next", enter)
            probe = ast.Module(body=[ast.Expr(i.context_expr) for i in s.items], type_ignores=[])
            classes = self.may_raise(probe, frames)
            if isinstance(s, ast.AsyncWith):
                enter.info["async"] = True
                classes = classes | {CANCEL}
            self.route_exc(enter, classes, frames)
            after = self.new("join")
            fr = {
                "kind": "with",
                "node": s,
                "after": after,
                "swallows": self._scope_can_be_cancelled(s),
                "shield": is_shield_with(s),
                "after_used": False,
            }
            be = self.block(s.body, enter, frames + [fr])
            if be is not None:
                x = self.new("with_exit", s)
                be.add("next", x)
                x.add("next", after)
                if isinstance(s, ast.AsyncWith):
                    x.info["async"] = True
            elif not fr["after_used"]:
                return None
            return after
        if isinstance(s, (ast.Try, getattr(ast, "TryStar", ast.Try))):
            fr = {"kind": "try", "phase": "body", "node": s, "finalbody": s.finalbody, "handlers": [], "arrived": []}
            for h in s.handlers:
                he = self.new("except", h)
                fr["handlers"].append((h, he))
                fr["arrived"].append(set())
            after = self.new("join")
            outs = []
            be = self.block(s.body, cur, frames + [fr])
            fr2 = dict(fr)
            fr2["phase"] = "else"
            if be is not None:
                be = self.block(s.orelse, be, frames + [fr2])
            if be is not None:
                outs.append(be)
            for i, (h, he) in enumerate(fr["handlers"]):
                frh = dict(fr)
                frh["phase"] = "handler"
                frh["caught"] = sorted(fr["arrived"][i]) or handler_names(h)
                frh["as"] = h.name
                hend = self.block(h.body, he, frames + [frh])
                if hend is not None:
                    outs.append(hend)
            if not outs:
                return None
            if s.finalbody:
                fin = self.new("finally", s)
                for o in outs:
                    o.add("next", fin)
                fe = self.block(s.finalbody, fin, frames)
                if fe is None:
                    return None
                fe.add("next", after)
            else:
                for o in outs:
                    o.add("next", after)
            return after
        if isinstance(s, ast.Return):
            n = self.simple(s, cur, frames, "return")
            self.unwind(n, frames, self.exit, "return")
            return None
        if isinstance(s, ast.Raise):
            n = self.new("raise", s)
            cur.add("next", n)
            reraise = s.exc is None
            if not reraise and isinstance(s.exc, ast.Name):
                for fr in reversed(frames):
                    if fr["kind"] == "try" and fr["phase"] == "handler":
                        if fr.get("as") == s.exc.id:
                            reraise = True
                        break
            if reraise:
                classes = set()
                for fr in reversed(frames):
                    if fr["kind"] == "try" and fr["phase"] == "handler":
                        classes = set(fr["caught"])
                        break
                classes = classes or {"BaseException"}
                self.route_exc(n, classes, frames, "reraise")
            else:
                self.route_exc(n, {exc_name(s.exc)}, frames, "raise")
            return None
        if isinstance(s, ast.Break):
            n = self.new("break", s)
            cur.add("next", n)
            tgt = None
            for fr in reversed(frames):
                if fr["kind"] == "loop":
                    fr["used_break"] = True
                    tgt = fr["break"]
                    break
            self.unwind(n, frames, tgt, "break", stop_at_loop=True)
            return None
        if isinstance(s, ast.Continue):
            n = self.new("continue", s)
            cur.add("next", n)
            tgt = None
            for fr in reversed(frames):
                if fr["kind"] == "loop":
                    tgt = fr["continue"]
                    break
            self.unwind(n, frames, tgt, "continue", stop_at_loop=True)
            return None
        if isinstance(s, (ast.FunctionDef, ast.AsyncFunctionDef, ast.ClassDef)):
            n = self.new("def", s)
            cur.add("next", n)
            return n
        if isinstance(s, ast.Match):
            m = self.new("match", s)
            cur.add("next", m)
            after = self.new("join")
            anyout = False
            exhaustive = False
            for c in s.cases:
                cj = self.new("case", c)
                m.add("case", cj)
                ce = self.block(c.body, cj, frames)
                if ce is not None:
                    ce.add("next", after)
                    anyout = True
                if isinstance(c.pattern, ast.MatchAs) and c.pattern.pattern is None and c.guard is None:
                    exhaustive = True
            if not exhaustive:
                m.add("nomatch", after)
                anyout = True
            return after if anyout else None
        return self.simple(s, cur, frames)

    def unwind(self, n, frames, target, label, stop_at_loop=False):
        """run finally blocks / with exits between n and target"""
        cur = n
        lab = label
        fs = list(frames)
        while fs:
            fr = fs.pop()
            if stop_at_loop and fr["kind"] == "loop":
                break
            if fr["kind"] == "try" and fr["finalbody"] and fr["phase"] in ("body", "handler", "else"):
                cur = self.inline_finally(fr, cur, lab, fs)
                lab = "next"
            elif fr["kind"] == "with":
                w = self.new("with_exit", fr["node"])
                if isinstance(fr["node"], ast.AsyncWith):
                    w.info["async"] = True
                cur.add(lab, w)
                cur = w
                lab = "next"
        cur.add(lab, target)

    def dump(self) -> str:
        return "\n".join(f"{n} -> {[(l, m.id) for l, m in n.succ]}" for n in self.nodes)
