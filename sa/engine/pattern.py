"""Structural AST patterns with metavariables.

    P("$S._owner_task = $T")      statement pattern
    P("$F.set_result($*A)")        expression pattern (`$*A` = rest of the argument list)
    $_                             wildcard

A metavariable binds a sub-tree; a repeated metavariable must bind structurally equal
sub-trees.  `cast(T, x)` wrappers in the *subject* are looked through, AnnAssign with a
value is matched like Assign.  Matching is purely structural: renaming a local, changing
formatting or comments never changes a match.
"""
from __future__ import annotations

import ast
import copy
import re
from functools import lru_cache

from .source import own_walk, clone

_MV = re.compile(r"\$(\*?)([A-Za-z_][A-Za-z_0-9]*)")
IGNORED_FIELDS = {"ctx", "lineno", "col_offset", "end_lineno", "end_col_offset", "type_comment", "kind", "type_params"}


def dump(node) -> str:
    if isinstance(node, ast.AST):
        return ast.dump(_strip_ctx(node), annotate_fields=False, include_attributes=False)
    return repr(node)


def _strip_ctx(node):
    n = clone(node)
    for x in ast.walk(n):
        if hasattr(x, "ctx"):
            x.ctx = ast.Load()
    return n


def strip_cast(e):
    """look through cast(T, x) / typing.cast(T, x)"""
    while (
        isinstance(e, ast.Call)
        and len(e.args) == 2
        and not e.keywords
        and (
            (isinstance(e.func, ast.Name) and e.func.id == "cast")
            or (isinstance(e.func, ast.Attribute) and e.func.attr == "cast")
        )
    ):
        e = e.args[1]
    return e


class Pattern:
    def __init__(self, text: str):
        self.text = text
        src = _MV.sub(lambda m: ("MVS_" if m.group(1) else "MV_") + m.group(2), text)
        mod = ast.parse(src)
        if len(mod.body) != 1:
            raise ValueError(f"pattern must be one statement/expression: {text!r}")
        st = mod.body[0]
        self.is_expr = isinstance(st, ast.Expr)
        self.node = st.value if self.is_expr else st

    def match(self, node, env: dict | None = None) -> dict | None:
        env = dict(env or {})
        if self.is_expr and isinstance(node, ast.Expr):
            node = node.value
        return env if _m(self.node, node, env) else None

    def __repr__(self):
        return f"P({self.text!r})"


@lru_cache(maxsize=None)
def P(text: str) -> Pattern:
    return Pattern(text)


def _bind(env, name, node) -> bool:
    if name == "_":
        return True
    if name in env:
        return dump(env[name]) == dump(node)
    env[name] = node
    return True


def _m(p, n, env) -> bool:
    # metavariable
    if isinstance(p, ast.Name) and p.id.startswith("MV_"):
        if not isinstance(n, ast.AST):
            return False
        if isinstance(n, ast.expr):
            n = strip_cast(n)
        return _bind(env, p.id[3:], n)
    if isinstance(n, ast.expr):
        n = strip_cast(n)
    if isinstance(n, ast.AnnAssign) and isinstance(p, ast.Assign) and n.value is not None and len(p.targets) == 1:
        return _m(p.targets[0], n.target, env) and _m(p.value, n.value, env)
    if type(p) is not type(n):
        return False
    if isinstance(p, ast.Call):
        if not _m(p.func, n.func, env):
            return False
        return _margs(p.args, n.args, env) and _mkw(p, n, env)
    if isinstance(p, ast.Attribute):
        if p.attr.startswith("MV_"):
            if not _bind(env, p.attr[3:], ast.Name(id=n.attr, ctx=ast.Load())):
                return False
        elif p.attr != n.attr:
            return False
        return _m(p.value, n.value, env)
    for f in p._fields:
        if f in IGNORED_FIELDS:
            continue
        pv, nv = getattr(p, f, None), getattr(n, f, None)
        if isinstance(pv, list):
            if not isinstance(nv, list):
                return False
            if not _margs(pv, nv, env):
                return False
        elif isinstance(pv, ast.AST):
            if not isinstance(nv, ast.AST) or not _m(pv, nv, env):
                return False
        else:
            if pv != nv:
                return False
    return True


def _is_rest(p) -> bool:
    if isinstance(p, ast.Name) and p.id.startswith("MVS_"):
        return True
    if isinstance(p, ast.Starred) and isinstance(p.value, ast.Name) and p.value.id.startswith("MVS_"):
        return True
    if isinstance(p, ast.Expr) and isinstance(p.value, ast.Name) and p.value.id.startswith("MVS_"):
        return True
    return False


def _margs(ps, ns, env) -> bool:
    i = 0
    for k, p in enumerate(ps):
        if _is_rest(p):
            # rest must be the last pattern element
            return True
        if i >= len(ns):
            return False
        if not _m(p, ns[i], env):
            return False
        i += 1
    return i == len(ns)


def _mkw(p: ast.Call, n: ast.Call, env) -> bool:
    has_rest = any(_is_rest(a) for a in p.args)
    nk = {k.arg: k.value for k in n.keywords}
    for k in p.keywords:
        if k.arg not in nk or not _m(k.value, nk[k.arg], env):
            return False
    if not has_rest and len(nk) != len(p.keywords):
        return False
    return True


def find_all(pat: str | Pattern, root: ast.AST, own: bool = True, env: dict | None = None):
    """all (node, bindings) below root (not descending into nested defs when own)"""
    pat = P(pat) if isinstance(pat, str) else pat
    it = own_walk(root) if own else ast.walk(root)
    out = []
    import itertools as _it
    first = [root] if own else []
    for n in _it.chain(first, it):
        if pat.is_expr:
            if not isinstance(n, ast.expr):
                continue
            if strip_cast(n) is not n:
                continue   # `cast(T, x)`: x itself is visited too - report the construct once
        else:
            if not isinstance(n, ast.stmt):
                continue
        b = pat.match(n, env)
        if b is not None:
            out.append((n, b))
    out.sort(key=lambda t: (getattr(t[0], "lineno", 0), getattr(t[0], "col_offset", 0)))
    return out


def has(pat, root, own=True, env=None) -> bool:
    return bool(find_all(pat, root, own, env))


def inst(template: str, env: dict) -> str:
    """instantiate a fact/text template with bound metavariables"""
    def rep(m):
        v = env[m.group(2)]
        return ast.unparse(v) if isinstance(v, ast.AST) else str(v)
    return _MV.sub(rep, template)


def u(node) -> str:
    return ast.unparse(node) if isinstance(node, ast.AST) else str(node)
