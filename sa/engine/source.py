"""Source model: parse every module of <root>/src/anyio, index classes / functions by
qualified name (nested functions and property setters included), give every AST node a
parent link.  Nothing from the repository is imported or executed."""
from __future__ import annotations

import ast
import hashlib
import os
from dataclasses import dataclass, field

FuncT = (ast.FunctionDef, ast.AsyncFunctionDef)


class AnalysisError(Exception):
    """The checker could not do its job (anchor missing, parse error, floor not met)."""


@dataclass(eq=False)
class Func:
    qual: str                 # e.g. "TaskGroup._spawn.task_done", "CapacityLimiter.total_tokens@setter"
    module: str               # path relative to src/anyio, e.g. "_backends/_asyncio.py"
    node: ast.AST
    cls: str | None           # innermost enclosing class name
    parent: "Func | None" = None

    @property
    def is_async(self) -> bool:
        return isinstance(self.node, ast.AsyncFunctionDef)

    @property
    def where(self) -> str:
        return f"src/anyio/{self.module}:{self.node.lineno} {self.qual}"

    def __repr__(self) -> str:
        return f"<Func {self.where}>"


def _decorator_suffix(fn: ast.AST) -> str:
    for d in fn.decorator_list:
        if isinstance(d, ast.Attribute) and d.attr in ("setter", "deleter"):
            return "@" + d.attr
    return ""


class Repo:
    def __init__(self, root: str = "/repo"):
        self.root = root
        self.pkg = os.path.join(root, "src", "anyio")
        if not os.path.isdir(self.pkg):
            raise AnalysisError(f"package directory not found: {self.pkg}")
        self.modules: dict[str, ast.Module] = {}
        self.sources: dict[str, str] = {}
        self.funcs: dict[str, list[Func]] = {}
        self.classes: dict[str, list[tuple[str, ast.ClassDef]]] = {}
        self.all_funcs: list[Func] = []
        self._by_node: dict[int, Func] = {}
        h = hashlib.sha256()
        for dirpath, dirnames, filenames in os.walk(self.pkg):
            dirnames.sort()
            for fnm in sorted(filenames):
                if not fnm.endswith(".py"):
                    continue
                p = os.path.join(dirpath, fnm)
                rel = os.path.relpath(p, self.pkg)
                with open(p, encoding="utf-8") as f:
                    src = f.read()
                h.update(rel.encode() + b"\0" + src.encode())
                try:
                    tree = ast.parse(src, filename=p)
                except SyntaxError as e:  # fail closed
                    raise AnalysisError(f"cannot parse {p}: {e}") from e
                self.sources[rel] = src
                self.modules[rel] = tree
                self._index(rel, tree)
        self.digest = h.hexdigest()[:16]

    # ------------------------------------------------------------------ indexing
    def _index(self, rel: str, tree: ast.Module) -> None:
        def walk(node, quals, cls, parent_func):
            for child in ast.iter_child_nodes(node):
                child._parent = node  # type: ignore[attr-defined]
                if isinstance(child, ast.ClassDef):
                    self.classes.setdefault(child.name, []).append((rel, child))
                    walk(child, quals + [child.name], child.name, parent_func)
                elif isinstance(child, FuncT):
                    q = ".".join(quals + [child.name]) + _decorator_suffix(child)
                    f = Func(q, rel, child, cls, parent_func)
                    self.funcs.setdefault(q, []).append(f)
                    self.all_funcs.append(f)
                    self._by_node[id(child)] = f
                    walk(child, quals + [child.name], cls, f)
                else:
                    walk(child, quals, cls, parent_func)
        tree._parent = None  # type: ignore[attr-defined]
        walk(tree, [], None, None)

    def reindex(self) -> None:
        """rebuild the function / class index after a canonicalisation renamed definitions in the parsed trees"""
        self.funcs, self.classes, self.all_funcs, self._by_node = {}, {}, [], {}
        for rel, tree in self.modules.items():
            self._index(rel, tree)

    # ------------------------------------------------------------------ lookup
    def func(self, qual: str, hint: str | None = None) -> Func:
        """Resolve an anchor.  `hint` is a module path suffix; without a hint the trio
        backend is skipped (no property is decided on it)."""
        cands = self.funcs.get(qual, [])
        if hint:
            c2 = [f for f in cands if f.module.endswith(hint)]
            if c2:
                cands = c2
        if len(cands) > 1:
            c2 = [f for f in cands if not f.module.endswith("_trio.py")]
            if c2:
                cands = c2
        if len(cands) > 1:
            # same qualname under version guards in one module -> ambiguous
            raise AnalysisError(f"anchor {qual!r} is ambiguous: " + ", ".join(f.where for f in cands))
        if not cands:
            inh = self._inherited(qual, hint)
            if inh is not None:
                return inh
            raise AnalysisError(f"anchor {qual!r} not found (hint={hint})")
        return cands[0]

    def _inherited(self, qual: str, hint: str | None, depth: int = 0):
        """`Cls.meth` where Cls no longer defines meth itself but a base class of the same module does (an override that only
        repeated the base implementation was removed): the method that runs is the base's"""
        if qual.count(".") != 1 or depth > 3:
            return None
        cn, mn = qual.split(".")
        try:
            rel, cd = self.cls(cn, hint)
        except AnalysisError:
            return None
        for b in cd.bases:
            bn = ast.unparse(b).split("[")[0].split(".")[-1]
            cands = [f for f in self.funcs.get(f"{bn}.{mn}", []) if f.module == rel]
            if len(cands) == 1:
                return cands[0]
            r = self._inherited(f"{bn}.{mn}", rel, depth + 1) if any(c_[0] == rel for c_ in self.classes.get(bn, [])) else None
            if r is not None:
                return r
        return None

    def has_func(self, qual: str, hint: str | None = None) -> bool:
        try:
            self.func(qual, hint)
            return True
        except AnalysisError:
            return False

    def cls(self, name: str, hint: str | None = None) -> tuple[str, ast.ClassDef]:
        cands = self.classes.get(name, [])
        if hint:
            c2 = [c for c in cands if c[0].endswith(hint)]
            if c2:
                cands = c2
        if len(cands) > 1:
            c2 = [c for c in cands if not c[0].endswith("_trio.py")]
            if c2:
                cands = c2
        if len(cands) != 1:
            raise AnalysisError(f"class anchor {name!r}: {len(cands)} candidates (hint={hint})")
        return cands[0]

    def methods(self, clsname: str, hint: str | None = None) -> dict[str, Func]:
        rel, c = self.cls(clsname, hint)
        out = {}
        for f in self.all_funcs:
            if f.module == rel and f.cls == clsname and f.parent is None and f.qual.startswith(clsname + "."):
                out[f.qual[len(clsname) + 1:]] = f
        return out

    def func_of(self, node: ast.AST) -> Func | None:
        """innermost function containing node"""
        cur = node
        while cur is not None:
            if isinstance(cur, FuncT) and id(cur) in self._by_node:
                return self._by_node[id(cur)]
            cur = getattr(cur, "_parent", None)
        return None

    def funcs_in(self, module_suffix: str) -> list[Func]:
        return [f for f in self.all_funcs if f.module.endswith(module_suffix)]

    def non_trio_modules(self):
        return {k: v for k, v in self.modules.items() if not k.endswith("_trio.py")}


def own_walk(fn: ast.AST):
    """ast.walk that does not descend into nested function / class definitions / lambdas"""
    stack = list(ast.iter_child_nodes(fn))
    while stack:
        n = stack.pop()
        yield n
        if isinstance(n, (ast.FunctionDef, ast.AsyncFunctionDef, ast.ClassDef, ast.Lambda)):
            continue
        stack.extend(ast.iter_child_nodes(n))


def stmt_of(node: ast.AST) -> ast.AST:
    cur = node
    while cur is not None and not isinstance(cur, ast.stmt):
        cur = getattr(cur, "_parent", None)
    return cur


def norm(node: ast.AST) -> str:
    """normalised one-line text of a construct (used in keys and reports)"""
    try:
        s = ast.unparse(node)
    except Exception:  # pragma: no cover
        s = type(node).__name__
    return " ".join(s.split("\n")[0].split())[:160]


def clone(node):
    """deep copy of an AST sub-tree that does not follow the `_parent` back links"""
    if isinstance(node, list):
        return [clone(x) for x in node]
    if not isinstance(node, ast.AST):
        return node
    new = type(node).__new__(type(node))
    for f in node._fields:
        if hasattr(node, f):
            setattr(new, f, clone(getattr(node, f)))
    for a in node._attributes:
        if hasattr(node, a):
            setattr(new, a, getattr(node, a))
    return new
