"""Path-sensitive must-fact analysis and path automata over a CFG (DESIGN §2.3).

State = (cfg node, frozenset of facts, automaton state).  Facts are (canonical atom text,
polarity).  The exploration is exhaustive over the finite abstract state space."""
from __future__ import annotations

import ast
import copy
from dataclasses import dataclass, field
from functools import lru_cache

from .cfg import CFG, Node, NONSUSPENDING, call_name, contains
from .pattern import strip_cast
from .source import own_walk, clone, AnalysisError

MUTATORS = {
    "append", "appendleft", "pop", "popleft", "popitem", "remove", "discard", "add", "clear", "extend",
    "set", "cancel", "move_to_end", "set_result", "set_exception", "update", "insert", "setdefault",
    "write", "write_eof", "close", "uncancel",
}

EXC = "@exc"
MONOTONE_TRUE = ("._cancel_called", ".cancel_called")


# ----------------------------------------------------------------------------- aliases
def local_aliases(fn: ast.AST) -> dict[str, ast.AST]:
    """single-assignment locals bound to `current_task()` or to an attribute chain (`waiters = self._waiters`, also transitively
    and in the chained form `self._x = x = <expr>`).  The attribute may be rebound by the function itself only *after* the last
    use of the alias (`host = self._host_task ... finally: self._host_task = None`); `del alias` does not count as a rebinding."""
    counts: dict[str, int] = {}
    rhs: dict[str, ast.AST | None] = {}
    defstmt: dict[str, ast.AST] = {}
    attr_stores: dict[str, list] = {}          # attr -> [(lineno, statement)]
    last_load: dict[str, int] = {}
    args = fn.args
    params = {a.arg for a in args.posonlyargs + args.args + args.kwonlyargs}
    if args.vararg:
        params.add(args.vararg.arg)
    if args.kwarg:
        params.add(args.kwarg.arg)
    for n in own_walk(fn):
        tgts = []
        val = None
        if isinstance(n, ast.Name) and isinstance(n.ctx, ast.Load):
            last_load[n.id] = max(last_load.get(n.id, 0), getattr(n, "lineno", 0))
        if isinstance(n, ast.Assign):
            tgts, val = n.targets, n.value
        elif isinstance(n, ast.AnnAssign) and n.value is not None:
            tgts, val = [n.target], n.value
        elif isinstance(n, ast.AugAssign):
            tgts = [n.target]
        elif isinstance(n, (ast.For, ast.AsyncFor)):
            tgts = [n.target]
        elif isinstance(n, ast.NamedExpr):
            tgts = [n.target]
        elif isinstance(n, (ast.With, ast.AsyncWith)):
            tgts = [i.optional_vars for i in n.items if i.optional_vars is not None]
        elif isinstance(n, ast.ExceptHandler) and n.name:
            counts[n.name] = counts.get(n.name, 0) + 2
        elif isinstance(n, ast.Delete):
            for t in n.targets:
                for x in ast.walk(t):
                    if isinstance(x, ast.Attribute) and isinstance(x.ctx, ast.Del):
                        attr_stores.setdefault(x.attr, []).append((getattr(n, "lineno", 0), n))
            continue
        for t in tgts:
            for x in ast.walk(t):
                if isinstance(x, ast.Name) and isinstance(x.ctx, (ast.Store, ast.Del)):
                    counts[x.id] = counts.get(x.id, 0) + 1
                    v = None
                    if isinstance(t, ast.Name):
                        if len(tgts) == 1:
                            v = val
                        elif isinstance(n, ast.Assign):
                            # `self._x = x = <expr>`: afterwards x is the attribute
                            others = [o for o in tgts if o is not t]
                            if len(others) == 1 and isinstance(others[0], ast.Attribute):
                                v = others[0]
                    rhs[x.id] = v
                    defstmt[x.id] = n
                elif isinstance(x, ast.Attribute) and isinstance(x.ctx, (ast.Store, ast.Del)):
                    attr_stores.setdefault(x.attr, []).append((getattr(n, "lineno", 0), n))

    def in_loop(st):
        cur = getattr(st, "_parent", None)
        while cur is not None and cur is not fn:
            if isinstance(cur, (ast.While, ast.For, ast.AsyncFor)):
                return True
            cur = getattr(cur, "_parent", None)
        return False

    def attrs_stable(k, chain_attrs):
        if chain_attrs & VOLATILE_ATTRS:
            return False        # a field that a transport callback rebinds: any call in between may have replaced it (see the last clause)
        for a_ in chain_attrs:
            for ln, st in attr_stores.get(a_, []):
                if st is defstmt.get(k):
                    continue
                if ln > last_load.get(k, 0) and not in_loop(defstmt.get(k)):
                    continue
                # a store on an earlier line than the definition runs before it or not at all (no enclosing loop to come round again)
                if ln < getattr(defstmt.get(k), "lineno", 0) and getattr(st, "end_lineno", ln) < getattr(defstmt.get(k), "lineno", 0) \
                        and not in_loop(defstmt.get(k)):
                    continue
                return False
        return True

    out = {}
    for k, c in counts.items():
        v = rhs.get(k)
        if c != 1 or v is None or k in params:
            continue
        v = strip_cast(v)
        if isinstance(v, ast.Call) and call_name(v) in ("current_task", "get_current_task", "get_async_backend") and not v.args and not v.keywords \
                and (call_name(v) != "get_async_backend" or isinstance(v.func, ast.Name)):
            out[k] = v
        elif isinstance(v, ast.Attribute) and not contains(v, (ast.Call, ast.Subscript)):
            chain_attrs = {x.attr for x in ast.walk(v) if isinstance(x, ast.Attribute)}
            base = v
            while isinstance(base, ast.Attribute):
                base = base.value
            if isinstance(base, ast.Name) and counts.get(base.id, 0) == 0 and attrs_stable(k, chain_attrs):
                out[k] = _load(v)
    # aliases of aliases (`state = self._state; receivers = state.waiting_receivers`): resolve to the full chain
    changed = True
    rounds = 0
    while changed and rounds < 5:
        changed = False
        rounds += 1
        for k, c in counts.items():
            if k in out or c != 1 or k in params:
                continue
            v = rhs.get(k)
            if v is None:
                continue
            v = strip_cast(v)
            if isinstance(v, (ast.Attribute, ast.Name)) and not contains(v, (ast.Call, ast.Subscript)):
                chain_attrs = {x.attr for x in ast.walk(v) if isinstance(x, ast.Attribute)}
                base = v
                while isinstance(base, ast.Attribute):
                    base = base.value
                if isinstance(base, ast.Name) and base.id in out and attrs_stable(k, chain_attrs) and (
                        isinstance(out[base.id], ast.Attribute) or (isinstance(out[base.id], ast.Call) and call_name(out[base.id]) == "get_async_backend")):
                    out[k] = subst(_load(v), {base.id: out[base.id]})
                    changed = True
    # a temporary for an attribute of a variable that the function itself rebinds (`parent = scope._parent_scope ... scope = parent`,
    # the hand-written form of `scope = scope._parent_scope`): t stands for `b.chain` at every use provided that (i) every use of t
    # follows its single definition inside the same block (so the definition dominates it, also per loop iteration), (ii) no store
    # to b inside the enclosing loop lies between the definition and a use of t - the store `b = t` itself reads t before it writes b -
    # and (iii) the attributes of the chain are not written by the function
    for k, c in counts.items():
        v = rhs.get(k)
        if k in out or c != 1 or v is None or k in params:
            continue
        v = strip_cast(v)
        if not (isinstance(v, ast.Attribute) and not contains(v, (ast.Call, ast.Subscript))):
            continue
        base = v
        while isinstance(base, ast.Attribute):
            base = base.value
        if not (isinstance(base, ast.Name) and counts.get(base.id, 0) > 0 and base.id != k and base.id not in out):
            continue
        if any(a_ in attr_stores for a_ in {x.attr for x in ast.walk(v) if isinstance(x, ast.Attribute)}):
            continue
        d = defstmt[k]
        if not isinstance(d, (ast.Assign, ast.AnnAssign)):
            continue
        holder = getattr(d, "_parent", None)
        blk = next((getattr(holder, fld) for fld in ("body", "orelse", "finalbody") if isinstance(getattr(holder, fld, None), list) and d in getattr(holder, fld)), None)
        if blk is None:
            continue
        after = blk[blk.index(d) + 1:]
        inside = {id(x) for s_ in after for x in ast.walk(s_)}
        uses = [x for x in own_walk(fn) if isinstance(x, ast.Name) and x.id == k and isinstance(x.ctx, ast.Load)]
        if not uses or any(id(x) not in inside for x in uses):
            continue
        pos = lambda n_: (getattr(n_, "lineno", 0), getattr(n_, "col_offset", 0))
        okk = True
        for s_ in after:
            for x in ast.walk(s_):
                if isinstance(x, ast.Name) and x.id == base.id and isinstance(x.ctx, (ast.Store, ast.Del)):
                    st_ = x
                    while st_ is not None and not isinstance(st_, ast.stmt):
                        st_ = getattr(st_, "_parent", None)
                    rhs_ids = {id(y) for y in ast.walk(st_.value)} if isinstance(st_, (ast.Assign, ast.AnnAssign)) and st_.value is not None else set()
                    # a use of t positioned after this store (other than in the store's own right-hand side) would read a stale value
                    if any(pos(u) > pos(st_) and id(u) not in rhs_ids for u in uses):
                        okk = False
        # nested function bodies and loops *inside* `after` that re-run earlier statements: a store to b in a nested loop before a use
        loops_in_after = [x for s_ in after for x in ast.walk(s_) if isinstance(x, (ast.While, ast.For, ast.AsyncFor))]
        for lp in loops_in_after:
            ids = {id(y) for y in ast.walk(lp)}
            if any(isinstance(y, ast.Name) and y.id == base.id and isinstance(y.ctx, (ast.Store, ast.Del)) for y in ast.walk(lp)) and any(id(u) in ids for u in uses):
                okk = False
        if okk:
            out[k] = _load(v)
    # a short-lived alias of a field the function itself rewrites elsewhere (`fut = self._fut ... await fut ... self._fut = None`, in a
    # loop or not): t stands for the field at every use provided that every use follows the definition inside the same block and that,
    # positioned between the definition and the last use, there is neither a store to an attribute of the chain, nor a call that
    # could make one, nor a suspension point other than an `await` of t itself (control cannot reach a use without passing the
    # definition again, so stores elsewhere in the function are irrelevant)
    for k, c in counts.items():
        v = rhs.get(k)
        if k in out or c != 1 or v is None or k in params:
            continue
        v = strip_cast(v)
        if not (isinstance(v, ast.Attribute) and not contains(v, (ast.Call, ast.Subscript))):
            continue
        base = v
        while isinstance(base, ast.Attribute):
            base = base.value
        if not (isinstance(base, ast.Name) and counts.get(base.id, 0) == 0):
            continue
        d = defstmt[k]
        if not isinstance(d, (ast.Assign, ast.AnnAssign)):
            continue
        holder = getattr(d, "_parent", None)
        blk = next((getattr(holder, fld) for fld in ("body", "orelse", "finalbody") if isinstance(getattr(holder, fld, None), list) and d in getattr(holder, fld)), None)
        if blk is None:
            continue
        after = blk[blk.index(d) + 1:]
        inside = {id(x) for s_ in after for x in ast.walk(s_)}
        uses = [x for x in own_walk(fn) if isinstance(x, ast.Name) and x.id == k and isinstance(x.ctx, ast.Load)]
        if not uses or any(id(x) not in inside for x in uses):
            continue
        if sum(1 for x in ast.walk(fn) if isinstance(x, ast.Name) and x.id == k) != len(uses) + 1:
            continue        # also used in a nested function
        pos = lambda n_: (getattr(n_, "lineno", 0), getattr(n_, "col_offset", 0))
        last = max(pos(u_) for u_ in uses)
        use_ids = {id(u_) for u_ in uses}
        chain_attrs = {x.attr for x in ast.walk(v) if isinstance(x, ast.Attribute)}
        okk = True
        for s_ in after:
            for x in ast.walk(s_):
                if pos(x) >= last or not hasattr(x, "lineno"):
                    continue
                if isinstance(x, ast.Attribute) and isinstance(x.ctx, (ast.Store, ast.Del)) and x.attr in chain_attrs:
                    par_ = getattr(x, "_parent", None)
                    # (the target of an assignment is stored after its right-hand side - where the use sits - was evaluated)
                    if not (isinstance(par_, (ast.Assign, ast.AugAssign, ast.AnnAssign)) and getattr(par_, "value", None) is not None
                            and any(id(y) in use_ids for y in ast.walk(par_.value))):
                        okk = False
                elif isinstance(x, (ast.Yield, ast.YieldFrom, ast.AsyncFor, ast.AsyncWith)):
                    okk = False
                elif isinstance(x, ast.Await) and id(x.value) not in use_ids:
                    okk = False
                elif isinstance(x, ast.Call) and not (isinstance(x.func, ast.Name) and (x.func.id in ("len", "isinstance", "bool", "id", "type", "cast") or x.func.id[:1].isupper())):
                    okk = False
                elif isinstance(x, (ast.While, ast.For)) and any(id(y) in use_ids for y in ast.walk(x)):
                    okk = False     # (a loop inside the region re-runs statements positioned after a use)
        if okk:
            out[k] = _load(v)
    return out


def _load(e):
    """copy of an expression with every context set to Load (an assignment target reused as a value)"""
    e = clone(e)
    for x in ast.walk(e):
        if hasattr(x, "ctx"):
            x.ctx = ast.Load()
    return e


class _Subst(ast.NodeTransformer):
    def __init__(self, aliases):
        self.aliases = aliases

    def visit_Name(self, n):
        if isinstance(n.ctx, ast.Load) and n.id in self.aliases:
            return clone(self.aliases[n.id])
        return n

    def visit_Call(self, n):
        self.generic_visit(n)
        return strip_cast(n)

    def visit_NamedExpr(self, n):
        # the value of a walrus expression is its target afterwards
        return ast.Name(id=n.target.id, ctx=ast.Load())


def subst(e: ast.AST, aliases) -> ast.AST:
    return _Subst(aliases).visit(clone(e))


# ----------------------------------------------------------------------------- atoms
def atom(e: ast.AST, aliases=None) -> tuple[str, bool]:
    """canonical (key, polarity) of an atomic test"""
    e = subst(e, aliases or {})
    pol = True
    while True:
        if isinstance(e, ast.UnaryOp) and isinstance(e.op, ast.Not):
            e = e.operand
            pol = not pol
        elif isinstance(e, ast.Call) and isinstance(e.func, ast.Name) and e.func.id == "bool" and len(e.args) == 1 and not e.keywords:
            e = e.args[0]            # `bool(x)` is the truth value of x
        else:
            break
    if isinstance(e, ast.Compare) and len(e.ops) == 1:
        l, op, r = e.left, e.ops[0], e.comparators[0]
        # emptiness tests written with len(): `len(x) == 0` is `not x`, `len(x) > 0` / `!= 0` / `>= 1` is `x`
        t = _len_truth(l, op, r)
        if t is None:
            t = _int_truth(l, op, r)
        if t is not None:
            return (ast.unparse(t[0]), pol if t[1] else not pol)
        # integer thresholds next to zero: `x < 1` is `x <= 0`, `x >= 1` is `x > 0` (integers; used for counts validated with `n < 1`)
        if isinstance(r, ast.Constant) and r.value == 1 and not isinstance(r.value, bool) and isinstance(l, (ast.Name, ast.Attribute)) \
                and isinstance(op, (ast.Lt, ast.GtE)) and (ast.unparse(l).split(".")[-1] in INT_NAMES):
            return (f"0 < {ast.unparse(l)}", (not pol) if isinstance(op, ast.Lt) else pol)
        L, R = ast.unparse(l), ast.unparse(r)
        if isinstance(op, ast.NotEq):
            return (f"{min(L, R)} == {max(L, R)}", not pol)
        if isinstance(op, ast.Eq):
            return (f"{min(L, R)} == {max(L, R)}", pol)
        if isinstance(op, (ast.Is, ast.IsNot)):
            # identity is symmetric: a constant goes to the right, two expressions are ordered textually
            if isinstance(l, ast.Constant) and not isinstance(r, ast.Constant):
                L, R = R, L
            elif not isinstance(l, ast.Constant) and not isinstance(r, ast.Constant):
                L, R = min(L, R), max(L, R)
            return (f"{L} is {R}", pol if isinstance(op, ast.Is) else not pol)
        if isinstance(op, ast.NotIn):
            return (f"{L} in {R}", not pol)
        if isinstance(op, ast.In):
            return (f"{L} in {R}", pol)
        if isinstance(op, ast.Lt):
            return (f"{L} < {R}", pol)
        if isinstance(op, ast.GtE):
            return (f"{L} < {R}", not pol)
        if isinstance(op, ast.Gt):
            return (f"{R} < {L}", pol)
        if isinstance(op, ast.LtE):
            return (f"{R} < {L}", not pol)
    return (ast.unparse(e), pol)


def _len_truth(l, op, r):
    """(container expr, truthy?) if the comparison is an emptiness test on len(container), else None"""
    def is_len(x):
        return isinstance(x, ast.Call) and isinstance(x.func, ast.Name) and x.func.id == "len" and len(x.args) == 1 and not x.keywords

    def const(x):
        return x.value if isinstance(x, ast.Constant) and isinstance(x.value, int) and not isinstance(x.value, bool) else None

    flip = {ast.Lt: ast.Gt, ast.Gt: ast.Lt, ast.LtE: ast.GtE, ast.GtE: ast.LtE, ast.Eq: ast.Eq, ast.NotEq: ast.NotEq}
    if is_len(r) and const(l) is not None and type(op) in flip:
        l, r, op = r, l, flip[type(op)]()
    if not (is_len(l) and const(r) is not None):
        return None
    c, x = const(r), l.args[0]
    if isinstance(op, ast.Eq) and c == 0:
        return (x, False)
    if isinstance(op, ast.NotEq) and c == 0:
        return (x, True)
    if isinstance(op, ast.Gt) and c == 0:
        return (x, True)
    if isinstance(op, ast.GtE) and c == 1:
        return (x, True)
    if isinstance(op, ast.Lt) and c == 1:
        return (x, False)
    if isinstance(op, ast.LtE) and c == 0:
        return (x, False)
    return None


# attributes that hold integers (counters): for those `x == 0` is `not x` and `x != 0` / `x > 0` is `x`
INT_ATTRS = {"open_send_channels", "open_receive_channels", "_value", "_leases", "_pending_uncancellations", "_currsize", "_hits", "_misses"}


def _int_truth(l, op, r):
    def is_int_attr(x):
        return isinstance(x, ast.Attribute) and x.attr in INT_ATTRS

    def zero(x):
        return isinstance(x, ast.Constant) and x.value == 0 and not isinstance(x.value, bool)

    def one(x):
        return isinstance(x, ast.Constant) and x.value == 1 and not isinstance(x.value, bool)

    flip = {ast.Lt: ast.Gt, ast.Gt: ast.Lt, ast.LtE: ast.GtE, ast.GtE: ast.LtE, ast.Eq: ast.Eq, ast.NotEq: ast.NotEq}
    if is_int_attr(r) and (zero(l) or one(l)) and type(op) in flip:
        l, r, op = r, l, flip[type(op)]()
    if not is_int_attr(l):
        return None
    # (the counters of INT_ATTRS are non-negative integers: `n > 0`, `n != 0`, `n >= 1` say "non-zero"; `n == 0`, `n <= 0`, `n < 1` say "zero")
    if zero(r):
        if isinstance(op, (ast.Eq, ast.LtE)):
            return (l, False)
        if isinstance(op, (ast.NotEq, ast.Gt)):
            return (l, True)
    if one(r):
        if isinstance(op, ast.Lt):
            return (l, False)
        if isinstance(op, ast.GtE):
            return (l, True)
    return None


def F(text: str, aliases=None) -> tuple[str, bool]:
    """fact literal from source text, e.g. F("not self._tasks"), F("fut.cancelled()")"""
    return atom(ast.parse(text, mode="eval").body, aliases)


@lru_cache(maxsize=None)
def _fact_info(key: str):
    try:
        t = ast.parse(key, mode="eval")
    except SyntaxError:
        return frozenset(), frozenset(), False
    names = frozenset(x.id for x in ast.walk(t) if isinstance(x, ast.Name))
    attrs = frozenset(x.attr for x in ast.walk(t) if isinstance(x, ast.Attribute))
    for pk, extra in DEFINED_ATTRS.items():
        if pk in key:
            attrs = attrs | extra       # a defined predicate dies with the fields it is made of
    return names, attrs, ("self." in key)


# Predicates the repository defines as a pure conjunction over fields (a one-expression property): a path that established the
# conjuncts written out knows the predicate, and the other way round the rules can ask for the predicate whether the code calls the
# property or spells the conjunction (a maintainer inlining the property changes nothing).  Each conjunct lists its accepted spellings.
# The definition is checked against the code by C04/R04-e (truth table) whenever the property exists.
# the waiter queues of the synchronisation primitives and memory streams (assumption A6)
# queue -> positions of the pair that are objects the library itself creates (a Task, a Future, an Event, a receiver record); the
# other position is user data (`_wait_queue` keys are arbitrary borrowers, `waiting_senders` values are the items being sent)
WAITER_QUEUES = {"_waiters": (0, 1), "_wait_queue": (1,), "waiting_receivers": (0, 1), "waiting_senders": (0,)}

# names the repository uses for validated integer counts (parameters `n`, `r`, `times`, `remaining` of anyio.itertools)
INT_NAMES = {"n", "r", "times", "remaining", "repeat", "count"}

DEFINED = {
    "self._parent_cancellation_is_visible_to_us": [
        [("self._parent_scope is None", False)],
        [("self.shield", False), ("self._shield", False)],
        [("self._parent_scope._effectively_cancelled", True)],
    ],
}
DEFINED_ATTRS = {k: frozenset(x.attr for conj in v for (lit, _) in conj for x in ast.walk(ast.parse(lit, mode="eval")) if isinstance(x, ast.Attribute))
                 for k, v in DEFINED.items()}


def _close(facts: set) -> frozenset | None:
    """add implied facts, return None on contradiction"""
    add = set()
    for k, p in facts:
        if k.endswith(" is None") and p:
            add.add((k[: -len(" is None")], False))
        elif not k.endswith(" is None") and p and " " not in k:
            add.add((k + " is None", False))
    facts = facts | add
    for pk, conj in DEFINED.items():
        if (pk, True) in facts or (pk, False) in facts:
            continue
        if all(any(lit in facts for lit in alts) for alts in conj):
            facts = facts | {(pk, True)}
        elif any((k, not p) in facts for alts in conj for (k, p) in alts):
            facts = facts | {(pk, False)}
    for k, p in facts:
        if p and (k, False) in facts:
            return None
    return frozenset(facts)


# ----------------------------------------------------------------------------- writes
@dataclass
class Effects:
    names: set = field(default_factory=set)
    attrs: set = field(default_factory=set)
    all_self: bool = False
    suspends: bool = False


def own_fragments(node: Node) -> list[ast.AST]:
    s = node.node
    k = node.kind
    if k == "with_enter":
        return [i.context_expr for i in s.items] + [i.optional_vars for i in s.items if i.optional_vars is not None]
    if k == "for_iter":
        return [s.iter]
    if k in ("stmt", "test", "return", "raise"):
        return [s]
    return []


class Summaries:
    """write-summaries of own-class methods: which attributes a `self.m()` call may write"""

    def __init__(self, repo=None):
        self.repo = repo
        self._cache: dict[tuple, frozenset | None] = {}

    def writes_of(self, clsname: str | None, meth: str, depth: int = 0) -> frozenset | None:
        """frozenset of attribute names, or None = unknown (kills every self. fact)"""
        if self.repo is None or clsname is None:
            return None
        key = (clsname, meth)
        if key in self._cache:
            return self._cache[key]
        self._cache[key] = None  # recursion guard
        cands = [f for f in self.repo.funcs.get(f"{clsname}.{meth}", []) if not f.module.endswith("_trio.py")]
        # property access is not a call; setters are handled as attribute writes by the caller
        if len(cands) != 1 or depth > 3:
            return None
        fn = cands[0].node
        attrs: set[str] = set()
        for n in own_walk(fn):
            if isinstance(n, ast.Attribute) and isinstance(n.ctx, (ast.Store, ast.Del)):
                attrs.add(n.attr)
            elif isinstance(n, ast.Subscript) and isinstance(n.ctx, (ast.Store, ast.Del)):
                attrs |= {x.attr for x in ast.walk(n.value) if isinstance(x, ast.Attribute)}
            elif isinstance(n, ast.Call) and isinstance(n.func, ast.Attribute):
                base = n.func.value
                if n.func.attr in MUTATORS and isinstance(base, ast.Attribute):
                    attrs.add(base.attr)
                elif isinstance(base, ast.Name) and base.id in ("self", "cls"):
                    sub = self.writes_of(clsname, n.func.attr, depth + 1)
                    if sub is None:
                        self._cache[key] = None
                        return None
                    attrs |= sub
            elif isinstance(n, (ast.Await, ast.Yield, ast.YieldFrom)):
                self._cache[key] = None
                return None
        res = frozenset(attrs)
        self._cache[key] = res
        return res


def effects(frags, aliases, clsname=None, summaries: Summaries | None = None) -> Effects:
    ef = Effects()

    def base_kill(base):
        base = strip_cast(base)
        if isinstance(base, ast.Attribute):
            ef.attrs.add(base.attr)
        elif isinstance(base, ast.Name):
            ef.names.add(base.id)
            if base.id in aliases and isinstance(aliases[base.id], ast.Attribute):
                ef.attrs.add(aliases[base.id].attr)
        elif isinstance(base, ast.Subscript):
            base_kill(base.value)

    for fr in frags:
        nodes = [fr] + list(own_walk(fr))
        for n in nodes:
            tgts = []
            if isinstance(n, ast.Assign):
                tgts = n.targets
            elif isinstance(n, (ast.AugAssign, ast.AnnAssign)):
                tgts = [n.target]
            elif isinstance(n, ast.Delete):
                tgts = n.targets
            elif isinstance(n, ast.NamedExpr):
                tgts = [n.target]
            elif isinstance(n, (ast.For, ast.AsyncFor)):
                tgts = [n.target]
            elif isinstance(n, ast.Name) and isinstance(n.ctx, ast.Store):
                ef.names.add(n.id)
            for t in tgts:
                for x in ast.walk(t):
                    if isinstance(x, ast.Name) and isinstance(x.ctx, (ast.Store, ast.Del)):
                        ef.names.add(x.id)
                    elif isinstance(x, ast.Attribute) and isinstance(x.ctx, (ast.Store, ast.Del)):
                        ef.attrs.add(x.attr)
                    elif isinstance(x, ast.Subscript) and isinstance(x.ctx, (ast.Store, ast.Del)):
                        base_kill(x.value)
            if isinstance(n, ast.Call) and isinstance(n.func, ast.Attribute):
                base = strip_cast(n.func.value)
                if isinstance(base, ast.Name) and base.id in ("self", "cls"):
                    w = summaries.writes_of(clsname, n.func.attr) if summaries else None
                    if w is None:
                        ef.all_self = True
                    else:
                        ef.attrs |= w
                elif n.func.attr in MUTATORS:
                    base_kill(base)
            if isinstance(n, ast.Await):
                if call_name(n) not in NONSUSPENDING:
                    ef.suspends = True
            elif isinstance(n, (ast.Yield, ast.YieldFrom)):
                ef.suspends = True
            elif isinstance(n, ast.comprehension) and n.is_async:
                ef.suspends = True
    return ef


def gen_facts(node: Node, aliases) -> list[tuple[str, bool]]:
    """facts generated by constant assignments"""
    s = node.node
    out = []
    if node.kind != "stmt":
        return out
    if isinstance(s, ast.Expr) and isinstance(s.value, ast.Call) and isinstance(s.value.func, ast.Attribute) \
            and s.value.func.attr in ("append", "appendleft", "add") and len(s.value.args) == 1:
        base = s.value.func.value
        if isinstance(base, (ast.Name, ast.Attribute)) and not contains(base, (ast.Call, ast.Subscript)):
            return [(ast.unparse(subst(base, {})), True)]   # a container is non-empty right after an insertion
        return out
    if isinstance(s, ast.Assign) and len(s.targets) == 1:
        t, v = s.targets[0], s.value
    elif isinstance(s, ast.AnnAssign) and s.value is not None:
        t, v = s.target, s.value
    else:
        return out
    if not isinstance(t, (ast.Name, ast.Attribute)) or contains(t, (ast.Call, ast.Subscript)):
        return out
    key = ast.unparse(subst(t, {}))
    if isinstance(v, ast.UnaryOp) and isinstance(v.op, ast.USub) and isinstance(v.operand, ast.Constant) and isinstance(v.operand.value, int) \
            and not isinstance(v.operand.value, bool):
        v = ast.Constant(-v.operand.value)
    if isinstance(v, ast.Constant) and isinstance(v.value, int) and not isinstance(v.value, bool):
        out += [(f"{key} < 0", v.value < 0), (f"0 < {key}", v.value > 0)]       # sign of an integer constant
    if isinstance(v, ast.Constant):
        if v.value is None:
            out += [(key + " is None", True), (key, False)]
        elif isinstance(v.value, (bool, int, str, bytes, float)):
            out += [(key, bool(v.value))]
            if v.value is not False and v.value is not True:
                pass
            out += [(key + " is None", False)]
    elif isinstance(v, ast.Call) and ((isinstance(v.func, ast.Name) and v.func.id[:1].isupper()) or
                                      (isinstance(v.func, ast.Attribute) and v.func.attr[:1].isupper())
                                      or (isinstance(v.func, ast.Subscript) and isinstance(v.func.value, ast.Name) and v.func.value.id[:1].isupper())):
        out += [(key + " is None", False)]      # a constructor call (CapWords callee) never evaluates to None
    elif isinstance(v, (ast.List, ast.Tuple, ast.Set)) and not v.elts:
        out += [(key, False)]
    elif isinstance(v, ast.Dict) and not v.keys:
        out += [(key, False)]
    elif isinstance(v, (ast.List, ast.Tuple, ast.Set)) and v.elts and not any(isinstance(e, ast.Starred) for e in v.elts):
        out += [(key, True)]
    return out


def deref_facts(e, skip=("self", "cls")) -> list[tuple[str, bool]]:
    """a local whose attribute or item was just read is not None (`x.y` / `x[i]` on None raises)"""
    out = []
    if e is None:
        return out
    for n in own_walk(e) if not isinstance(e, ast.expr) else ast.walk(e):
        if isinstance(n, (ast.Attribute, ast.Subscript)) and isinstance(n.value, ast.Name) and isinstance(n.value.ctx, ast.Load) \
                and n.value.id not in skip and isinstance(getattr(n, "ctx", None), ast.Load):
            out.append((n.value.id + " is None", False))
    return out


SAME = "__same__"
# attributes that are *rebound* (assigned a new object) by the methods of a protocol class - callbacks the event loop's transport invokes
# synchronously from inside calls such as `transport.write()`.  A local bound to such a field is not an alias of it across a call.
# Filled by core.resolve_aliases from the tree under analysis.
VOLATILE_ATTRS: set = set()


@lru_cache(maxsize=None)
def _subst_key(key: str, vs: str, t: str):
    """the fact key with every occurrence of the expression `vs` replaced by `t`; None if it does not occur"""
    if vs not in key:
        return None
    try:
        tree = ast.parse(key, mode="eval")
    except SyntaxError:
        return None
    hit = [False]

    class T(ast.NodeTransformer):
        def generic_visit(self, n):
            if isinstance(n, ast.expr) and ast.unparse(n) == vs:
                hit[0] = True
                return ast.parse(t, mode="eval").body
            return super().generic_visit(n)

    new = T().visit(tree)
    if not hit[0]:
        return None
    return ast.unparse(new.body)


# ----------------------------------------------------------------------------- exploration
class Bad(str):
    """returned by a step function to signal an automaton error"""


@dataclass
class Violation:
    msg: str
    node: Node
    label: str
    facts: frozenset
    state: object
    trace: list

    def path_text(self) -> str:
        return " ".join(f"{l}:{e}" for l, e in self.trace[-24:])


@dataclass
class Result:
    cfg: CFG
    states_at: dict           # node.id -> list[(facts, st)]  (state on ARRIVAL at the node)
    exits: list               # (node, facts, st, key)
    violations: list          # Violation
    nstates: int
    ntrans: int
    pred: dict

    def trace(self, key, limit=400):
        out = []
        seen = 0
        while key in self.pred and seen < limit:
            prev, line, label = self.pred[key]
            if line:
                out.append((line, label))
            key = prev
            seen += 1
        out.reverse()
        return out

    def facts_at(self, node_ids) -> list:
        out = []
        for i in node_ids:
            out += [f for f, _ in self.states_at.get(i, [])]
        return out


class Explorer:
    def __init__(self, cfg: CFG, fn_ast, clsname=None, summaries=None, inject=(), events=None, step=None, init=None,
                 aliases=None, assume=None, max_states=400000):
        self.cfg = cfg
        self.fn = fn_ast
        self.clsname = clsname
        self.summaries = summaries
        self.aliases = local_aliases(fn_ast) if aliases is None else aliases
        self.inject = frozenset(inject)
        self.events = events
        self.step = step
        self.init = init
        self.assume = dict(assume or {})   # atom key -> forced polarity (e.g. {"self._fast_acquire": False})
        self.max_states = max_states
        self._eff: dict[int, Effects] = {}
        self._gen: dict[int, list] = {}
        self._drf: dict[int, list] = {}
        self._emp: dict = {}
        self._atom: dict[int, tuple] = {}
        self._ev: dict[int, list] = {}

    def eff(self, node: Node) -> Effects:
        e = self._eff.get(node.id)
        if e is None:
            e = effects(own_fragments(node), self.aliases, self.clsname, self.summaries)
            if node.info.get("async"):
                e.suspends = True
            if node.kind == "for_iter":
                for x in ast.walk(node.node.target):
                    if isinstance(x, ast.Name):
                        e.names.add(x.id)
            if node.kind == "except" and node.node.name:
                e.names.add(node.node.name)
            self._eff[node.id] = e
        return e

    def _empty_on_raise(self, node: Node, cls: str):
        """the container that must be empty if this statement raised `cls`: only when the statement has exactly one operation that can
        raise a lookup error, and that operation takes from the container unconditionally"""
        key = (node.id, cls)
        if key in self._emp:
            return self._emp[key]
        res = None
        n = node.node
        if isinstance(n, ast.AST):
            cands = []
            risky = 0
            for x in ast.walk(n):
                if isinstance(x, ast.Subscript) and isinstance(x.ctx, ast.Load):
                    risky += 1
                    if isinstance(x.slice, ast.Constant) and x.slice.value in (0, -1) and cls in ("IndexError", "LookupError"):
                        cands.append(x.value)
                elif isinstance(x, ast.Call) and isinstance(x.func, ast.Attribute):
                    m = x.func.attr
                    if m in ("popleft", "pop", "popitem", "remove", "index") or m.startswith("__"):
                        risky += 1
                    if m == "popleft" and not x.args and cls in ("IndexError", "LookupError"):
                        cands.append(x.func.value)
                    elif m == "pop" and (not x.args or (len(x.args) == 1 and isinstance(x.args[0], ast.Constant) and x.args[0].value in (0, -1))) \
                            and not x.keywords and cls in ("IndexError", "LookupError"):
                        cands.append(x.func.value)
                    elif m == "popitem" and cls in ("KeyError", "LookupError"):
                        cands.append(x.func.value)
            if len(cands) == 1 and risky == 1 and isinstance(cands[0], (ast.Name, ast.Attribute)) and not contains(cands[0], (ast.Call, ast.Subscript)):
                res = ast.unparse(subst(cands[0], self.aliases))
        self._emp[key] = res
        return res

    def _deref(self, node: Node) -> list:
        d = self._drf.get(node.id)
        if d is None:
            d = []
            if node.kind in ("stmt", "test", "return") and isinstance(node.node, ast.AST) and not isinstance(node.node, (ast.FunctionDef, ast.AsyncFunctionDef, ast.ClassDef)):
                stored = {x.id for x in ast.walk(node.node) if isinstance(x, ast.Name) and isinstance(x.ctx, (ast.Store, ast.Del))}
                d = [f for f in deref_facts(node.node) if f[0][: -len(" is None")] not in stored]
            self._drf[node.id] = d
        return d

    def kill(self, facts: frozenset, node: Node, raised: bool = False) -> frozenset:
        e = self.eff(node)
        if raised and node.kind == "stmt" and isinstance(node.node, (ast.Assign, ast.AnnAssign)):
            # `x = <expr>` whose evaluation raised: the name was not bound, what was known about x still holds
            tg = node.node.targets if isinstance(node.node, ast.Assign) else [node.node.target]
            if len(tg) == 1 and isinstance(tg[0], ast.Name) and tg[0].id in e.names \
                    and not any(isinstance(x, ast.NamedExpr) for x in ast.walk(node.node)):
                e = Effects(names=e.names - {tg[0].id}, attrs=e.attrs, all_self=e.all_self, suspends=e.suspends)
        if not (e.names or e.attrs or e.all_self or e.suspends):
            return facts
        out = []
        for f in facts:
            k = f[0]
            if k == EXC:
                out.append(f)
                continue
            names, attrs, has_self = _fact_info(k)
            if names & e.names or attrs & e.attrs:
                continue
            if e.all_self and has_self:
                continue
            if e.suspends and attrs:
                # a flag that is only ever set (writer table R04-f: `_cancel_called` is False in __init__ and
                # True in cancel(), nowhere else) stays set across a suspension
                if not (f[1] is True and k.endswith(MONOTONE_TRUE) and len(attrs) == 1):
                    continue
            out.append(f)
        return frozenset(out)

    def transfer(self, facts: frozenset, node: Node) -> list:
        """facts that follow a value through `x = <expr>` (isinstance / is None / truthiness of the
        assigned expression, evaluated before the assignment) and the class fact on entering
        `except C as e`"""
        s = node.node
        out = []
        if node.kind == "except":
            h = s
            if h.name and h.type is not None and not isinstance(h.type, ast.Tuple):
                out.append((f"isinstance({h.name}, {ast.unparse(h.type)})", True))
                out.append((f"{h.name} is None", False))
            if h.name:
                # a clause is reached only if no earlier clause of the same `try` matched
                tr_ = getattr(h, "_parent", None)
                if isinstance(tr_, ast.Try) and any(x is h for x in tr_.handlers):
                    for e_ in tr_.handlers[:[x is h for x in tr_.handlers].index(True)]:
                        for ty in (e_.type.elts if isinstance(e_.type, ast.Tuple) else [e_.type] if e_.type is not None else []):
                            if isinstance(ty, (ast.Name, ast.Attribute)):
                                out.append((f"isinstance({h.name}, {ast.unparse(ty)})", False))
            return out
        if node.kind != "stmt":
            return out
        if isinstance(s, ast.Assign) and len(s.targets) == 1 and isinstance(s.targets[0], ast.Tuple) and isinstance(s.value, ast.Call) \
                and isinstance(s.value.func, ast.Attribute) and s.value.func.attr in ("popleft", "popitem", "pop") \
                and isinstance(s.value.func.value, ast.Attribute) and s.value.func.value.attr in WAITER_QUEUES \
                and all(isinstance(e, ast.Name) for e in s.targets[0].elts):
            # A6: what the waiter queues hold are pairs of real objects (task, future / event, receiver / borrower, event): every
            # registration site the rules check puts such a pair in; None is never queued
            pos = WAITER_QUEUES[s.value.func.value.attr]
            return [(f"{e.id} is None", False) for i, e in enumerate(s.targets[0].elts) if i in pos]
        if isinstance(s, ast.Assign) and len(s.targets) == 1 and isinstance(s.targets[0], ast.Tuple) and isinstance(s.value, ast.Name) \
                and all(isinstance(e, ast.Name) for e in s.targets[0].elts):
            # `a, b = pair`: what is known about pair[0] / pair[1] is known about a / b (and the pair itself is not None)
            vs = s.value.id
            for i, e in enumerate(s.targets[0].elts):
                for k, p in facts:
                    if k == EXC:
                        continue
                    nk = _subst_key(k, f"{vs}[{i}]", e.id)
                    if nk is not None and nk != k:
                        out.append((nk, p))
            out.append((f"{vs} is None", False))
            return out
        if isinstance(s, ast.Assign) and len(s.targets) == 1 and isinstance(s.targets[0], ast.Attribute) and isinstance(s.value, ast.Name) \
                and not any(isinstance(x, (ast.Call, ast.Subscript)) for x in ast.walk(s.targets[0])):
            # `self._f = x`: until either is rewritten (or the task suspends) a test on x is a test on the field
            return [(f"{SAME}({s.value.id}, {ast.unparse(subst(s.targets[0], self.aliases))})", True)]
        if isinstance(s, ast.Assign) and len(s.targets) == 1 and isinstance(s.targets[0], ast.Name):
            t, v = s.targets[0].id, s.value
        elif isinstance(s, ast.AnnAssign) and s.value is not None and isinstance(s.target, ast.Name):
            t, v = s.target.id, s.value
        else:
            return out
        if isinstance(v, ast.Call) and not v.args and not v.keywords and isinstance(v.func, ast.Attribute) and v.func.attr in ("is_set", "done", "cancelled", "locked") \
                and not any(isinstance(x, (ast.Call, ast.Subscript)) for x in ast.walk(v.func.value)):
            # `granted = event.is_set()`: a later test on the local is a test on what the query said then - and, like every fact about
            # `x.is_set()`, it stands until x is rebound or the task suspends
            return out + [(f"{SAME}({t}, {ast.unparse(subst(v, self.aliases))})", True)]
        if isinstance(v, ast.Compare) and len(v.ops) == 1 and not any(isinstance(x, (ast.Call, ast.Subscript, ast.Await, ast.NamedExpr)) for x in ast.walk(v)):
            # `last = self.n == 0`: the flag is the comparison as it stood then (until an operand is rewritten or the task suspends)
            return out + [(f"{SAME}({t}, {ast.unparse(subst(v, self.aliases))})", True)]
        if not isinstance(v, (ast.Name, ast.Attribute)):
            return out
        vs = ast.unparse(subst(v, self.aliases))
        if vs == t:
            return out
        if isinstance(v, ast.Attribute) and not any(isinstance(x, (ast.Call, ast.Subscript)) for x in ast.walk(v)):
            # t is a snapshot of the field: until either is rewritten (or the task suspends) a test on t is a test on the field
            out.append((f"{SAME}({t}, {vs})", True))
        for k, p in facts:
            if k == EXC:
                continue
            nk = _subst_key(k, vs, t)
            if nk is not None and nk != k:
                out.append((nk, p))
        return out

    def run(self) -> Result:
        cfg = self.cfg
        states_at: dict[int, list] = {}
        exits = []
        violations = []
        pred = {}
        seen = set()
        start = (cfg.entry.id, _close(set(self.inject)) or frozenset(), self.init)
        stack = [(cfg.entry, start[1], self.init, None, 0, "")]
        ntrans = 0
        while stack:
            node, facts, st, prevkey, line, label = stack.pop()
            key = (node.id, facts, st)
            if key in seen:
                continue
            seen.add(key)
            if prevkey is not None:
                pred[key] = (prevkey, line, label)
            if len(seen) > self.max_states:
                raise AnalysisError(f"state space exceeded {self.max_states} states in {getattr(self.fn, 'name', '?')}")
            states_at.setdefault(node.id, []).append((facts, st))
            if cfg.is_exit(node):
                exits.append((node, facts, st, key))
                continue
            evs = ()
            if self.events is not None:
                evs = self._ev.get(node.id)
                if evs is None:
                    evs = self._ev[node.id] = list(self.events(node) or ())
            for label2, m in node.succ:
                is_exc = label2.startswith(("exc", "raise", "reraise"))
                if label2 == "done" and node.kind == "for_iter" and node.info.get("first_range") and (f"0 < {node.info['first_range']}", True) in facts:
                    continue        # `for _ in range(n)` with n > 0 known on entry runs its body at least once
                f2 = facts
                if node.kind == "test":
                    if is_exc:
                        f2 = self.kill(facts, node)
                    else:
                        a = self._atom.get(node.id)
                        if a is None:
                            a = self._atom[node.id] = atom(node.node, self.aliases)
                        k, p = a
                        pol = p if label2 == "true" else (not p)
                        if k in self.assume and self.assume[k] != pol:
                            continue
                        if isinstance(node.node, ast.Constant):
                            if bool(node.node.value) != (label2 == "true"):
                                continue
                            f2c = facts
                        else:
                            f2 = self.kill(facts, node)  # walrus targets
                            extra = set()
                            for fk, fp in f2:
                                if fp is True and fk.startswith(SAME + "("):
                                    t_, _, vs_ = fk[len(SAME) + 1:-1].partition(", ")
                                    nk = _subst_key(k, t_, f"({vs_})" if " " in vs_ else vs_)
                                    if nk is not None and nk != k:
                                        try:
                                            k2, p2 = atom(ast.parse(nk, mode="eval").body)       # (canonical spelling of the substituted test)
                                        except SyntaxError:
                                            k2, p2 = nk, True
                                        extra.add((k2, pol if p2 else not pol))
                            f2c = _close(set(f2) | {(k, pol)} | extra | set(self._deref(node)))
                            if f2c is None:
                                continue
                        f2 = f2c
                else:
                    f2 = self.kill(facts, node, raised=is_exc)
                    if not is_exc:
                        g = self._gen.get(node.id)
                        if g is None:
                            g = self._gen[node.id] = gen_facts(node, self.aliases)
                        g = list(g) + self.transfer(facts, node) + self._deref(node)
                        if g:
                            f2c = _close(set(f2) | set(g))
                            f2 = f2c if f2c is not None else f2
                if is_exc:
                    kind, _, cls = label2.partition(":")
                    if kind == "exc" and cls in ("IndexError", "KeyError", "LookupError") and node.kind in ("stmt", "return", "test"):
                        # EAFP emptiness: `q.popleft()` / `q.pop()` / `q.popitem(...)` / `q[0]` raising means q is empty
                        em = self._empty_on_raise(node, cls)
                        if em:
                            if (em, True) in facts:
                                continue        # the container is known to be non-empty here: this take cannot raise
                            f2c = _close(set(f2) | {(em, False)})
                            if f2c is None:
                                continue
                            f2 = f2c
                    cur = next((v for (k, v) in f2 if k == EXC), None)
                    if kind == "reraise":
                        if cur is not None and cur != cls:
                            continue
                    f2 = frozenset([f for f in f2 if f[0] != EXC] + [(EXC, cls)])
                elif label2 == "swallow":
                    f2 = frozenset(f for f in f2 if f[0] != EXC)
                st2 = st
                bad = None
                if evs and self.step is not None:
                    ctx = StepCtx(node, label2, is_exc, f2, facts)
                    for e in evs:
                        r = self.step(st2, e, ctx)
                        if isinstance(r, Bad):
                            bad = r
                            break
                        st2 = r
                ntrans += 1
                if bad is not None:
                    tr = Result(cfg, {}, [], [], 0, 0, pred).trace(key) + [(node.line, label2)]
                    violations.append(Violation(str(bad), node, label2, f2, st2, tr))
                    continue
                stack.append((m, f2, st2, key, node.line, label2))
        return Result(cfg, states_at, exits, violations, len(seen), ntrans, pred)


@dataclass
class StepCtx:
    node: Node
    label: str
    is_exc: bool
    facts: frozenset        # facts after the edge
    facts_before: frozenset

    def has(self, fact) -> bool:
        return fact in self.facts


def exit_kind(node: Node, cfg: CFG) -> str:
    if node is cfg.exit:
        return "return"
    return "raise:" + node.info.get("cls", "?")
