#!/venv/bin/python
"""CLI of the static checker.

    run.py check <ID> [--tier quick|thorough] [--root /repo]
    run.py replay <violation.json>
    run.py list

exit 0 = all obligations discharged (known findings are printed, not failed)
exit 1 = VIOLATION property=<id> replay=<path>
exit 2 = ANALYSIS-ERROR (anchor missing, parse error, instance floor not reached, crash)
"""
from __future__ import annotations

import argparse
import importlib
import json
import os
import sys
import time
import traceback

HERE = os.path.dirname(os.path.abspath(__file__))
VERIF = os.path.dirname(HERE)
sys.path.insert(0, VERIF)

from sa.engine.core import ASSUMPTIONS, Ctx, load_known, match_known  # noqa: E402
from sa.engine.source import AnalysisError  # noqa: E402

PROPS = [f"C{i:02d}" for i in range(1, 21)]


def run_rules(prop: str, root: str, tier: str) -> Ctx:
    mod = importlib.import_module(f"sa.rules.{prop.lower()}")
    ctx = Ctx(root=root, tier=tier, prop=prop)
    mod.check(ctx)
    if hasattr(mod, "selfcheck"):
        mod.selfcheck(ctx)
    return ctx, mod


def evidence_path(prop):
    return os.path.join(VERIF, "evidence", f"{prop}.json")


def do_check(prop: str, root: str, tier: str, write=True, quiet=False, audit=True) -> int:
    t0 = time.time()
    seed = int(os.environ.get("VERIF_SEED", "0") or 0)
    ctx, mod = run_rules(prop, root, tier)
    known = load_known(os.path.join(VERIF, "known_findings.json"))
    viol = []
    knownhits = []
    for o in ctx.obs:
        if o.ok:
            continue
        k = match_known(o, prop, known)
        if k:
            o.known = True
            knownhits.append((o, k))
        else:
            viol.append(o)
    audit_res = None
    if tier == "thorough" and audit:
        try:
            from sa.selftest.audit import run_audit
            audit_res = run_audit(prop, root)
        except ImportError:
            audit_res = {"skipped": "self-test module not available"}
    wall = time.time() - t0
    rules = {}
    for o in ctx.obs:
        r = rules.setdefault(o.rule, {"obligations": 0, "discharged": 0, "instances": []})
        r["obligations"] += 1
        r["discharged"] += 1 if o.ok else 0
        if len(r["instances"]) < 40:
            r["instances"].append(f"{o.where} :: {o.instance}" + ("" if o.ok else "  [UNDISCHARGED]"))
    nontrivial = len({o.key for o in ctx.obs if o.ok and o.by})
    samples = [o.to_json() for o in ctx.obs if o.ok and o.by][:6] + [o.to_json() for o in ctx.obs if not o.ok][:6]
    vfiles = []
    if write:
        vdir = os.path.join(VERIF, "evidence", "violations")
        os.makedirs(vdir, exist_ok=True)
        for fn in os.listdir(vdir):
            if fn.startswith(prop + "-"):
                os.unlink(os.path.join(vdir, fn))
        for i, o in enumerate(viol):
            p = os.path.join(vdir, f"{prop}-{i}.json")
            with open(p, "w") as fh:
                json.dump({"property": prop, "root": root, **o.to_json()}, fh, indent=1)
            vfiles.append(p)
        ev = {
            "property_id": prop,
            "tier": tier,
            "seed": seed,
            "level": "other",
            "coverage": {
                "explanation": getattr(mod, "EXPLANATION", "") + " Static obligations over CFG/dataflow of the anchored functions; "
                f"{len(ctx.obs)} obligations, {sum(o.ok for o in ctx.obs)} discharged.",
                "obligations": len(ctx.obs),
                "discharged": sum(o.ok for o in ctx.obs),
                "evaluations": len(ctx.obs),
                "distinct_nontrivial": nontrivial,
                "rule": "one obligation per rule id x construct (function, site or exit kind); non-trivial = its discharge needed at least "
                        "one path fact or automaton event (measured: obligations with a non-empty discharged_by set)",
                "samples": samples or [o.to_json() for o in ctx.obs[:3]],
                "exhaustive": True,
                "rules": rules,
                "functions_analysed": sorted(ctx.stats["functions"]),
                "cfg_nodes": ctx.stats["cfg_nodes"],
                "states": ctx.stats["states"],
                "transitions": ctx.stats["transitions"],
                "explorations": ctx.stats["explorations"],
                "source_digest": ctx.repo.digest,
                "root": root,
                "not_decided": getattr(mod, "NOT_DECIDED", ""),
                "known_findings_reported": [k.get("what", "") for _, k in knownhits],
                "info": ctx.info[:50],
                "inlined_helpers": list(getattr(ctx, "inlined", [])),
                "renamed_private_attributes": list(getattr(ctx, "field_renames", [])),
                "checker_cmd": f"/venv/bin/python sa/run.py check {prop} --tier {tier}",
                "trusted_base": ["CPython ast", "asyncio semantics (A5)", "the rule tables in sa/rules/" + prop.lower() + ".py"],
            },
            "assumptions": ASSUMPTIONS,
            "wall_s": round(wall, 3),
            "violations": len(viol),
        }
        if audit_res is not None:
            ev["coverage"]["sensitivity_audit"] = audit_res
        if tier == "thorough":
            try:
                from sa.rules import sweeps
                ev["coverage"]["sweeps_informational"] = sweeps.run_all(ctx)
            except Exception as e:   # the sweeps never decide anything: report, do not fail
                ev["coverage"]["sweeps_informational"] = {"error": repr(e)}
        os.makedirs(os.path.dirname(evidence_path(prop)), exist_ok=True)
        with open(evidence_path(prop), "w") as fh:
            json.dump(ev, fh, indent=1, sort_keys=False)
    if not quiet:
        print(f"{prop} [{tier}] root={root} functions={len(ctx.stats['functions'])} cfg_nodes={ctx.stats['cfg_nodes']} "
              f"states={ctx.stats['states']} obligations={len(ctx.obs)} discharged={sum(o.ok for o in ctx.obs)} wall={wall:.2f}s")
        for rid, r in sorted(rules.items()):
            print(f"  {rid}: {r['discharged']}/{r['obligations']}")
    for o, k in knownhits:
        print(f"KNOWN-FINDING: property={prop} {k.get('what', o.detail)} [{o.rule} {o.where}]")
    for i, o in enumerate(viol):
        print(f"  UNDISCHARGED {o.rule} {o.where} :: {o.instance}\n      {o.detail}" + (f"\n      path: {o.witness}" if o.witness else ""))
    for i, o in enumerate(viol):
        p = vfiles[i] if i < len(vfiles) else "-"
        print(f"VIOLATION property={prop} replay={p}")
    return 1 if viol else 0


def do_replay(path: str) -> int:
    with open(path) as fh:
        v = json.load(fh)
    prop = v["property"]
    root = v.get("root", "/repo")
    ctx, mod = run_rules(prop, root, "quick")
    hits = [o for o in ctx.obs if o.rule == v["rule"] and o.key == v["key"]]
    if not hits:
        hits = [o for o in ctx.obs if o.rule == v["rule"] and not o.ok]
    still = [o for o in hits if not o.ok]
    print(f"replay {path}: rule {v['rule']} instance {v['instance']}")
    for o in hits:
        print(f"  {'UNDISCHARGED' if not o.ok else 'discharged'} {o.where} :: {o.instance}\n    {o.detail}\n    path: {o.witness}")
    if still:
        print(f"VIOLATION property={prop} replay={path}")
        return 1
    print("obligation is discharged on the current tree")
    return 0


def main(argv=None) -> int:
    ap = argparse.ArgumentParser()
    sub = ap.add_subparsers(dest="cmd", required=True)
    c = sub.add_parser("check")
    c.add_argument("prop")
    c.add_argument("--tier", default=os.environ.get("VERIF_TIER", "quick"), choices=["quick", "thorough"])
    c.add_argument("--root", default="/repo")
    c.add_argument("--no-write", action="store_true")
    c.add_argument("--no-audit", action="store_true")
    r = sub.add_parser("replay")
    r.add_argument("path")
    sub.add_parser("list")
    a = ap.parse_args(argv)
    try:
        if a.cmd == "check":
            return do_check(a.prop.upper(), a.root, a.tier, write=not a.no_write, audit=not a.no_audit)
        if a.cmd == "replay":
            return do_replay(a.path)
        if a.cmd == "list":
            for p in PROPS:
                print(p, "yes" if os.path.exists(os.path.join(HERE, "rules", p.lower() + ".py")) else "-")
            return 0
    except AnalysisError as e:
        print(f"ANALYSIS-ERROR {e}")
        return 2
    except Exception:
        traceback.print_exc()
        print("ANALYSIS-ERROR internal error in the checker (see traceback above)")
        return 2
    return 0


if __name__ == "__main__":
    sys.exit(main())
