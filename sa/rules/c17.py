"""C17 — TLS streams: faithful transport over any fragmentation, truncation detected."""
from __future__ import annotations

import ast

from sa.engine.cfg import call_name, exc_name, handler_names
from sa.engine.facts import Bad, F, atom
from sa.engine.pattern import u, find_all
from sa.engine.source import norm, own_walk, stmt_of, AnalysisError
from .common import lexically_inside, enclosing, dominates_all_exits, block_head, validated_first

EXPLANATION = ("TLS streams: the pump between the SSL object and the transport - after want-read, pending output is flushed before the "
               "transport is read, the bytes read are written to the incoming BIO (or EOF is recorded) and the SSL call is retried; after "
               "want-write the outgoing BIO is sent; on success pending output is flushed before the result of that very call is returned; "
               "every read of the outgoing BIO goes straight into transport.send; no handler leaves the loop except by raising; except clauses "
               "are not shadowed (real ssl hierarchy); unexpected-EOF errors map to BrokenResourceError exactly when standard_compatible, else "
               "EndOfStream, other SSL errors propagate; syscall/OS errors map to BrokenResourceError; both BIOs are sealed on fatal errors; "
               "receive validates and forwards max_bytes and turns an empty read into EndOfStream; aclose performs the closing handshake iff "
               "standard_compatible and force-closes the transport if it fails; wrap re-enables unexpected-EOF detection on contexts it creates "
               "and completes the handshake through the same pump."
               " The only write to an SSL context's settings is wrap() clearing OP_IGNORE_UNEXPECTED_EOF on the context it created itself.")
NOT_DECIDED = ("Anything inside OpenSSL (record/chunk alignment at run time), user-supplied SSLContext objects that keep "
               "OP_IGNORE_UNEXPECTED_EOF set, loss of already decrypted data when the flush after a successful read is cancelled.")

TLS = "streams/tls.py"
WB_READ = "self._write_bio.read()"
FLUSH = f"await self.transport_stream.send({WB_READ})"


def check(ctx):
    pump = ctx.fn("TLSStream._call_sslobject_method", TLS)
    fn = pump.node
    fparam = fn.args.args[1].arg
    va = fn.args.vararg.arg if fn.args.vararg else None
    if va is None:
        raise AnalysisError("R17: _call_sslobject_method no longer takes (func, *args)")
    calls = ctx.sites(pump, f"$R = {fparam}(*{va})")
    if not ctx.need("R17-a", pump, f"`result = {fparam}(*{va})`", len(calls), 1):
        return
    res = u(calls[0][1]["R"])
    trys = [t for t in own_walk(fn) if isinstance(t, ast.Try) and any(calls[0][0] is x for s in t.body for x in ast.walk(s))]
    if len(trys) != 1:
        raise AnalysisError("R17: the try statement around the SSL call was not found")
    tr = trys[0]
    H = {}
    for h in tr.handlers:
        for nm in handler_names(h):
            H[nm] = h
    for need in ("SSLWantReadError", "SSLWantWriteError", "SSLError"):
        if need not in H:
            ctx.ob("R17-a", pump, f"handler for {need}", False, detail=f"the pump loop has no `except ssl.{need}` clause")
    if not all(k in H for k in ("SSLWantReadError", "SSLWantWriteError", "SSLError")):
        return
    in_loop = lexically_inside(tr, lambda x: isinstance(x, ast.While), stop=fn)
    ctx.ob("R17-a", pump, "the SSL call is retried in a loop", in_loop, detail="" if in_loop else "the try statement is not inside a loop: want-read/want-write cannot be retried", by=("while True",))

    # ---- R17-a pump protocol --------------------------------------------------------------------------------------------------------------------
    recvs = ctx.sites(pump, "$D = await self.transport_stream.receive()")
    ctx.need("R17-a", pump, "`data = await self.transport_stream.receive()`", len(recvs), 1)
    dv = u(recvs[0][1]["D"]) if recvs else "data"

    def is_pending_test(frag, node):
        return node.kind == "test" and atom(node.node)[0] == "self._write_bio.pending"

    def step(st, e, c):
        phase, clean, got = st      # phase: ''|'ok'|'wantread'|'wantwrite'|'other' ; clean: nothing pending (flushed or tested empty); got: ciphertext held
        if e == "func":
            if got:
                return Bad("ciphertext received from the transport is not written to the incoming BIO before the SSL call is retried (bytes dropped)")
            if c.is_exc:
                cls = c.label.partition(":")[2]
                ph = {"SSLWantReadError": "wantread", "SSLWantWriteError": "wantwrite"}.get(cls, "other")
                return (ph, False, False)
            return ("ok", False, False)
        if e == "ptest" and not c.is_exc:
            if ("self._write_bio.pending", False) in c.facts:
                return (phase, True, got)
            return st
        if e == "flush":
            return (phase, True, got)        # if the send itself fails the data was taken out of the BIO anyway
        if e == "recv":
            if not clean:
                return Bad("the transport is read while output may still be pending in the outgoing BIO (the peer may be waiting for it: deadlock)")
            if c.is_exc:
                return st
            return (phase, clean, True)
        if e == "feed" and not c.is_exc:
            return (phase, clean, False)
        return st

    def at_exit(kind, st, facts):
        phase, clean, got = st
        if kind == "return":
            if phase != "ok":
                return "the pump returns although the last SSL call did not succeed"
            if not clean:
                return "the pump returns without flushing pending output of the successful call (the peer never receives it)"
        if got:
            return f"ciphertext received from the transport is dropped on a path leaving by {kind}"
        return None

    ctx.paths("R17-a", pump, [("func", f"{res} = {fparam}(*{va})"), ("ptest", [is_pending_test]), ("flush", FLUSH), ("recv", f"{dv} = await self.transport_stream.receive()"),
                              ("feed", f"self._read_bio.write({dv})")], step, ("", False, False), at_exit,
              instance="flush before read, feed what was read, retry, flush before return")
    # want-write: the outgoing BIO is sent
    ww = H["SSLWantWriteError"]
    s = find_all(FLUSH, ww)
    ctx.ob("R17-a", pump, "after want-write the outgoing BIO is sent to the transport", len(s) == 1, node=ww,
           detail="" if s else "the SSLWantWriteError handler does not send self._write_bio.read()", by=(FLUSH,))
    # every read of the outgoing BIO goes straight into transport.send
    tls_funcs = [f for f in ctx.repo.funcs_in(TLS)]
    n_reads = 0
    for f in tls_funcs:
        for n in own_walk(f.node):
            if isinstance(n, ast.Call) and ast.unparse(n) == WB_READ:
                n_reads += 1
                par = getattr(n, "_parent", None)
                ok = isinstance(par, ast.Call) and ast.unparse(par.func) == "self.transport_stream.send" and par.args and par.args[0] is n \
                    and isinstance(getattr(par, "_parent", None), ast.Await)
                ctx.ob("R17-a", f, "ciphertext taken from the outgoing BIO is sent to the transport", ok, node=stmt_of(n),
                       detail="" if ok else f"`{norm(stmt_of(n))}` reads the outgoing BIO without sending the bytes (ciphertext dropped)", by=("transport_stream.send(self._write_bio.read())",))
    ctx.floor("R17-a", "reads of the outgoing BIO", n_reads, 1)
    # handlers never leave the loop except by raising
    for nm, h in H.items():
        bad = [n for n in own_walk(h) if isinstance(n, (ast.Break, ast.Return))]
        ctx.ob("R17-a", pump, f"the {nm} handler leaves the loop only by raising", not bad, node=bad[0] if bad else h,
               detail="" if not bad else f"`{norm(bad[0])}` in the {nm} handler ends the pump without a result", by=("no break/return",))
    rets = [n for n in own_walk(fn) if isinstance(n, ast.Return)]
    okr = len(rets) == 1 and rets[0].value is not None and ast.unparse(rets[0].value) == res
    ctx.ob("R17-a", pump, "what is returned is the result of the successful SSL call", okr, detail="" if okr else f"the pump does not `return {res}`", by=(f"return {res}",))

    # ... and it is returned only straight after a call that succeeded: no handler has run since (the `else` clause of the try, or the
    # code after the try when every retrying handler ends in `continue` and every other one raises)
    def step_ok(st, e, c):
        if e == "ok":
            return "fresh" if not c.is_exc else "stale"
        if e == "h":
            return "stale"
        if e == "aw" and st == "fresh":
            return Bad("a suspension point other than the flush of pending output follows the successful SSL call: a cancellation delivered "
                       "there discards what the call has already taken out of the SSL object (plaintext read, or the fact that the data was written)")
        return st

    def other_await(frag, node):
        if frag is None:
            return False
        for x in [frag] + list(own_walk(frag)):
            if isinstance(x, ast.Await) and not (isinstance(x.value, ast.Call) and ast.unparse(x.value.func) == "self.transport_stream.send"):
                return True
        return False

    ctx.paths("R17-a", pump, [("ok", f"{res} = $F($*A)"), ("h", [lambda frag, node: node.kind == "except"]), ("aw", [other_await])], step_ok, "stale",
              lambda kind, st, facts: ("the pump returns although the last SSL call did not succeed (a handler ran since)" if kind == "return" and st != "fresh" else None),
              instance="the result is returned only after a successful call")
    # EOF on the transport is recorded and the call retried
    wr = H["SSLWantReadError"]
    inner = [t for t in own_walk(wr) if isinstance(t, ast.Try)]
    if ctx.need("R17-a", pump, "inner try around the transport read", len(inner), 1):
        it = inner[0]
        eh = [h for h in it.handlers if "EndOfStream" in handler_names(h)]
        if ctx.need("R17-a", pump, "`except EndOfStream` around the transport read", len(eh), 1):
            h = eh[0]
            ok = bool(find_all("self._read_bio.write_eof()", h)) and not any(isinstance(n, (ast.Raise, ast.Return, ast.Break)) for n in own_walk(h))
            ctx.ob("R17-a", pump, "end of the transport is recorded in the incoming BIO and the SSL call retried (OpenSSL decides clean vs. truncated)", ok, node=h,
                   detail="" if ok else "the EndOfStream handler does not write_eof() to the incoming BIO and fall through to the retry", by=("self._read_bio.write_eof()",))
        oh = [h for h in it.handlers if "OSError" in handler_names(h)]
        if ctx.need("R17-b", pump, "`except OSError` around the transport read", len(oh), 1):
            h = oh[0]
            ok = bool(find_all("raise BrokenResourceError from $E", h))
            ctx.ob("R17-b", pump, "an OS error of the transport is reported as BrokenResourceError", ok, node=h, detail="" if ok else "OSError is not mapped to BrokenResourceError", by=("raise BrokenResourceError",))
        # the feed is in the else clause (only when the read succeeded)
        feeds = find_all(f"self._read_bio.write({dv})", wr)
        okf = len(feeds) == 1 and any(feeds[0][0] is x for s_ in it.orelse for x in ast.walk(s_))
        ctx.ob("R17-a", pump, "exactly the bytes read are written to the incoming BIO, once", okf, node=it, detail="" if okf else f"`self._read_bio.write({dv})` is not the else clause of the transport read", by=("else: self._read_bio.write(data)",))

    # ---- R17-b error mapping -----------------------------------------------------------------------------------------------------------------------
    # shadowing: no handler is unreachable because an earlier one names a base class
    for t in [x for f in tls_funcs for x in own_walk(f.node) if isinstance(x, ast.Try)]:
        seen = []
        f = ctx.repo.func_of(t)
        for h in t.handlers:
            names = handler_names(h)
            for nm in names:
                sh = [p for p in seen if ctx.hier.is_sub(nm, p)]
                ctx.ob("R17-b", f, f"except {nm} is not shadowed by an earlier clause", not sh, node=h,
                       detail="" if not sh else f"`except {nm}` can never run: an earlier clause catches its base class {sh[0]}", by=("handler order vs. class hierarchy",))
            seen += names
    se = H["SSLError"]
    exn = se.name
    if ctx.need("R17-b", pump, "SSLError handler binds the exception", 1 if exn else 0, 1):
        eof_dnf_t = [["self.standard_compatible", f"isinstance({exn}, ssl.SSLEOFError)"], ["self.standard_compatible", f"'UNEXPECTED_EOF_WHILE_READING' in {exn}.strerror"]]
        eof_dnf_f = [["not self.standard_compatible", f"isinstance({exn}, ssl.SSLEOFError)"], ["not self.standard_compatible", f"'UNEXPECTED_EOF_WHILE_READING' in {exn}.strerror"]]
        br = find_all("raise BrokenResourceError from $E", se)
        eo = find_all("raise EndOfStream from None", se) + find_all("raise EndOfStream", se)
        ctx.ob("R17-b", pump, "the unexpected-EOF branch raises BrokenResourceError and EndOfStream", len(br) >= 1 and len(eo) == 1, node=se,
               detail="" if br and eo else f"found {len(br)} `raise BrokenResourceError` and {len(eo)} `raise EndOfStream` in the SSLError handler", by=("two raises",))
        # (a syscall error may be classified in this handler too when the two clauses are merged: `if isinstance(exc, SSLSyscallError): raise ...`)
        sysc = [[f"isinstance({exn}, ssl.SSLSyscallError)"]]
        for st, _ in br:
            ctx.require_at("R17-b", pump, st, eof_dnf_t + sysc, instance="truncation is a BrokenResourceError exactly when standard_compatible", what="raise BrokenResourceError", broad=True)
        n_trunc = sum(1 for st, _ in br if not (ctx.facts_at(pump, st, broad=True) and all((sysc[0][0], True) in fa for fa in ctx.facts_at(pump, st, broad=True))))
        ctx.ob("R17-b", pump, "a truncated stream is reported as BrokenResourceError when standard_compatible", n_trunc >= 1, node=se,
               detail="" if n_trunc else "no `raise BrokenResourceError` for the unexpected-EOF case", by=("raise BrokenResourceError from exc",))
        for st, _ in eo:
            ctx.require_at("R17-b", pump, st, eof_dnf_f, instance="truncation is a plain EndOfStream only when not standard_compatible", what="raise EndOfStream", broad=True)
        bare = [n for n in own_walk(se) if isinstance(n, ast.Raise) and n.exc is None]
        ctx.ob("R17-b", pump, "other SSL errors propagate unchanged", len(bare) == 1, node=se, detail="" if bare else "the SSLError handler has no bare `raise` for errors that are not an unexpected EOF", by=("raise",))
        for r in bare:
            fa = ctx.facts_at(pump, r, broad=True)
            ok = bool(fa) and all((f"isinstance({exn}, ssl.SSLEOFError)", False) in x for x in fa)
            ctx.ob("R17-b", pump, "the bare re-raise is reached only for errors that are not SSLEOFError", ok, node=r, detail="" if ok else "an SSLEOFError can reach the bare `raise` (truncation would surface as a raw ssl error / be misreported)",
                   by=("not isinstance(exc, ssl.SSLEOFError)",))
    sy = H.get("SSLSyscallError")
    if sy is not None:
        ok = bool(find_all("raise BrokenResourceError from $E", sy))
        ctx.ob("R17-b", pump, "an SSL syscall error is reported as BrokenResourceError", ok, node=sy, detail="" if ok else "SSLSyscallError is not mapped to BrokenResourceError", by=("raise BrokenResourceError",))
    else:
        # no clause of its own: the SSLError clause must single the syscall error out before anything lets it through
        exn_ = se.name or "exc"
        k_sys = f"isinstance({exn_}, ssl.SSLSyscallError)"
        hits = [st for st, _ in find_all("raise BrokenResourceError from $E", se)
                if ctx.facts_at(pump, st, broad=True) and all((k_sys, True) in fa for fa in ctx.facts_at(pump, st, broad=True))]
        ctx.ob("R17-b", pump, "an SSL syscall error is reported as BrokenResourceError", bool(hits), node=se,
               detail="" if hits else "neither an `except ssl.SSLSyscallError` clause nor an isinstance test in the SSLError clause maps it to BrokenResourceError", by=("isinstance guard",))
        for r in [n for n in own_walk(se) if isinstance(n, ast.Raise) and (n.exc is None or "BrokenResourceError" not in ast.unparse(n.exc))]:
            fa = ctx.facts_at(pump, r, broad=True)
            okr_ = bool(fa) and all((k_sys, False) in x for x in fa)
            ctx.ob("R17-b", pump, "a syscall error leaves the merged clause only as BrokenResourceError", okr_, node=r,
                   detail="" if okr_ else f"`{norm(r)}` is reachable for an SSLSyscallError", by=("not isinstance(exc, ssl.SSLSyscallError)",))
    for nm, h in (("SSLSyscallError", sy), ("SSLError", se)):
        if h is None:
            continue
        ok = bool(find_all("self._read_bio.write_eof()", h)) and bool(find_all("self._write_bio.write_eof()", h))
        ctx.ob("R17-b", pump, f"both BIOs are sealed on a fatal {nm} (later calls fail instead of hanging)", ok, node=h, detail="" if ok else f"the {nm} handler does not write_eof() both BIOs", by=("write_eof x2",))
    # the pump's verdict (EndOfStream / BrokenResourceError / SSL errors) is final: no other method of the stream re-maps it
    for q in ("wrap", "receive", "send", "unwrap", "aclose"):
        f = ctx.fn(f"TLSStream.{q}", TLS)
        for h in [x for x in own_walk(f.node) if isinstance(x, ast.ExceptHandler)]:
            names = handler_names(h)
            relevant = any(ctx.hier.is_sub(c_, nm) for nm in names for c_ in ("EndOfStream", "BrokenResourceError", "SSLError", "ClosedResourceError"))
            if not relevant:
                continue
            last = h.body[-1] if h.body else None
            ok = isinstance(last, ast.Raise) and last.exc is None and not any(isinstance(x, ast.Raise) and x.exc is not None for s_ in h.body for x in ast.walk(s_)) \
                and not any(isinstance(x, (ast.Return, ast.Continue, ast.Break)) for s_ in h.body for x in ast.walk(s_))
            ctx.ob("R17-b", f, f"TLSStream.{q} lets the pump's verdict through unchanged", ok, node=h,
                   detail="" if ok else f"`except {', '.join(names)}` in TLSStream.{q} swallows or re-maps an error that the pump has already classified "
                                        f"(e.g. a truncation reported as the wrong class)", by=("handler re-raises unchanged",))
    n_h = sum(1 for q in ("wrap", "receive", "send", "unwrap", "aclose") for x in own_walk(ctx.fn(f"TLSStream.{q}", TLS).node) if isinstance(x, ast.ExceptHandler))
    ctx.ob("R17-b", pump, "error classification happens in the pump only", True, detail=f"{n_h} handler(s) outside the pump inspected", by=(f"{n_h} handlers",))
    rcv = ctx.fn("TLSStream.receive", TLS)
    mb = rcv.node.args.args[1].arg
    rd = ctx.sites(rcv, f"$D = await self._call_sslobject_method(self._ssl_object.read, $N)")
    if ctx.need("R17-c", rcv, "`data = await self._call_sslobject_method(self._ssl_object.read, max_bytes)`", len(rd), 1):
        d = u(rd[0][1]["D"])
        ok = ast.unparse(rd[0][1]["N"]) == mb
        ctx.ob("R17-c", rcv, "max_bytes is forwarded to SSLObject.read (receive never returns more)", ok, node=rd[0][0], detail="" if ok else f"`{norm(rd[0][0])}` forwards another size", by=(mb,))
        eos = ctx.sites(rcv, "raise EndOfStream")
        if ctx.need("R17-b", rcv, "`raise EndOfStream` for an empty read", len(eos), 1):
            ctx.require_at("R17-b", rcv, eos[0][0], [[f"not {d}"]], instance="EndOfStream exactly when the SSL object reports a clean end (empty read)", what="raise EndOfStream")
        for r in [n for n in own_walk(rcv.node) if isinstance(n, ast.Return)]:
            okv = r.value is not None and ast.unparse(r.value) == d
            ctx.ob("R17-c", rcv, "receive returns the decrypted bytes as read", okv, node=r, detail="" if okv else f"`{norm(r)}`", by=(d,))
            ctx.require_at("R17-b", rcv, r, [[d]], instance="an empty read is never returned as data", what="return")
    validated_first(ctx, "R17-c", rcv, f"{mb} < 1", "max_bytes < 1 is rejected first")
    snd = ctx.fn("TLSStream.send", TLS)
    it = snd.node.args.args[1].arg
    dominates_all_exits(ctx, "R17-c", snd, f"await self._call_sslobject_method(self._ssl_object.write, {it})", "send writes the whole item through the pump")

    # ---- R17-c closing and wrapping --------------------------------------------------------------------------------------------------------------------
    ac = ctx.fn("TLSStream.aclose", TLS)

    def step_c(st, e, c):
        if e == "unwrap":
            return st | {"unwrap"} | ({"failed"} if c.is_exc else set())
        if e == "force":
            return st | {"force"}       # the attempt counts: aclose_forcefully closes under an already cancelled scope
        if c.is_exc:
            return st
        if e == "sc":
            return st | ({"sc"} if ("self.standard_compatible", True) in c.facts else {"nsc"})
        if e == "close":
            return st | {"close"}
        return st

    def at_exit_c(kind, st, facts):
        nsc = "nsc" in st
        if kind == "return":
            if "close" not in st:
                return "aclose returns without closing the transport"
            if nsc and "unwrap" in st:
                return "the closing handshake is performed although standard_compatible is false"
            if not nsc and "unwrap" not in st:
                return "standard_compatible: the transport is closed without the closing handshake (the peer sees a truncation)"
        else:
            if "failed" in st and "force" not in st:
                return "the closing handshake failed and the transport is left open"
        return None

    ctx.paths("R17-c", ac, [("sc", [lambda frag, node: node.kind == "test" and atom(node.node)[0] == "self.standard_compatible"]), ("unwrap", "await self.unwrap()"), ("force", "await aclose_forcefully(self.transport_stream)"), ("close", "await self.transport_stream.aclose()")],
              step_c, frozenset(), at_exit_c, instance="aclose: closing handshake iff standard_compatible, transport always closed", broad=True)
    for st_, _ in ctx.sites(ac, "await self.unwrap()"):
        ctx.require_at("R17-c", ac, stmt_of(st_), [["self.standard_compatible"]], instance="the closing handshake is attempted only when standard_compatible", what="unwrap")
    hs = [h for h in own_walk(ac.node) if isinstance(h, ast.ExceptHandler)]
    okh = any(h.type is not None and ast.unparse(h.type) == "BaseException" and any(isinstance(x, ast.Raise) and x.exc is None for x in h.body) for h in hs)
    ctx.ob("R17-c", ac, "a failed closing handshake is re-raised after force-closing (cancellation included)", okh, detail="" if okh else "aclose does not `except BaseException: ...; raise` around unwrap()", by=("except BaseException: raise",))
    uw = ctx.fn("TLSStream.unwrap", TLS)
    dominates_all_exits(ctx, "R17-c", uw, "await self._call_sslobject_method(self._ssl_object.unwrap)", "unwrap performs the closing handshake through the pump")
    wrap = ctx.fn("TLSStream.wrap", TLS)
    from .common import origin_of

    def _is_clear(x):
        """`ssl_context.options &= ~<the OP_IGNORE_UNEXPECTED_EOF flag>` - the flag named directly or fetched with getattr() into a local first"""
        if not (isinstance(x, ast.AugAssign) and isinstance(x.op, ast.BitAnd) and norm(x.target) == "ssl_context.options"
                and isinstance(x.value, ast.UnaryOp) and isinstance(x.value.op, ast.Invert)):
            return False
        o_ = norm(origin_of(wrap.node, x.value.operand))
        return o_ == "ssl.OP_IGNORE_UNEXPECTED_EOF" or (o_.startswith("getattr(ssl, 'OP_IGNORE_UNEXPECTED_EOF'"))

    clr = [(x, {}) for x in own_walk(wrap.node) if _is_clear(x)]
    if ctx.need("R17-c", wrap, "`ssl_context.options &= ~ssl.OP_IGNORE_UNEXPECTED_EOF`", len(clr), 1):
        ok = lexically_inside(clr[0][0], lambda x: isinstance(x, ast.If) and atom(x.test) == ("ssl_context", False), stop=wrap.node)
        ctx.ob("R17-c", wrap, "unexpected-EOF detection is re-enabled on the context wrap() creates itself", ok, node=clr[0][0],
               detail="" if ok else "the option is not cleared inside `if not ssl_context:`", by=("if not ssl_context",))
        mk = ctx.sites(wrap, "ssl_context = ssl.create_default_context($P)")
        okm = len(mk) == 1 and mk[0][0].lineno < clr[0][0].lineno
        ctx.ob("R17-c", wrap, "the option is cleared after the default context was created", okm, detail="" if okm else "create_default_context comes after the option was cleared (it would set it again)", by=("order",))
    hsk = ctx.sites(wrap, "await $W._call_sslobject_method($O.do_handshake)")
    rts = [n for n in own_walk(wrap.node) if isinstance(n, ast.Return)]
    okk = len(hsk) == 1 and len(rts) == 1 and hsk[0][0].lineno < rts[0].lineno and ast.unparse(rts[0].value) == u(hsk[0][1]["W"])
    ctx.ob("R17-c", wrap, "wrap() completes the handshake through the pump before handing out the stream", okk, detail="" if okk else "no `await wrapper._call_sslobject_method(ssl_object.do_handshake)` before `return wrapper`", by=("do_handshake",))
    wb = ctx.sites(wrap, "$O = ssl_context.wrap_bio($I, $OUT, $*A)")
    ctor = [n for n in own_walk(wrap.node) if isinstance(n, ast.Call) and getattr(n.func, "id", "") == "cls"]
    if ctx.need("R17-c", wrap, "`ssl_context.wrap_bio(bio_in, bio_out, ...)` and `cls(...)`", min(len(wb), len(ctor)), 1):
        kws = {k.arg: ast.unparse(k.value) for k in ctor[0].keywords}
        ok = kws.get("_read_bio") == u(wb[0][1]["I"]) and kws.get("_write_bio") == u(wb[0][1]["OUT"]) and kws.get("_ssl_object") == u(wb[0][1]["O"]) \
            and kws.get("standard_compatible") == "standard_compatible" and kws.get("transport_stream") == "transport_stream"
        ctx.ob("R17-c", wrap, "the stream is built on the same incoming/outgoing BIOs the SSL object was wrapped around", ok, node=stmt_of(ctor[0]),
               detail="" if ok else f"cls(...) receives {kws}; wrap_bio was given incoming={u(wb[0][1]['I'])}, outgoing={u(wb[0][1]['OUT'])}", by=("_read_bio=bio_in, _write_bio=bio_out",))
        thr = [n for n in own_walk(wrap.node) if isinstance(n, ast.Call) and ast.unparse(n.func) == "to_thread.run_sync" and n.args and ast.unparse(n.args[0]) == "ssl_context.wrap_bio"]
        for n in thr:
            ok2 = len(n.args) >= 3 and ast.unparse(n.args[1]) == u(wb[0][1]["I"]) and ast.unparse(n.args[2]) == u(wb[0][1]["OUT"])
            ctx.ob("R17-c", wrap, "the threaded wrap_bio call uses the same BIO order", ok2, node=stmt_of(n), detail="" if ok2 else f"`{norm(stmt_of(n))}`", by=("bio_in, bio_out",))

    # ---- R17-d the convenience wrappers hand their configuration to wrap() unchanged ---------------------------------------------------
    # who may touch the settings of an SSL context: only wrap(), on the context it created itself, and only to *clear* the "ignore
    # unexpected EOF" option.  A context handed in by the user is shared property (other listeners and streams are built on it): setting
    # the option there turns truncation into a clean end of stream for every standard-compatible stream created from it later.
    n_opt = 0
    for rel_, tree_ in ctx.repo.non_trio_modules().items():
        if not rel_.endswith(TLS):
            continue
        for x in ast.walk(tree_):
            tgt = x.target if isinstance(x, (ast.AugAssign, ast.AnnAssign)) else (x.targets[0] if isinstance(x, ast.Assign) and len(x.targets) == 1 else None)
            if isinstance(tgt, ast.Attribute) and tgt.attr in ("options", "verify_mode", "check_hostname", "minimum_version", "maximum_version"):
                n_opt += 1
                fo = ctx.repo.func_of(x)
                ok = fo is wrap and any(x is s_ for s_, _ in clr)
                ctx.ob("R17-c", fo if fo is not None else wrap, "the only write to an SSL context's settings is wrap() clearing OP_IGNORE_UNEXPECTED_EOF on its own default context",
                       ok, node=x, by=(norm(x),),
                       detail="" if ok else f"`{norm(x)}` in {fo.qual if fo else '<module>'} changes an SSL context (possibly the caller's, shared with other streams): "
                                            "truncation handling of unrelated streams changes with it")
    hw = ctx.fn("TLSListener.serve.handler_wrapper", TLS)
    cn = ctx.fn("TLSConnectable.connect", TLS)
    for f, need in ((hw, {"ssl_context": "self.ssl_context", "standard_compatible": "self.standard_compatible"}),
                    (cn, {"hostname": "self.hostname", "ssl_context": "self.ssl_context", "standard_compatible": "self.standard_compatible"})):
        wc = [n for n in own_walk(f.node) if isinstance(n, ast.Call) and ast.unparse(n.func) == "TLSStream.wrap"]
        if ctx.need("R17-d", f, "`TLSStream.wrap(...)`", len(wc), 1):
            kws = {k.arg: ast.unparse(k.value) for k in wc[0].keywords}
            miss = {k: v for k, v in need.items() if kws.get(k) != v}
            ctx.ob("R17-d", f, f"{f.qual} passes {sorted(need)} on to TLSStream.wrap", not miss, node=stmt_of(wc[0]),
                   detail="" if not miss else f"`{norm(stmt_of(wc[0]))}` does not forward {miss}: the stream would silently use wrap()'s defaults "
                                              f"(e.g. report a truncation with the wrong error class)", by=tuple(f"{k}={v}" for k, v in need.items()))
            extra = {k: v for k, v in kws.items() if k not in need and k not in ("server_side",)}
            ctx.ob("R17-d", f, f"{f.qual} adds nothing of its own to the wrap() call", not extra, node=stmt_of(wc[0]), detail="" if not extra else f"unexpected arguments {extra}", by=("no extra kwargs",))
    for q, attrs in (("TLSConnectable.__init__", ("hostname", "standard_compatible")),):
        f = ctx.fn(q, TLS)
        for a in attrs:
            okk = len(ctx.sites(f, f"self.{a} = {a}")) == 1
            ctx.ob("R17-d", f, f"{q} keeps `{a}` as given", okk, detail="" if okk else f"no `self.{a} = {a}`", by=(f"self.{a} = {a}",))
    from .common import iteration_protocol
    iteration_protocol(ctx, "R17-d", "ByteReceiveStream")
