"""C15 — BlockingPortal: every cross-thread call is run once, answered and joined."""
from __future__ import annotations

import ast

from sa.engine.cfg import call_name
from sa.engine.facts import Bad, F
from sa.engine.pattern import u, find_all
from sa.engine.source import norm, own_walk, stmt_of, AnalysisError
from .common import A, lexically_inside, enclosing, dominates_all_exits, block_head
from .c14 import loop_entry_points

EXPLANATION = ("BlockingPortal: the per-call wrapper calls the callable exactly once and resolves the caller's future exactly once on every "
               "exit (result, exception, or cancelled), with the awaited value / the caught exception itself; the awaitable runs inside a "
               "cancel scope whose cancellation is wired to the future's cancellation before the await; base exceptions are re-raised after "
               "being reported; new calls are refused once the portal is stopped (the running check dominates every spawn) and stop() clears "
               "the running marker, sets the stop event and cancels the group on request; every spawned call is a child of the portal's own "
               "task group, marshalled into the loop thread; leaving the portal joins that group after stop(); start_blocking_portal stops the "
               "portal (cancelling on error) and joins the thread on every exit; start_task forwards cancellation / failure / missing "
               "started() to the status future only while it is unresolved; the loop-side entry points resolve their future on every path."
               " BlockingPortalProvider: leases are counted under the lock, the portal is shut down gracefully outside the lock, and the provider forgets it in the same locked section that returned the last lease.")
NOT_DECIDED = "Interleavings of several real threads with the loop and with stop(); concurrent.futures.Future and threading are trusted."

FT = "from_thread.py"


def spawn_calls(f):
    """the marshalled spawn of the portal, in its inlined form (core.INLINE_ALWAYS): `run_sync(<start_soon of the portal's group>,
    self._call_func, func, args, kwargs, future, token=self._token)`"""
    return [n for n in own_walk(f.node) if isinstance(n, ast.Call) and call_name(n) == "run_sync" and len(n.args) >= 2
            and ast.unparse(n.args[1]) == "self._call_func"]


def check(ctx):
    cf = ctx.fn("BlockingPortal._call_func", FT)
    fn = cf.node
    params = [a.arg for a in fn.args.args]
    if len(params) != 5:
        raise AnalysisError(f"R15: BlockingPortal._call_func parameters changed: {params}")
    _, p_func, p_args, p_kwargs, p_fut = params

    # ---- R15-a every call is run once and answered -------------------------------------------------------------------------------------
    callpat = f"{p_func}(*{p_args}, **{p_kwargs})"
    calls = ctx.sites(cf, callpat)
    ctx.need("R15-a", cf, f"the call `{callpat}`", len(calls), 1)

    def step(st, e, c):
        ncall, nres = st
        if e == "call":
            # the call is counted even if it raises: it was made
            return (min(ncall + 1, 3), nres)
        if c.is_exc:
            return st
        if e in ("sr", "se", "cn"):
            return (ncall, min(nres + 1, 3))
        return st

    def at_exit(kind, st, facts):
        ncall, nres = st
        canc = (f"{p_fut}.cancelled()", True) in facts
        if ncall != 1:
            return f"the callable is invoked {ncall} times on a path leaving by {kind}"
        if nres > 1:
            return f"the caller's future is resolved {nres} times on a path leaving by {kind} (InvalidStateError / wrong outcome)"
        if nres == 0 and not canc:
            return f"a path leaves by {kind} without resolving the caller's future and without it being cancelled: the calling thread waits forever"
        return None

    ctx.paths("R15-a", cf, [("call", callpat), ("sr", f"{p_fut}.set_result($X)"), ("se", f"{p_fut}.set_exception($X)"),
                            ("cn", f"{p_fut}.set_running_or_notify_cancel()")], step, (0, 0), at_exit,
              instance="callable invoked once, future resolved exactly once on every exit", broad=True)
    # the value / exception delivered
    aws = [n for n in own_walk(fn) if isinstance(n, ast.Await)]
    ctx.need("R15-a", cf, "await of the returned awaitable", len(aws), 1)
    rv = ctx.sites(cf, f"$R = {callpat}")
    if ctx.need("R15-a", cf, "`retval_or_awaitable = func(*args, **kwargs)`", len(rv), 1):
        r0 = u(rv[0][1]["R"])
        srs = ctx.sites(cf, f"{p_fut}.set_result($X)")
        for st, env in srs:
            x = env["X"]
            defs = [n for n in own_walk(fn) if (isinstance(n, ast.Assign) and len(n.targets) == 1 and getattr(n.targets[0], "id", None) == getattr(x, "id", "?"))
                    or (isinstance(n, ast.AnnAssign) and n.value is not None and getattr(n.target, "id", None) == getattr(x, "id", "?"))]
            vals = sorted(ast.unparse(d.value) for d in defs)
            ok = vals == sorted([f"await {r0}", r0])
            if not ok and getattr(x, "id", None) == r0:
                # one variable for both stages: `retval = func(...)`, then `retval = await retval` if it is awaitable
                ok = len(defs) == 2 and any(d is stmt_of(rv[0][0]) or d.value is rv[0][0] for d in defs) and f"await {r0}" in vals
            ctx.ob("R15-a", cf, "the result delivered is the callable's return value, awaited if awaitable", ok, node=st,
                   detail="" if ok else f"`{norm(st)}` delivers a value defined as {vals}", by=tuple(vals))
            ctx.require_at("R15-a", cf, st, [[f"not {p_fut}.cancelled()"]], instance="a result is set only on a future that was not cancelled", what="set_result", broad=True)
        for aw in aws:
            ok = ast.unparse(aw.value) == r0 and lexically_inside(aw, lambda x: isinstance(x, ast.If) and "isawaitable" in ast.unparse(x.test), stop=fn)
            ctx.ob("R15-a", cf, "what is awaited is the callable's own return value, when it is awaitable", ok, node=stmt_of(aw),
                   detail="" if ok else f"`{norm(stmt_of(aw))}`", by=("isawaitable(retval_or_awaitable)",))
    ses = ctx.sites(cf, f"{p_fut}.set_exception($X)")
    from sa.engine.core import _may_fall_through
    covered = set()
    for st, env in ses:
        h = enclosing(st, (ast.ExceptHandler,), stop=fn)
        ht = ast.unparse(h.type) if h is not None and h.type is not None else None
        # (one `except BaseException` clause, or an `except Exception` clause followed by one for the remaining base exceptions)
        ok = ht in ("BaseException", "Exception") and getattr(env["X"], "id", None) == h.name
        covered.add(ht)
        ctx.ob("R15-a", cf, "the exception delivered is the one the callable raised (any BaseException)", ok, node=st,
               detail="" if ok else f"`{norm(st)}` is not `except BaseException as e: future.set_exception(e)`", by=("except BaseException as exc",))
        ctx.require_at("R15-a", cf, st, [[f"not {p_fut}.cancelled()"]], instance="an exception is set only on a future that was not cancelled", what="set_exception", broad=True)
        if h is not None:
            tr_ = getattr(h, "_parent", None)
            earlier = [ast.unparse(x.type) for x in tr_.handlers[:tr_.handlers.index(h)] if x.type is not None] if isinstance(tr_, ast.Try) and h in tr_.handlers else []
            rr = [n for n in own_walk(h) if isinstance(n, ast.Raise) and n.exc is None]
            if ht == "Exception":
                okr = not [n for n in own_walk(h) if isinstance(n, ast.Raise)]
                what_ = "an ordinary exception is reported to the caller only (not re-raised into the portal's task group)"
            elif "Exception" in earlier:
                # this clause only ever sees non-Exception base exceptions: it re-raises on every path
                okr = bool(rr) and not _may_fall_through(h.body) and not [n for n in own_walk(h) if isinstance(n, ast.Return)]
                what_ = "non-Exception base exceptions are re-raised after being reported"
            else:
                okr = False
                for r in rr:
                    fa = ctx.facts_at(cf, r, broad=True)
                    okr = bool(fa) and all((f"isinstance({h.name}, Exception)", False) in x for x in fa)
                what_ = "non-Exception base exceptions are re-raised after being reported"
            ctx.ob("R15-a", cf, what_, okr, node=h,
                   detail="" if okr else "the BaseException handler does not re-raise exactly when the exception is not an Exception", by=("if not isinstance(exc, Exception): raise",))
    ctx.ob("R15-a", cf, "every exception of the callable reaches the caller's future (a clause for BaseException reports it)", "BaseException" in covered,
           detail="" if "BaseException" in covered else "no `except BaseException` clause calls future.set_exception: a base exception of the callable leaves the caller waiting for ever",
           by=("except BaseException",))
    # cancellation of the task -> future cancelled
    hs = [h for h in own_walk(fn) if isinstance(h, ast.ExceptHandler)]
    ch = [h for h in hs if h.type is not None and "get_cancelled_exc_class" in ast.unparse(h.type)]
    if ctx.need("R15-a", cf, "handler for the cancellation exception", len(ch), 1):
        h = ch[0]
        a = find_all(f"{p_fut}.cancel()", h)
        b = find_all(f"{p_fut}.set_running_or_notify_cancel()", h)
        ok = len(a) == 1 and len(b) == 1 and a[0][0].lineno < b[0][0].lineno
        ctx.ob("R15-a", cf, "a cancelled task cancels the caller's future and notifies its waiters", ok, node=h,
               detail="" if ok else "the cancellation handler does not do future.cancel() then future.set_running_or_notify_cancel()", by=("cancel(); set_running_or_notify_cancel()",))
        tr = h._parent
        oki = tr.handlers.index(h) < min([tr.handlers.index(x) for x in tr.handlers if x.type is not None and ast.unparse(x.type) == "BaseException"] or [99])
        ctx.ob("R15-a", cf, "the cancellation handler precedes the BaseException handler", oki, node=h,
               detail="" if oki else "`except BaseException` shadows the cancellation handler: a cancelled task would report CancelledError as a failure", by=("handler order",))
    # the scope and its wiring to the future
    ws = [n for n in own_walk(fn) if isinstance(n, ast.With) and any(isinstance(i.context_expr, ast.Call) and call_name(i.context_expr) == "CancelScope" for i in n.items)]
    if ctx.need("R15-a", cf, "`with CancelScope() as scope` around the await", len(ws), 1):
        w = ws[0]
        sname = getattr(w.items[0].optional_vars, "id", None)
        c = w.items[0].context_expr
        oksh = not any(k.arg == "shield" and not (isinstance(k.value, ast.Constant) and k.value.value is False) for k in c.keywords)
        ctx.ob("R15-a", cf, "the per-call scope is not shielded (cancel_remaining / portal shutdown must reach the task)", oksh, node=w,
               detail="" if oksh else "the per-call cancel scope is shielded", by=("CancelScope()",))
        for aw in aws:
            ok = lexically_inside(aw, lambda x: x is w, stop=fn)
            ctx.ob("R15-a", cf, "the awaitable is awaited inside the per-call cancel scope", ok, node=stmt_of(aw), detail="" if ok else "the await is outside the scope", by=("inside with CancelScope()",))
        reg = ctx.sites(cf, f"{p_fut}.add_done_callback($CB)")
        okreg = len(reg) == 1 and lexically_inside(reg[0][0], lambda x: x is w, stop=fn) and all(reg[0][0].lineno < aw.lineno for aw in aws)
        ctx.ob("R15-a", cf, "the future's done-callback is registered inside the scope, before the await", okreg, node=reg[0][0] if reg else w,
               detail="" if okreg else "future.add_done_callback(callback) is missing, outside the scope or after the await: cancelling the future would not cancel the task",
               by=("add_done_callback before await",))
        if reg and sname:
            cbname = u(reg[0][1]["CB"])
            cb = ctx.fn(f"BlockingPortal._call_func.{cbname}", FT)
            cparam = cb.node.args.args[0].arg
            tid = ctx.sites(cf, "$V = self._event_loop_thread_id")
            TID = u(tid[0][1]["V"]) if tid else "event_loop_thread_id"
            ctx.ob("R15-a", cf, "the loop thread id is captured when the call starts (stop() clears the attribute)", len(tid) == 1,
                   detail="" if tid else "no `event_loop_thread_id = self._event_loop_thread_id` in _call_func", by=("captured thread id",))
            cancels = ctx.sites(cb, f"{sname}.cancel($*A)")
            viars = [n for n in own_walk(cb.node) if isinstance(n, ast.Call) and call_name(n) == "run_sync" and n.args and ast.unparse(n.args[0]) == f"{sname}.cancel"]
            ctx.ob("R15-a", cb, "the callback cancels exactly this call's scope (directly in the loop thread, marshalled otherwise)", len(cancels) == 1 and len(viars) == 1,
                   detail="" if cancels and viars else f"callback cancels: direct {len(cancels)}, via run_sync {len(viars)}", by=(f"{sname}.cancel",))
            for st, _ in cancels:
                ctx.require_at("R15-a", cb, st, [[f"{cparam}.cancelled()", f"{TID} == get_ident()"]], instance="direct cancel only for a cancelled future, in the loop thread",
                               what="scope.cancel")
            for v in viars:
                ctx.require_at("R15-a", cb, stmt_of(v), [[f"{cparam}.cancelled()", f"not {TID} == get_ident()", f"not {TID} is None"]],
                               instance="marshalled cancel only for a cancelled future, from a foreign thread, while the portal runs", what="run_sync(scope.cancel)")
                tok = any(k.arg == "token" and ast.unparse(k.value) == "self._token" for k in v.keywords)
                ctx.ob("R15-a", cb, "the marshalled cancel goes to the portal's own event loop", tok, node=stmt_of(v), detail="" if tok else "run_sync(scope.cancel, ...) without token=self._token",
                       by=("token=self._token",))

    # ---- R15-b refusal after stop ---------------------------------------------------------------------------------------------------------------
    for q in ("BlockingPortal.start_task_soon", "BlockingPortal.start_task"):
        cands = [f for f in ctx.repo.funcs.get(q, []) if f.module.endswith(FT) and not any(isinstance(d, ast.Name) and d.id == "overload" for d in f.node.decorator_list)]
        if len(cands) != 1:
            raise AnalysisError(f"R15-b: {q}: {len(cands)} non-overload definitions")
        f = cands[0]
        ctx.stats["functions"].add(q)

        def step_b(st, e, c):
            if e == "chk":
                return True
            if e == "spawn" and not st:
                return Bad("a task is spawned without first checking that the portal is still running")
            return st

        def at_exit_b(kind, st, facts):
            if kind == "return" and not st:
                return "returns without having checked that the portal is running"
            return None

        spc = spawn_calls(f)
        spids = {id(x) for x in spc}
        ctx.paths("R15-b", f, [("chk", "self._check_running()"),
                               ("spawn", [lambda frag, node, ids=spids: frag is not None and any(id(x) in ids for x in [frag] + list(own_walk(frag)))])],
                  step_b, False, at_exit_b, instance=f"{q}: running check dominates the spawn")
        sp = [(x, {}) for x in spc]
        ctx.need("R15-b", f, "the spawn `run_sync(..., self._call_func, func, args, kwargs, future, token=self._token)`", len(sp), 1)
        for st, _ in sp:
            a = st.args[2:]
            a = [a[0], a[1], a[2], None, a[3]] if len(a) == 4 else []          # (func, args, kwargs, -, future)
            fparams = f.node.args
            okf = len(a) == 5 and ast.unparse(a[0]) == fparams.args[1].arg and ast.unparse(a[1]) == fparams.vararg.arg and isinstance(a[4], ast.Name)
            ctx.ob("R15-b", f, "the spawn forwards func, args and the future that is handed back to the caller", okf, node=stmt_of(st),
                   detail="" if okf else f"`{norm(stmt_of(st))}`", by=("func, args, {}, name, f",))
            if okf:
                fut = a[4].id
                rets = [n for n in own_walk(f.node) if isinstance(n, ast.Return) and n.value is not None]
                okr = len(rets) == 1 and fut in {x.id for x in ast.walk(rets[0].value) if isinstance(x, ast.Name)}
                ctx.ob("R15-b", f, "the future returned to the caller is the one given to the spawned call", okr, detail="" if okr else "another future is returned", by=(fut,))
    callf = [f for f in ctx.repo.funcs.get("BlockingPortal.call", []) if f.module.endswith(FT) and not any(isinstance(d, ast.Name) and d.id == "overload" for d in f.node.decorator_list)]
    if len(callf) != 1:
        raise AnalysisError("R15-b: BlockingPortal.call not found")
    s = find_all("self.start_task_soon(func, *args).result()", callf[0].node)
    ctx.ob("R15-b", callf[0], "call() is start_task_soon(func, *args).result()", len(s) == 1, detail="" if s else "BlockingPortal.call no longer delegates to start_task_soon().result()", by=("delegation",))
    chk = ctx.fn("BlockingPortal._check_running", FT)
    rz = ctx.sites(chk, "raise RuntimeError($*A)")
    ctx.need("R15-b", chk, "RuntimeError raises in _check_running", len(rz), 1)
    same_thread = F("self._event_loop_thread_id == get_ident()")

    def at_exit_chk(kind, st, facts):
        if kind == "return" and ("self._event_loop_thread_id is None", False) not in facts:
            return "_check_running returns normally without having established that the portal is running"
        if kind == "return" and (same_thread[0], not same_thread[1]) not in facts:
            return "_check_running returns normally without having excluded a call from the event loop thread itself (it would deadlock waiting for its own loop)"
        return None

    ctx.paths("R15-b", chk, [], lambda st, e, c: st, 0, at_exit_chk, instance="_check_running passes only a running portal")
    stop = ctx.fn("BlockingPortal.stop", FT)
    dominates_all_exits(ctx, "R15-b", stop, "self._event_loop_thread_id = None", "stop() marks the portal as not running")
    dominates_all_exits(ctx, "R15-b", stop, "self._stop_event.set()", "stop() sets the stop event")
    cparam = stop.node.args.args[1].arg
    cs = ctx.sites(stop, "self._task_group.cancel_scope.cancel($*A)")
    if ctx.need("R15-b", stop, "`self._task_group.cancel_scope.cancel(...)`", len(cs), 1):
        ctx.require_at("R15-b", stop, cs[0][0], [[cparam]], instance="remaining tasks are cancelled only on request")

        def step_s(st, e, c):
            return True if not c.is_exc else st

        def at_exit_s(kind, st, facts):
            if kind == "return" and not st and (cparam, False) not in facts:
                return "cancel_remaining was requested but the group's scope is not cancelled"
            return None

        ctx.paths("R15-b", stop, [("c", "self._task_group.cancel_scope.cancel($*A)")], step_s, False, at_exit_s, instance="cancel_remaining cancels the group")
    ws_ = ctx.writers("_event_loop_thread_id", modules=[FT])
    bad = [w for w in ws_ if w[0] is None or w[0].qual not in ("BlockingPortal.__init__", "BlockingPortal.stop")]
    ctx.ob("R15-b", stop, "the running marker is written only by __init__ and stop()", not bad, detail="" if not bad else f"also written in {[w[0].qual if w[0] else '<module>' for w in bad]}",
           by=("writer table",))

    # ---- R15-c tasks belong to the portal's group -------------------------------------------------------------------------------------------------
    n_sp = 0
    for q in ("BlockingPortal.start_task_soon", "BlockingPortal.start_task"):
        cands = [f for f in ctx.repo.funcs.get(q, []) if f.module.endswith(FT) and not any(isinstance(d, ast.Name) and d.id == "overload" for d in f.node.decorator_list)]
        for f_ in cands:
            for c in spawn_calls(f_):
                n_sp += 1
                a0 = ast.unparse(c.args[0]).replace(" ", "")
                ok0 = a0.startswith("partial(self._task_group.start_soon,name=") or a0 == "self._task_group.start_soon"
                tok = any(k.arg == "token" and ast.unparse(k.value) == "self._token" for k in c.keywords)
                ctx.ob("R15-c", f_, "the call wrapper is started in the portal's own task group", ok0, node=stmt_of(c), detail="" if ok0 else f"first argument is `{a0}`", by=("self._task_group.start_soon",))
                fp_ = f_.node.args
                ok1 = len(c.args) == 6 and ast.unparse(c.args[2]) == fp_.args[1].arg and fp_.vararg is not None and ast.unparse(c.args[3]) == fp_.vararg.arg \
                    and isinstance(c.args[4], ast.Dict) and isinstance(c.args[5], ast.Name)
                ctx.ob("R15-c", f_, "the wrapper receives (func, args, kwargs, future) in that order", ok1, node=stmt_of(c),
                       detail="" if ok1 else f"arguments are {[ast.unparse(x) for x in c.args[1:]]}", by=("self._call_func, func, args, kwargs, future",))
                ctx.ob("R15-c", f_, "the spawn is marshalled into the portal's event loop", tok, node=stmt_of(c), detail="" if tok else "run_sync without token=self._token", by=("token=self._token",))
    ctx.need("R15-c", ctx.fn("BlockingPortal.__init__", FT), "`run_sync(...)` marshalling the spawn into the loop thread (start_task_soon, start_task)", n_sp, 2)
    init = ctx.fn("BlockingPortal.__init__", FT)
    s = ctx.sites(init, "self._task_group = create_task_group()")
    ctx.ob("R15-c", init, "one task group per portal", len(s) == 1, detail="" if s else "no `self._task_group = create_task_group()`", by=("create_task_group()",))
    wtg = [w for w in ctx.writers("_task_group", modules=[FT]) if not (w[0] is not None and w[0].qual == "BlockingPortal.__init__")]
    ctx.ob("R15-c", init, "the portal's task group is never replaced", not wtg, detail="" if not wtg else "another writer of _task_group", by=("writer table",))

    # ---- R15-d join on exit ------------------------------------------------------------------------------------------------------------------------
    ax = ctx.fn("BlockingPortal.__aexit__", FT)
    ae = ctx.fn("BlockingPortal.__aenter__", FT)
    dominates_all_exits(ctx, "R15-d", ae, "await self._task_group.__aenter__()", "entering the portal enters its task group")

    def step_d(st, e, c):
        if c.is_exc:
            return st
        if e == "stop":
            return st | {"stop"}
        if e == "join":
            if "stop" not in st:
                return Bad("the task group is joined before the portal was stopped (new calls could still be accepted while exiting)")
            return st | {"join"}
        return st

    def at_exit_d(kind, st, facts):
        if kind == "return" and st != {"stop", "join"}:
            return f"the portal's exit completes without {sorted({'stop', 'join'} - set(st))}"
        return None

    xp = [a.arg for a in ax.node.args.args][1:]
    ctx.paths("R15-d", ax, [("stop", "await self.stop()"), ("join", f"await self._task_group.__aexit__({', '.join(xp)})")], step_d, frozenset(), at_exit_d,
              instance="__aexit__: stop, then join the task group")
    rets = [n for n in own_walk(ax.node) if isinstance(n, ast.Return)]
    okr = len(rets) == 1 and rets[0].value is not None and "self._task_group.__aexit__" in ast.unparse(rets[0].value)
    ctx.ob("R15-d", ax, "the exit returns the task group's verdict", okr, detail="" if okr else "BlockingPortal.__aexit__ does not return the group's __aexit__ result", by=("return await self._task_group.__aexit__(...)",))
    sbp = ctx.fn("start_blocking_portal", FT)
    g = sbp.node
    tstart = ctx.sites(sbp, "$T.start()")
    if ctx.need("R15-d", sbp, "`thread.start()`", len(tstart), 1):
        tname = u(tstart[0][1]["T"])
        joins = ctx.sites(sbp, f"{tname}.join()")
        okj = False
        if len(joins) == 1:
            j = stmt_of(joins[0][0])
            tr = j._parent
            okj = isinstance(tr, ast.Try) and j in tr.finalbody and tr in g.body and g.body.index(tr) == g.body.index(stmt_of(tstart[0][0])) + 1
        ctx.ob("R15-d", sbp, "the loop thread is joined on every exit after it was started", okj,
               detail="" if okj else "`thread.join()` is not in the `finally` of a try that directly follows thread.start(): an exception can leave the thread running", by=("try/finally: thread.join()",))
        # stop call in finally, flag on the exception path
        stops = [n for n in own_walk(g) if isinstance(n, ast.Call) and ast.unparse(n.func).endswith(".call") and n.args and ast.unparse(n.args[0]).endswith(".stop")]
        if ctx.need("R15-d", sbp, "`portal.call(portal.stop, cancel_remaining_tasks)`", len(stops), 1):
            st = stmt_of(stops[0])
            infinal = lexically_inside(st, lambda x: isinstance(x, ast.Try) and any(st is y or st in list(ast.walk(y)) for y in x.finalbody), stop=g)
            ctx.ob("R15-d", sbp, "the portal is stopped on every exit of the with-block", infinal, node=st, detail="" if infinal else "portal.stop is not called from a finally block", by=("finally",))
            flag = ast.unparse(stops[0].args[1]) if len(stops[0].args) > 1 else None
            if ctx.need("R15-d", sbp, "cancel_remaining flag passed to stop", 1 if flag else 0, 1):
                sets = ctx.sites(sbp, f"{flag} = True")
                oks = len(sets) == 1 and isinstance(enclosing(sets[0][0], (ast.ExceptHandler,), stop=g), ast.ExceptHandler) and \
                    ast.unparse(enclosing(sets[0][0], (ast.ExceptHandler,), stop=g).type or ast.Name(id="BaseException")) == "BaseException"
                ctx.ob("R15-d", sbp, "remaining tasks are cancelled exactly when the block failed", oks, detail="" if oks else f"`{flag} = True` is not set in `except BaseException`", by=("except BaseException: flag = True",))
                h = enclosing(sets[0][0], (ast.ExceptHandler,), stop=g) if sets else None
                okrr = h is not None and any(isinstance(x, ast.Raise) and x.exc is None for x in h.body)
                ctx.ob("R15-d", sbp, "the block's exception is re-raised", okrr, detail="" if okrr else "the exception of the with-block is swallowed", by=("raise",))
                init0 = ctx.sites(sbp, f"{flag} = False")
                ctx.ob("R15-d", sbp, "the flag starts false", len(init0) == 1, detail="" if init0 else f"no `{flag} = False`", by=(f"{flag} = False",))
    rp = ctx.fn("start_blocking_portal.run_portal", FT)
    okp = any(isinstance(n, ast.AsyncWith) and "BlockingPortal()" in ast.unparse(n.items[0].context_expr) for n in own_walk(rp.node))
    ctx.ob("R15-d", rp, "the portal runs inside `async with BlockingPortal()` (its exit joins the calls)", okp, detail="" if okp else "run_portal does not use the portal as an async context manager", by=("async with BlockingPortal()",))
    dominates_all_exits(ctx, "R15-d", rp, "await $P.sleep_until_stopped()", "the portal task sleeps until stop() is called")
    sus = ctx.fn("BlockingPortal.sleep_until_stopped", FT)
    dominates_all_exits(ctx, "R15-d", sus, "await self._stop_event.wait()", "sleep_until_stopped waits for the stop event")

    # ---- R15-e start_task handshake ------------------------------------------------------------------------------------------------------------------
    st_f = [f for f in ctx.repo.funcs.get("BlockingPortal.start_task", []) if f.module.endswith(FT)][0]
    td = ctx.fn("BlockingPortal.start_task.task_done", FT)
    tdp = [a_.arg for a_ in td.node.args.args if a_.arg != "self"]
    # the done-callback gets the finished task's future as its (last) argument; the status future is a captured variable of the
    # closure - or, when the callback was moved out of start_task and is bound with functools.partial, a leading parameter
    tparam = tdp[-1]
    sfut = "task_status_future"
    sfut_st = None          # the name of the status future inside start_task itself
    if len(tdp) > 1:
        lead = [p_ for p_ in tdp[:-1] if ctx.sites(td, f"{p_}.cancel()") or ctx.sites(td, f"{p_}.set_exception($X)")]
        sfut = (lead or tdp[:1])[0]
    else:
        names = {x.id for x in ast.walk(td.node) if isinstance(x, ast.Name)}
        cand = [n for n in names if ctx.sites(st_f, f"{n} = Future()") or ctx.sites(st_f, f"{n}: Future = Future()")]
        cand = [n for n in cand if n != tparam]
        if cand:
            sfut = sorted(cand)[0]
        sfut_st = sfut

    def step_e(st, e, c):
        if c.is_exc:
            return st
        return min(st + 1, 2)

    def at_exit_e(kind, st, facts):
        if kind != "return":
            return None
        done = (f"{sfut}.done()", True) in facts
        if done and st:
            return "the status future is touched although it is already resolved (started() was called)"
        if not done and st != 1:
            return f"an unresolved status future gets {st} outcomes when the task ends (the thread in start_task() waits forever)"
        return None

    ctx.paths("R15-e", td, [("r", [f"{sfut}.cancel()", f"{sfut}.set_exception($X)"])], step_e, 0, at_exit_e, instance="task_done resolves an unresolved status future exactly once")
    for s_, _ in ctx.sites(td, f"{sfut}.cancel()"):
        ctx.require_at("R15-e", td, s_, [[f"{tparam}.cancelled()"]], instance="the status future is cancelled only if the task's future was cancelled")
    for s_, _ in ctx.sites(td, f"{sfut}.cancel()") + ctx.sites(td, f"{sfut}.set_exception($X)"):
        ctx.require_at("R15-e", td, s_, [[f"not {sfut}.done()"]], instance="the status future is resolved by the done-callback only while unresolved (after started() it must stay untouched)")
    se2 = ctx.sites(td, f"{sfut}.set_exception({tparam}.exception())")
    ctx.ob("R15-e", td, "a task that failed before started() forwards its own exception", len(se2) == 1, detail="" if se2 else "the task's exception is not forwarded to the status future",
           by=("set_exception(future.exception())",))
    for s_, _ in se2:
        ctx.require_at("R15-e", td, s_, [[f"not {tparam}.cancelled()", f"{tparam}.exception()"]], instance="forwarded only when there is an exception")
    rt = [n for n in own_walk(td.node) if isinstance(n, ast.Call) and call_name(n) == "RuntimeError"]
    ctx.ob("R15-e", td, "a task that ends without started() yields RuntimeError", len(rt) == 1, detail="" if rt else "no RuntimeError for a task that exits without calling started()", by=("RuntimeError",))
    ts = ctx.fn("_BlockingPortalTaskStatus.started", FT)
    s = ctx.sites(ts, f"self._future.set_result({ts.node.args.args[1].arg})")
    ctx.ob("R15-e", ts, "started(value) resolves the status future with that value", len(s) == 1, detail="" if s else "started() does not set the value on the status future", by=("set_result(value)",))
    # plumbing in start_task
    cbreg = ctx.sites(st_f, f"$F.add_done_callback({td.node.name})") if sfut_st else []
    if not cbreg:
        for pat in (f"$F.add_done_callback(partial({td.node.name}, $S))", f"$F.add_done_callback(partial(self.{td.node.name}, $S))",
                    f"$F.add_done_callback(functools.partial({td.node.name}, $S))"):
            cbreg = ctx.sites(st_f, pat)
            if cbreg:
                sfut_st = u(cbreg[0][1]["S"])
                break
    sfut_in_start = sfut_st or sfut
    spw = [(x, {}) for x in spawn_calls(st_f)]
    okpl = False
    if len(cbreg) == 1 and len(spw) == 1:
        fut = u(cbreg[0][1]["F"])
        a = spw[0][0].args[2:]
        a = [a[0], a[1], a[2], None, a[3]] if len(a) == 4 else []
        def top_index(n_):
            cur = n_
            while cur is not None and getattr(cur, "_parent", None) is not st_f.node:
                cur = getattr(cur, "_parent", None)
            return st_f.node.body.index(cur) if cur in st_f.node.body else -1

        okpl = 0 <= top_index(cbreg[0][0]) < top_index(spw[0][0]) and len(a) == 5 and ast.unparse(a[4]) == fut and isinstance(a[2], ast.Dict) and \
            [ast.unparse(k) for k in a[2].keys] == ["'task_status'"]
        if okpl:
            tsv = ast.unparse(a[2].values[0])
            mk = ctx.sites(st_f, f"{tsv} = _BlockingPortalTaskStatus({sfut_in_start})")
            rets = [n for n in own_walk(st_f.node) if isinstance(n, ast.Return) and n.value is not None]
            okpl = len(mk) == 1 and len(rets) == 1 and ast.unparse(rets[0].value).replace(" ", "") == f"({fut},{sfut_in_start}.result())".replace(" ", "")
    ctx.ob("R15-e", st_f, "start_task wires done-callback, status object and futures together and returns (future, started value)", okpl,
           detail="" if okpl else "the done-callback is not registered before the spawn, or task_status / the returned pair are not built from the same futures", by=("plumbing",))

    # ---- R15-f loop-side entry points ----------------------------------------------------------------------------------------------------------------------
    loop_entry_points(ctx, "R15-f")

    # the token that says which event loop a call goes to: an explicitly given token always wins (a portal passes its own), the
    # calling thread's token is only the fallback
    te = ctx.fn("_token_or_error", FT)
    tp = te.node.args.args[0].arg

    def step_tok(st, e, c):
        if e == "rebind" and not c.is_exc and F(f"{tp} is None") not in c.facts_before:
            return Bad(f"`{tp}` is rebound although an explicit token may have been given: the calling thread's own loop would win over the portal's")
        return st

    def is_rebind(frag, node):
        n_ = node.node
        return node.kind == "stmt" and isinstance(n_, (ast.Assign, ast.AnnAssign, ast.AugAssign)) and any(
            isinstance(x, ast.Name) and x.id == tp and isinstance(x.ctx, ast.Store) for x in ast.walk(n_))

    ctx.paths("R15-f", te, [("rebind", [is_rebind])], step_tok, None, None, instance="an explicit event loop token is never overridden")
    for r_ in [x for x in own_walk(te.node) if isinstance(x, ast.Return) and x.value is not None]:
        if ast.unparse(r_.value) == tp:
            continue
        ctx.require_at("R15-f", te, r_, [[f"{tp} is None"]], instance="the thread's own token is used only when none was given", what="return")

    # ---- R15-g the shared portal of BlockingPortalProvider -----------------------------------------------------------------------------
    pe = ctx.fn("BlockingPortalProvider.__enter__", FT)
    px = ctx.fn("BlockingPortalProvider.__exit__", FT)
    inc = ctx.sites(pe, "self._leases += 1")
    dec = ctx.sites(px, "self._leases -= 1")
    dominates_all_exits(ctx, "R15-g", pe, "self._leases += 1", "every entry takes a lease", count=1)
    dominates_all_exits(ctx, "R15-g", px, "self._leases -= 1", "every exit gives its lease back", count=1)
    st_ = ctx.sites(pe, "self._portal_cm = start_blocking_portal($*A)")
    if ctx.need("R15-g", pe, "`self._portal_cm = start_blocking_portal(...)`", len(st_), 1):
        ctx.require_at("R15-g", pe, st_[0][0], [["self._portal_cm is None"]], instance="the shared portal is started only by the first lease")
    for f, what in ((pe, "taken"), (px, "returned")):
        site = (inc if f is pe else dec)
        ok = bool(site) and lexically_inside(site[0][0], lambda x: isinstance(x, ast.With) and any(ast.unparse(i.context_expr) == "self._lock" for i in x.items), stop=f.node)
        ctx.ob("R15-g", f, f"leases are {what} under the provider's lock (entries and exits come from different threads)", ok,
               detail="" if ok else "the lease counter is changed outside `with self._lock`", by=("with self._lock",))
    ex = [n for n in own_walk(px.node) if isinstance(n, ast.Call) and isinstance(n.func, ast.Attribute) and n.func.attr == "__exit__"]
    if ctx.need("R15-g", px, "`portal_cm.__exit__(None, None, None)` when the last lease is returned", len(ex), 1):
        c = ex[0]
        ok = len(c.args) == 3 and all(isinstance(a, ast.Constant) and a.value is None for a in c.args)
        ctx.ob("R15-g", px, "the shared portal is always shut down gracefully: the last leaver's own exception says nothing about calls other threads still have "
               "running through it (they are awaited, not cancelled)", ok, node=stmt_of(c),
               detail="" if ok else f"`{norm(stmt_of(c))}` forwards the leaving thread's exception: start_blocking_portal would then cancel every remaining call", by=("__exit__(None, None, None)",))
        # the shutdown joins every task still running through the portal - and such a task (or a thread it waits for) may itself need the
        # provider: it runs after the provider's lock has been released
        is_lock_with = lambda x: isinstance(x, ast.With) and any(ast.unparse(i.context_expr) == "self._lock" for i in x.items)
        locked = lexically_inside(c, is_lock_with, stop=px.node)
        ctx.ob("R15-g", px, "the portal is shut down (a blocking join) outside the provider's lock", not locked, node=stmt_of(c), by=("outside with self._lock",),
               detail="" if not locked else f"`{norm(stmt_of(c))}` runs inside `with self._lock`: a task the shutdown waits for that enters the provider "
                                            "(directly or through a worker thread) deadlocks with the leaving thread")
        # ... and in the *same* locked section that found no lease left the provider forgets the portal, so that a thread entering while the
        # old portal is still shutting down starts a fresh one instead of being handed the dying one
        wdec = None
        if dec:
            n_ = dec[0][0]
            while n_ is not None and not is_lock_with(n_):
                n_ = getattr(n_, "_parent", None)
            wdec = n_
        resets = ctx.sites(px, "self._portal_cm = None")
        okr = bool(resets) and wdec is not None and all(any(y is r_ for y in ast.walk(wdec)) for r_, _ in resets)
        ctx.ob("R15-g", px, "the provider forgets the portal in the locked section that returned the last lease", okr, by=("self._portal_cm = None under the same lock",),
               node=resets[0][0] if resets else px.node,
               detail="" if okr else "`self._portal_cm = None` is missing from the `with self._lock` block that decrements the leases: between that block and the "
                                     "reset another thread's __enter__ sees the old portal and is handed a portal that is shutting down")

        def step_r(st, e, c_):
            return True if e == "reset" and not c_.is_exc else st

        def exit_r(kind, st, facts):
            if kind == "return" and not st and any(z in facts for z in (F("not self._leases"), F("self._leases == 0"))):
                return "__exit__ returns with no lease left and the old portal still registered"
            return None

        ctx.paths("R15-g", px, [("reset", "self._portal_cm = None")], step_r, False, exit_r, instance="the last leaver resets the provider")
        tk = ctx.sites(px, "$P = self._portal_cm")
        if ctx.need("R15-g", px, "`portal_cm = self._portal_cm` for the last lease", len(tk), 1):
            ctx.require_at("R15-g", px, tk[0][0], [["not self._leases"], ["0 == self._leases"]], instance="the portal is shut down only when no lease is left")
