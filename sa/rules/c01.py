"""C01 — Task group join: no child outlives its task group block."""
from __future__ import annotations

import ast

from sa.engine.cfg import exc_name
from sa.engine.facts import Bad, F
from sa.engine.pattern import P, u, dump, find_all
from sa.engine.source import norm, own_walk, stmt_of
from .common import A, TASKS

EXPLANATION = ("Task group join: the emptiness test of the live-task set is the last suspension-free thing before the group's scope is "
               "deactivated (on every normal and error path), the wait loop cannot be left by cancellation, spawn registers the child in "
               "all four tables before returning, the done-callback removes the child before it may wake the host, admission only while "
               "the group is active, the handle records its outcome before signalling completion, status/outcome tables are exhaustive.")
NOT_DECIDED = ("That the event loop never steps a finished task (asyncio), the eager-factory / uvloop configurations beyond the shared code "
               "path, schedules; native Task.cancel() delivered into the group's shielded final checkpoint is outside the AnyIO-level model.")


def check(ctx):
    aexit = ctx.fn("TaskGroup.__aexit__", A)
    spawn = ctx.fn("TaskGroup._spawn", A)
    done = ctx.fn("TaskGroup._spawn.task_done", A)
    create = ctx.fn("TaskGroup.create_task", A)
    start = ctx.fn("TaskGroup.start", A)

    # ---- R01-a join before deactivation ---------------------------------------------------------------------
    exits = ctx.sites(aexit, "self.cancel_scope.__exit__($*A)")
    ctx.need("R01-a", aexit, "deactivation `self.cancel_scope.__exit__(...)` on the normal and on the error path", len(exits), 2)
    for call, _ in exits:
        ctx.require_at("R01-a", aexit, call, [["not self._tasks"]],
                       instance="the live-task set was found empty with no suspension point since",
                       what="scope deactivation")
        # the same under the native-cancellation model: a Task.cancel() from asyncio code gets through the shield of the exit
        # checkpoint; a task started by an outsider during that checkpoint must still be joined (F13)
        ctx.require_at("R01-a", aexit, call, [["not self._tasks"]], native=True,
                       instance="the live-task set was found empty with no suspension point since [a native cancellation may interrupt the shielded exit checkpoint]",
                       what="scope deactivation")

    # ---- R01-b the wait loop cannot be left by cancellation ---------------------------------------------------
    waits = ctx.sites(aexit, "await self._on_completed_fut")
    ctx.need("R01-b", aexit, "wait `await self._on_completed_fut`", len(waits), 1)
    loops = [n for n in own_walk(aexit.node) if isinstance(n, ast.While) and F(ast.unparse(n.test)) == F("self._tasks")]
    ctx.need("R01-b", aexit, "join loop `while self._tasks`", len(loops), 1)
    loop_ids = {id(l) for l in loops}
    wscope = None
    for n in own_walk(aexit.node):
        if isinstance(n, ast.With):
            for it in n.items:
                if isinstance(it.context_expr, ast.Call) and isinstance(it.optional_vars, ast.Name) \
                        and getattr(it.context_expr.func, "id", getattr(it.context_expr.func, "attr", "")) == "CancelScope" \
                        and any(id(w[0]) in {id(x) for x in ast.walk(n)} for w in waits):
                    wscope = it.optional_vars.id
    ctx.need("R01-b", aexit, "the wait runs inside its own cancel scope (`with CancelScope() as wait_scope`)", 1 if wscope else 0, 1)
    ws = wscope or "wait_scope"

    def step(st, e, c):
        inh, canc, shld = st
        if e == "wait":
            if c.is_exc:
                return (True, False, False)
            return st
        if e == "cancel" and not c.is_exc:
            return (inh, True, shld)
        if e == "shield" and not c.is_exc:
            return (inh, canc, True)
        if e == "head":
            if inh and not canc:
                return Bad("a cancelled wait goes back to waiting without cancelling the group's scope (children would never be told to stop)")
            if inh and not shld:
                return Bad("a cancelled wait goes back to waiting without shielding the wait scope (the wait would be cancelled again on every cycle)")
            return (False, False, False)
        return st

    def at_exit(kind, st, facts):
        if st[0]:
            return f"the join loop is left ({kind}) from the handler of a cancelled wait while children may still be running"
        return None

    ctx.paths("R01-b", aexit, [("wait", "await self._on_completed_fut"), ("cancel", "self.cancel_scope.cancel()"),
                               ("shield", f"{ws}.shield = True"),
                               ("head", [lambda frag, node: node.kind == "loop_head" and id(node.node) in loop_ids])],
              step, (False, False, False), at_exit, instance="cancelled wait resumes waiting")
    # the future that is awaited is the one the done-callback resolves, created fresh for every round
    mk = ctx.sites(aexit, "self._on_completed_fut = $L.create_future()")
    ctx.need("R01-b", aexit, "a fresh completion future per wait round", len(mk), 1)

    # ---- R01-c spawn registration -------------------------------------------------------------------------------
    ctx.ob("R01-c", spawn, "_spawn is synchronous (no suspension between task creation and registration)",
           isinstance(spawn.node, ast.FunctionDef) and not any(isinstance(n, (ast.Await, ast.Yield, ast.YieldFrom)) for n in own_walk(spawn.node)),
           detail="_spawn contains a suspension point", by=("def, no await",))
    wr = ctx.sites(spawn, "$W = $H._run_coro()")
    ctx.need("R01-c", spawn, "wrapper coroutine `handle._run_coro()`", len(wr), 1)
    wname = u(wr[0][1]["W"]) if wr else "wrapper_coro"
    creates = [(s_, e_) for s_, e_ in ctx.sites(spawn, "$T = $F($*A)")
               if isinstance(e_["T"], ast.Name) and any(isinstance(a, ast.Name) and a.id == wname for a in s_.value.args)]
    ctx.need("R01-c", spawn, "task creation sites (stock loop and eager factory)", len(creates), 2)
    tvars = {u(e["T"]) for _, e in creates}
    ctx.ob("R01-c", spawn, "both creation branches bind the same variable", len(tvars) == 1, detail=f"task variables: {sorted(tvars)}", by=tuple(tvars))
    t = sorted(tvars)[0] if tvars else "task"
    EV = [("create", [f"{t} = $F({wname}, $*A)"]),
          ("group", f"self._tasks.add({t})"), ("scope", f"self.cancel_scope._tasks.add({t})"),
          ("state", [f"_task_states[{t}] = TaskState(parent_id=$P, cancel_scope=self.cancel_scope)",
                     f"_task_states[{t}] = TaskState($P, self.cancel_scope)"]),
          # (the callback is the closure itself, or - after "closure moved to a method" - the bound method with its captured state)
          ("cb", [f"{t}.add_done_callback({done.node.name})", f"{t}.add_done_callback(partial(self.{done.node.name}, $*A))",
                  f"{t}.add_done_callback(functools.partial(self.{done.node.name}, $*A))"])]

    def step_c(st, e, c):
        if c.is_exc:
            return st
        if e == "create":
            return frozenset({"create"})
        return st | {e}

    def at_exit_c(kind, st, facts):
        if kind == "return":
            miss = {"create", "group", "scope", "state", "cb"} - set(st)
            if miss:
                return f"_spawn returns without {sorted(miss)} for the new task (the join / cancellation / done-callback would miss it)"
        return None

    ctx.paths("R01-c", spawn, EV, step_c, frozenset(), at_exit_c, instance="child registered in all tables")
    # the coroutine that runs is the handle's wrapper (so the handle sees the outcome)
    okw = bool(wr) and bool(creates)
    ctx.ob("R01-c", spawn, "the task runs the handle's wrapper coroutine", okw,
           detail="" if okw else "a creation branch does not run handle._run_coro()", by=("handle._run_coro()",))

    # ---- R01-d done-callback bookkeeping ---------------------------------------------------------------------------
    def step_d(st, e, c):
        rm, wk = st
        if e == "rm":
            return (min(rm + 1, 2), wk)
        if e == "wake":
            if not rm:
                return Bad("host woken before the finished child was removed from the live set")
            return (rm, min(wk + 1, 2))
        return st

    def at_exit_d(kind, st, facts):
        rm, wk = st
        if rm != 1:
            return f"done-callback leaves ({kind}) with the child removed {rm} times from the group's live set"
        return None

    ctx.paths("R01-d", done, [("rm", ["self._tasks.remove($X)", "self._tasks.discard($X)"]),
                              ("wake", "self._on_completed_fut.set_result($*A)")], step_d, (0, 0), at_exit_d,
              instance="child removed exactly once, before any wake-up")
    wk = ctx.sites(done, "self._on_completed_fut.set_result($*A)")
    ctx.need("R01-d", done, "wake-up of the host `self._on_completed_fut.set_result(None)`", len(wk), 1)
    for call, _ in wk:
        ctx.require_at("R01-d", done, call, [["not self._tasks", "self._on_completed_fut is not None"]],
                       instance="host woken only by the last child", what="wake-up")
    # and it *is* woken (must-form): the callback may return without a wake-up attempt only if it established that there is no
    # future to resolve, that children are left, or that the future is already resolved (EAFP and LBYL spellings alike)
    def step_w(st, e, c):
        return True if e == "wake" else st        # (an attempt that raised InvalidStateError counts: the future was already resolved)

    def at_exit_w(kind, st, facts):
        if kind == "return" and not st:
            excused = (F("self._on_completed_fut is None") in facts or ("self._tasks", True) in facts
                       or ("self._on_completed_fut.done()", True) in facts)
            if not excused:
                return ("the done-callback returns without waking the host although the live set may be empty and a join future pending "
                        "(a stronger wake-up condition leaves the host asleep for ever)")
        return None

    ctx.paths("R01-d", done, [("wake", "self._on_completed_fut.set_result($*A)")], step_w, False, at_exit_w,
              instance="the wake-up condition is exactly `future pending and live set empty`")
    # scope membership is dropped too
    rs = ctx.sites(done, "$S._tasks.remove($X)")
    ctx.ob("R01-d", done, "child removed from its cancel scope and from the group", len(rs) >= 2,
           detail=f"found {len(rs)} removal(s)", by=("2 removals",))

    # ---- R01-e admission only while active ------------------------------------------------------------------------
    active = [["self._entered", "self.cancel_scope._active"]]
    n_calls = 0
    for f in (create, start):
        calls = ctx.sites(f, "self._spawn($*A)") + ctx.sites(f, "$C.run(self._spawn, $*A)")
        n_calls += len(calls)
        for call, _ in calls:
            ctx.require_at("R01-e", f, call, active, instance="spawn only while the group is entered and its scope active", what="_spawn call")
    ctx.need("R01-e", create, "_spawn call sites in create_task/start", n_calls, 3)
    refs = []
    for rel, tree in ctx.repo.non_trio_modules().items():
        for n in ctx.live_walk(tree):
            if isinstance(n, ast.Attribute) and n.attr == "_spawn" and isinstance(n.ctx, ast.Load):
                refs.append((ctx.repo.func_of(n), rel, n))
    for f, rel, n in refs:
        ok = f is not None and f.qual in ("TaskGroup.create_task", "TaskGroup.start") and rel.endswith(A)
        ctx.ob("R01-e", f if f else f"src/anyio/{rel}:{n.lineno} <module>", "only create_task/start may call _spawn", ok,
               detail="" if ok else f"`_spawn` referenced outside create_task/start (bypasses the active-group check)", node=n,
               by=("who-may-call",))
    ctx.ob("R01-e", spawn, "the asyncio TaskGroup does not override start_soon (it goes through create_task)",
           not any(x.module.endswith(A) for x in ctx.repo.funcs.get("TaskGroup.start_soon", [])), detail="TaskGroup.start_soon overridden in the asyncio backend", by=("no override",))
    ss = ctx.fn("TaskGroup.start_soon", "abc/_tasks.py")
    s = ctx.sites(ss, "return self.create_task($*A)") + ctx.sites(ss, "self.create_task($*A)")
    ctx.ob("R01-e", ss, "abc.TaskGroup.start_soon delegates to create_task", bool(s), detail="" if s else "start_soon does not call self.create_task",
           by=("self.create_task",))

    # ---- R01-f outcome recorded before completion is signalled ---------------------------------------------------
    run = ctx.fn("TaskHandle._run_coro", TASKS)
    aw = ctx.sites(run, "$V = await self._coro")
    ctx.need("R01-f", run, "`retval = await self._coro`", len(aw), 1)
    rv = u(aw[0][1]["V"]) if aw else "retval"
    hs = [h for h in own_walk(run.node) if isinstance(h, ast.ExceptHandler) and h.name and h.type is not None and exc_name(h.type) == "BaseException"]
    ctx.need("R01-f", run, "`except BaseException as exc` around the awaited coroutine", len(hs), 1)
    ev = hs[0].name if hs else "exc"
    aw_ids = {id(s) for s, _ in aw}

    def raises(stmt):
        return {"Exception"} if id(stmt) in aw_ids else set()

    def step_f(st, e, c):
        rec, fin = st
        if c.is_exc and e != "fin":
            return st
        if e in ("rec_exc", "rec_ret"):
            if fin:
                return Bad("outcome recorded after completion was signalled")
            return (e, fin)
        if e == "fin":
            return (rec, True)
        return st

    def at_exit_f(kind, st, facts):
        rec, fin = st
        if not fin:
            return f"{kind}: completion event is never set"
        if kind == "return" and rec != "rec_ret":
            return "the coroutine returned but no return value was recorded"
        if kind != "return" and rec != "rec_exc":
            return f"{kind}: the coroutine raised but no exception was recorded (the handle would report FINISHED)"
        return None

    ctx.paths("R01-f", run, [("rec_exc", f"self._exception = {ev}"), ("rec_ret", f"self._return_value = {rv}"),
                             ("fin", "self._finished_event.set()")], step_f, (None, False), at_exit_f,
              instance="outcome recorded, then completion signalled", extra_raises=raises)
    inside = bool(aw) and any(isinstance(w, ast.With) and any(P("self._cancel_scope").match(it.context_expr) is not None for it in w.items)
                              and any(id(x) in aw_ids for x in ast.walk(w)) for w in own_walk(run.node))
    ctx.ob("R01-f", run, "the coroutine runs inside the handle's own cancel scope", inside,
           detail="" if inside else "`await self._coro` is not inside `with self._cancel_scope`", by=("with self._cancel_scope",))

    # ---- R01-i a child whose coroutine never ran still gets a final status (F14) ------------------------------------------------------
    # asyncio model: a Task cancelled before its first step ends without executing one statement of its coroutine (the CancelledError
    # is thrown into the unstarted coroutine), so TaskHandle._run_coro records nothing; the done-callback - which runs for every task,
    # before the host can resume - must finalise the handle in that case: outcome recorded, then completion signalled
    hs = ctx.sites(done, "$H._finished_event.is_set()")
    if ctx.need("R01-i", done, "the done-callback looks at the handle's completion event (`handle._finished_event.is_set()`)", len(hs), 1):
        hv = u(hs[0][1]["H"])
        fin_key = f"{hv}._finished_event.is_set()"

        def step_i(st, e, c):
            rec, fin = st
            if c.is_exc:
                return st
            if e == "rec":
                return (True, fin)
            if e == "fin":
                if not rec:
                    return Bad("the done-callback signals completion of a handle without having recorded how the task ended")
                if (fin_key, True) in c.facts_before:
                    return Bad("the done-callback overwrites the outcome of a handle whose coroutine did record it")
                return (rec, True)
            return st

        def at_exit_i(kind, st, facts):
            if kind == "return" and not st[1] and (fin_key, True) not in facts:
                return ("the done-callback returns without a final status on the handle although the task's coroutine may never have run "
                        "(cancelled before its first step): the handle stays PENDING and handle.wait() never returns")
            return None

        ctx.paths("R01-i", done, [("rec", f"{hv}._exception = $X"), ("fin", f"{hv}._finished_event.set()")], step_i, (False, False), at_exit_i,
                  instance="a never-started child is finalised by the done-callback")
        for st_, env_ in ctx.sites(done, f"{hv}._exception = $X"):
            ctx.require_at("R01-i", done, st_, [[f"not {fin_key}"]], instance="the done-callback records an outcome only on a handle that has none yet", what="outcome")

    # ---- R01-g status / outcome tables ------------------------------------------------------------------------------
    rel, hcls = ctx.repo.cls("TaskHandle", TASKS)
    status_cls = [n for n in hcls.body if isinstance(n, ast.ClassDef) and n.name == "Status"]
    if not status_cls:
        from sa.engine.source import AnalysisError
        raise AnalysisError("R01-g: TaskHandle.Status enum not found")
    members = [t.id for n in status_cls[0].body if isinstance(n, ast.Assign) for t in n.targets if isinstance(t, ast.Name)]
    ctx.floor("R01-g", "members of TaskHandle.Status", len(members), 5)
    table = {
        "TaskHandle.exception": {"PENDING": ("raise", "TaskNotFinished", None), "FINISHED": ("return", "None"),
                                 "CANCELLING": ("raise", "TaskCancelled", None), "CANCELLED": ("raise", "TaskCancelled", "self._exception"),
                                 "FAILED": ("return", "self._exception")},
        "TaskHandle.return_value": {"PENDING": ("raise", "TaskNotFinished", None), "FINISHED": ("return", "self._return_value"),
                                    "CANCELLING": ("raise", "TaskCancelled", None), "CANCELLED": ("raise", "TaskCancelled", "self._exception"),
                                    "FAILED": ("raise", "TaskFailed", "self._exception")},
    }
    for q, arms in table.items():
        f = ctx.fn(q, TASKS)
        ms = [n for n in own_walk(f.node) if isinstance(n, ast.Match) and P("self.status").match(n.subject) is not None]
        if not ctx.need("R01-g", f, "`match self.status`", len(ms), 1):
            continue
        got = {}
        for c in ms[0].cases:
            pats = c.pattern.patterns if isinstance(c.pattern, ast.MatchOr) else [c.pattern]
            for p in pats:
                if isinstance(p, ast.MatchValue) and isinstance(p.value, ast.Attribute):
                    got[p.value.attr] = c
        for m in members:
            c = got.get(m)
            if c is None:
                ctx.ob("R01-g", f, f"arm for Status.{m}", False, detail=f"`match self.status` in {q} has no case for {m}: the accessor silently returns None",
                       node=ms[0])
                continue
            want = arms.get(m)
            if want is None:
                ctx.ob("R01-g", f, f"arm for Status.{m}", True, by=("arm present",), node=c.body[0])
                continue
            st = c.body[-1]
            if want[0] == "return":
                ok = isinstance(st, ast.Return) and ast.unparse(st.value if st.value is not None else ast.Constant(None)) == want[1]
            else:
                ok = isinstance(st, ast.Raise) and st.exc is not None and exc_name(st.exc) == want[1] and \
                    ((want[2] is None and st.cause is None) or (want[2] is not None and st.cause is not None and ast.unparse(st.cause) == want[2]))
            ctx.ob("R01-g", f, f"arm for Status.{m}: {' '.join(str(x) for x in want if x)}", ok,
                   detail="" if ok else f"case {m} in {q} does `{norm(st)}`, the outcome table requires {want}", node=st, by=(str(want),))
    stf = ctx.fn("TaskHandle.status", TASKS)
    fin, cc = "self._finished_event.is_set()", "self._cancel_scope.cancel_called"
    exn, isc = "self._exception is None", "isinstance(self._exception, get_cancelled_exc_class())"
    want = {"CANCELLING": [[f"not {fin}", cc]], "PENDING": [[f"not {fin}", f"not {cc}"]],
            "CANCELLED": [[fin, f"not {exn}", isc]], "FAILED": [[fin, f"not {exn}", f"not {isc}"]], "FINISHED": [[fin, exn]]}
    found = set()
    for r, env in ctx.sites(stf, "return TaskHandle.Status.$M"):
        m = u(env["M"])
        found.add(m)
        if m in want:
            ctx.require_at("R01-g", stf, r, want[m], instance=f"status {m} is reported exactly in its state", what=f"return Status.{m}")
    for m in want:
        ctx.ob("R01-g", stf, f"status can report {m}", m in found, detail="" if m in found else f"TaskHandle.status never returns {m}", by=("return site",))

    # ---- R01-h the cancellation classifier used while leaving scopes and task groups cannot fail or over-match ----------------------
    from .common import classifier_total
    classifier_total(ctx, "R01-h")

    # ---- R01-j (shared with C07/R07-f, C12/R12-g)
    from .common import waiter_guard
    waiter_guard(ctx, "R01-j", "the delivery loop that the join relies on asks `.done()` only of a waiter that is an asyncio.Future (any other awaitable a child is suspended on would make cancel() raise out of __aexit__ before the join)")

    # ---- R01-k nothing user-defined is evaluated between "the block ended" and the join: the group cancels its scope with no argument
    # or a constant one (formatting the body's / a child's exception into a cancel reason runs its __str__/__repr__, and an exception
    # from there leaves __aexit__ / the done-callback before the children were cancelled and joined)
    for f_ in (aexit, done):
        for c_, env_ in ctx.sites(f_, "self.cancel_scope.cancel($*A)"):
            args_ = list(c_.args) + [k_.value for k_ in c_.keywords]
            ok = all(isinstance(a_, ast.Constant) for a_ in args_)
            ctx.ob("R01-k", f_, "the group's scope is cancelled without evaluating user-defined code", ok, node=stmt_of(c_),
                   detail="" if ok else f"`{norm(stmt_of(c_))}` evaluates an expression over the exception before the join", by=("constant arguments",))
