"""Rule building blocks shared by several properties."""
from __future__ import annotations

import ast

from sa.engine.cfg import call_name
from sa.engine.core import Ctx
from sa.engine.facts import Bad, F, atom, subst
from sa.engine.pattern import P, find_all, inst, u, dump, strip_cast
from sa.engine.source import AnalysisError, Func, norm, own_walk, stmt_of

A = "_backends/_asyncio.py"
SYNC = "_core/_synchronization.py"
MEM = "streams/memory.py"
TASKS = "_core/_tasks.py"


def is_current_task(expr, aliases) -> bool:
    e = strip_cast(subst(expr, aliases))
    return isinstance(e, ast.Call) and call_name(e) in ("current_task", "get_current_task")


# ----------------------------------------------------------------------------- queue ends
TAIL_PUT = {"append", "extend"}
HEAD_PUT = {"appendleft", "extendleft"}
HEAD_TAKE = {"popleft"}
TAIL_TAKE = set()


def queue_ends(ctx: Ctx, rule: str, clsname: str, attr: str, hint: str | None = None, min_put=1, min_take=1,
               funcs: list[Func] | None = None, base_pat: str | None = None):
    """all put sites of a queue use one end, all positional take sites the other (FIFO).

    put:  append/extend (tail), appendleft/insert(0,·) (head), d[k] = v (tail of an ordered mapping)
    take: popleft / pop(0) / popitem(last=False) / next(iter(d)) (head), pop() / popitem() (tail)
    remove(x), pop(key, default), del d[k], clear() are by-identity removals and neutral."""
    if funcs is None:
        funcs = list(ctx.repo.methods(clsname, hint).values())
        funcs += [f for f in ctx.repo.all_funcs if f.cls == clsname and f.parent is not None and f.module == funcs[0].module]
    puts, takes = [], []
    for f in funcs:
        for n in own_walk(f.node):
            if isinstance(n, ast.Call) and isinstance(n.func, ast.Attribute):
                base = strip_cast(n.func.value)
                if not (isinstance(base, ast.Attribute) and base.attr == attr) and not _is_alias_of(f, base, attr):
                    # next(iter(q))
                    if call_name(n) == "next" and n.args and isinstance(n.args[0], ast.Call) and call_name(n.args[0]) == "iter" \
                            and n.args[0].args and _refers(f, n.args[0].args[0], attr):
                        takes.append((f, n, "head"))
                    continue
                m = n.func.attr
                if m in TAIL_PUT:
                    puts.append((f, n, "tail"))
                elif m in HEAD_PUT:
                    puts.append((f, n, "head"))
                elif m == "insert":
                    a0 = n.args[0] if n.args else None
                    puts.append((f, n, "head" if isinstance(a0, ast.Constant) and a0.value == 0 else "middle"))
                elif m == "popleft":
                    takes.append((f, n, "head"))
                elif m == "pop":
                    if not n.args:
                        takes.append((f, n, "tail"))
                    elif len(n.args) == 1 and isinstance(n.args[0], ast.Constant) and n.args[0].value == 0:
                        takes.append((f, n, "head"))
                    elif len(n.args) == 1 and isinstance(n.args[0], ast.Constant) and n.args[0].value == -1:
                        takes.append((f, n, "tail"))
                elif m == "popitem":
                    last = True
                    for k in n.keywords:
                        if k.arg == "last" and isinstance(k.value, ast.Constant):
                            last = bool(k.value.value)
                    if n.args and isinstance(n.args[0], ast.Constant):
                        last = bool(n.args[0].value)
                    takes.append((f, n, "tail" if last else "head"))
                elif m == "move_to_end":
                    pass
            elif isinstance(n, ast.Call) and call_name(n) == "next" and n.args and isinstance(n.args[0], ast.Call) \
                    and call_name(n.args[0]) == "iter" and n.args[0].args and _refers(f, n.args[0].args[0], attr):
                takes.append((f, n, "head"))
            elif isinstance(n, ast.Subscript) and isinstance(n.ctx, ast.Store) and _refers(f, n.value, attr):
                puts.append((f, n, "tail"))
    if not funcs:
        raise AnalysisError(f"{rule}: no functions to analyse for {clsname}.{attr}")
    if len(puts) < min_put or len(takes) < min_take:
        # the functions exist but the queue operations are gone: the mechanism is missing
        ctx.ob(rule, funcs[0], f"queue discipline of {attr}: put and positional take sites present", False,
               detail=f"{clsname}.{attr}: found {len(puts)} put site(s) (need {min_put}) and {len(takes)} positional take site(s) (need {min_take}); "
                      f"an item that is read without being dequeued from the head, or never enqueued, breaks FIFO delivery")
        return puts, takes
    put_ends = {e for _, _, e in puts}
    take_ends = {e for _, _, e in takes}
    ok_all = len(put_ends) == 1 and len(take_ends) == 1 and put_ends != take_ends and "middle" not in put_ends
    for f, n, e in puts:
        ok = ok_all or (e == _majority(puts) and e != "middle")
        ctx.ob(rule, f, f"put end of {attr}: {e}", ok,
               detail="" if ok else f"put site `{norm(n)}` uses the {e} of {attr}; other sites put at {sorted(put_ends)} and take at {sorted(take_ends)} - FIFO needs all puts at one end and all takes at the other",
               node=stmt_of(n), by=(f"put@{e}", f"takes@{sorted(take_ends)}"))
    for f, n, e in takes:
        ok = ok_all or (e == _majority(takes) and len(put_ends) == 1 and e not in put_ends)
        ctx.ob(rule, f, f"take end of {attr}: {e}", ok,
               detail="" if ok else f"take site `{norm(n)}` takes from the {e} of {attr}; puts are at {sorted(put_ends)}, other takes at {sorted(take_ends)} - not FIFO",
               node=stmt_of(n), by=(f"take@{e}", f"puts@{sorted(put_ends)}"))
    return puts, takes


def _majority(lst):
    c = {}
    for _, _, e in lst:
        c[e] = c.get(e, 0) + 1
    return max(c, key=lambda k: c[k])


def _is_alias_of(f: Func, base, attr) -> bool:
    if isinstance(base, ast.Name):
        from sa.engine.facts import local_aliases
        al = _aliases(f)
        v = al.get(base.id)
        return isinstance(v, ast.Attribute) and v.attr == attr
    return False


_ALIAS_CACHE: dict = {}


def _aliases(f: Func):
    from sa.engine.facts import local_aliases
    if id(f.node) not in _ALIAS_CACHE:
        _ALIAS_CACHE[id(f.node)] = local_aliases(f.node)
    return _ALIAS_CACHE[id(f.node)]


def _refers(f: Func, e, attr) -> bool:
    e = strip_cast(e)
    if isinstance(e, ast.Attribute) and e.attr == attr:
        return True
    return _is_alias_of(f, e, attr)


# ----------------------------------------------------------------------------- writer tables
def writer_table(ctx: Ctx, rule: str, attr: str, allow: dict, floor: int, modules=None, cls_filter=None):
    """every write of `attr` (repository-wide, trio excluded) is one of the allowed
    (qualname -> set of kinds) entries.  kinds: assign, aug, del, subscript, call:<method>"""
    ws = ctx.writers(attr, modules)
    if cls_filter:
        ws = [w for w in ws if w[0] is None or cls_filter(w[0])]
    # the floor only guards against the field having been renamed (a table that matches nothing passes
    # vacuously); a removed writer is the business of the path rules, not an analysis error
    ctx.floor(rule, f"writers of {attr}", len(ws), min(floor, 1))
    for f, rel, st, kind, val, n in ws:
        q = f.qual if f else "<module>"
        kinds = allow.get(q)
        ok = kinds is not None and (kind in kinds or "*" in kinds)
        where = f if f else f"src/anyio/{rel}:{getattr(st, 'lineno', 0)} <module>"
        ctx.ob(rule, where, f"writer of {attr}: {q} {kind}", ok,
               detail="" if ok else f"`{norm(st)}` writes {attr} ({kind}) outside the allowed writer table {sorted(allow)}",
               node=st, by=(f"allowed:{q}:{kind}",))
    return ws


# ----------------------------------------------------------------------------- helpers
def in_handler_of(node, try_node, handler=None) -> bool:
    cur = node
    while cur is not None:
        par = getattr(cur, "_parent", None)
        if isinstance(par, ast.ExceptHandler) and getattr(par, "_parent", None) is try_node:
            return handler is None or par is handler
        cur = par
    return False


def enclosing(node, types, stop=None):
    cur = getattr(node, "_parent", None)
    while cur is not None and cur is not stop:
        if isinstance(cur, types):
            return cur
        cur = getattr(cur, "_parent", None)
    return None


def lexically_inside(node, pred, stop=None) -> bool:
    cur = getattr(node, "_parent", None)
    while cur is not None and cur is not stop:
        if pred(cur):
            return True
        cur = getattr(cur, "_parent", None)
    return False


def block_head(node):
    """the first thing evaluated in the block that contains the statement of `node` (facts established by the branch condition
    hold there even if the block later rebinds the names they mention)"""
    st = stmt_of(node)
    par = getattr(st, "_parent", None)
    head = st
    for fld in ("body", "orelse", "finalbody"):
        blk = getattr(par, fld, None)
        if isinstance(blk, list) and st in blk:
            head = blk[0]
            break
    while isinstance(head, (ast.If, ast.While)):
        t = head.test
        while isinstance(t, ast.BoolOp):
            t = t.values[0]
        while isinstance(t, ast.UnaryOp) and isinstance(t.op, ast.Not):
            t = t.operand
        return t
    return head


def one(ctx, rule, f: Func, pattern: str, what: str, env=None):
    """exactly one site of `pattern` in f, else the mechanism is missing (violation) -> returns (node, env) | None"""
    s = ctx.sites(f, pattern, env)
    if len(s) != 1:
        ctx.ob(rule, f, f"{what}", False, detail=f"expected exactly one `{pattern}` in {f.qual}, found {len(s)}")
        return None
    return s[0]


def dominates_all_exits(ctx, rule, f: Func, pattern, instance, exits=("return",), native=False, env=None, count=None):
    """event `pattern` occurs on every path to the given exit kinds (optionally exactly `count` times)"""
    def step(st, e, c):
        if c.is_exc:
            return st
        return st + 1

    def at_exit(kind, st, facts):
        k0 = kind.split(":")[0]
        if kind in exits or k0 in exits:
            if st == 0:
                return f"`{pattern if isinstance(pattern, str) else instance}` does not occur on a path to {kind}"
            if count is not None and st != count:
                return f"`{pattern}` occurs {st} times on a path to {kind} (expected {count})"
        return None

    return ctx.paths(rule, f, [("ev", pattern)], step, 0, at_exit, instance=instance, native=native, env=env)


# ----------------------------------------------------------------------------- checkpoint typestate (R08-a)
CHK_PATS = ["await $B.checkpoint()", "await $B.checkpoint_if_cancelled()", "await checkpoint()", "await checkpoint_if_cancelled()"]
YIELD_PATS = ["await $B.checkpoint()", "await $B.cancel_shielded_checkpoint()", "await checkpoint()",
              "await cancel_shielded_checkpoint()"]


def checkpoint_typestate(ctx: Ctx, rule: str, f: Func, effects=(), undos=(), regs=(), blocks=(), assume=None,
                         instance="", native=True, env=None, require_yield=True, delegates=(),
                         require_undo=True):
    """R08-a automaton.
    CHK   cancellation check (checkpoint, checkpoint_if_cancelled, a really blocking await, a delegate)
    YIELD checkpoint, cancel_shielded_checkpoint, blocking await, delegate
    EFFECT the operation's effect (must come after a CHK)
    REG   registration of a waiter (needs UNDO if the wait is interrupted, no CHK needed before)
    UNDO  release / deregistration
    errors: EFFECT before CHK; normal return without YIELD; exit by cancellation after EFFECT/REG without UNDO."""
    # what is deregistered is what was registered: a metavariable shared by a registration and an undo pattern ($I, $E, ...) is bound
    # by the registration site of this function (`q.append(item)` ... `q.remove(item)`, not `q.remove(something_else)`)
    import re as _re0
    undos = list(undos)
    binds: dict[str, set] = {}
    for rp in regs:
        for _site, env_ in ctx.sites(f, rp, env):
            for k_, v_ in env_.items():
                if isinstance(v_, ast.AST):
                    binds.setdefault(k_, set()).add(ast.unparse(v_))
    def _inst(pat):
        for k_, vs_ in binds.items():
            if len(vs_) == 1 and _re0.search(r"\$" + k_ + r"\b", pat):
                v_ = next(iter(vs_))
                if "$" not in v_:
                    rep_ = v_ if _re0.fullmatch(r"[A-Za-z_][\w.]*", v_) else "(" + v_ + ")"
                    pat = _re0.sub(r"\$" + k_ + r"\b", lambda m_, r_=rep_: r_, pat)
        return pat
    undos = [_inst(u_) for u_ in undos]
    for pat in list(undos):
        m = _re0.match(r"^([A-Za-z_][\w.]*)\.pop\((.+), None\)$", pat)
        if m:
            undos.append(f"del {m.group(1)}[{m.group(2)}]")
        m = _re0.match(r"^del ([A-Za-z_][\w.]*)\[(.+)\]$", pat)
        if m:
            undos.append(f"{m.group(1)}.pop({m.group(2)}, None)")
        m = _re0.match(r"^([A-Za-z_][\w.]*)\.remove\((.+)\)$", pat)
        if m:
            undos.append(f"{m.group(1)}.discard({m.group(2)})")
    undos = list(dict.fromkeys(undos))
    # `await sleep(0)` is what checkpoint() / cancel_shielded_checkpoint() are made of: written out, it yields, and it is a
    # cancellation check unless it stands inside `with CancelScope(shield=True)`
    from sa.engine.cfg import is_shield_with as _is_shield
    from sa.engine.pattern import find_all as _find_all

    def _sleep0(frag, node, want_unshielded):
        if frag is None:
            return False
        for pat in ("await sleep(0)", "await asyncio.sleep(0)"):
            for m, _b in _find_all(pat, frag, own=True):
                cur, sh = m, False
                while cur is not None and cur is not f.node:
                    if isinstance(cur, (ast.With, ast.AsyncWith)) and _is_shield(cur):
                        sh = True
                    cur = getattr(cur, "_parent", None)
                if not (want_unshielded and sh):
                    return True
        return False

    spec = [("CHK", list(CHK_PATS) + list(blocks) + list(delegates) + [lambda frag, node: _sleep0(frag, node, True)]),
            ("YIELD", list(YIELD_PATS) + list(blocks) + list(delegates) + [lambda frag, node: _sleep0(frag, node, False)]),
            ("EFFECT", list(effects)), ("REG", list(regs)), ("UNDO", list(undos))]
    spec = [(n, p) for n, p in spec if p]
    # LBYL deregistration (`if item in q: q.remove(item)`): on the branch where the membership test fails nothing is registered any more
    import re as _re
    queues = set()
    for pat in list(undos):
        m = _re.match(r"^(?:del )?([A-Za-z_][\w.]*)(?:\.(?:remove|discard|pop)\(|\[)", pat)
        if m:
            queues.add(m.group(1))
    if queues:
        from sa.engine.facts import atom as _atom

        def gone(frag, node):
            if node.kind != "test":
                return False
            k, _ = _atom(node.node)
            return any(k.endswith(" in " + q) for q in queues)
        spec.append(("MEMBER", [gone]))

    # state: (chk, yielded, pending_effect)
    def step(st, e, c):
        chk, yl, eff = st
        if e == "MEMBER":
            if not c.is_exc and any(k.endswith(" in " + q) and p is False for q in queues for k, p in c.facts if (k, p) not in c.facts_before):
                return (chk, yl, False)
            return st
        if e == "CHK":
            return (True, yl, eff)          # on the exceptional edge the check raised: still "checked"
        if e == "YIELD":
            return (chk, yl or not c.is_exc, eff)
        if e == "EFFECT":
            if c.is_exc:
                return st                   # the effect statement itself raised: nothing was taken
            if not chk:
                return Bad("effect performed before any cancellation check")
            return (chk, yl, True)
        if e == "REG":
            if c.is_exc:
                return st
            return (chk, yl, True)
        if e == "UNDO":
            return (chk, yl, False)
        return st

    def at_exit(kind, st, facts):
        chk, yl, eff = st
        if kind == "return":
            if require_yield and not yl:
                return "returns without having yielded to the event loop"
            if not chk:
                return "returns without a cancellation check"
        elif kind.startswith("raise:"):
            if eff and require_undo:
                return f"leaves by {kind[6:]} after its effect/registration without undoing it"
        return None

    return ctx.paths(rule, f, spec, step, (False, False, False), at_exit, instance=instance or f.qual, native=native,
                     assume=assume, env=env)


# ----------------------------------------------------------------------------- wake-up not overtaken by cancellation (R12-g / R07-f)
def waiter_guard(ctx: Ctx, rule: str, instance: str):
    """in CancelScope._deliver_cancellation a task whose wake-up future has already completed (with a result *or* an exception)
    is not cancelled: the wake-up - an item handed over, a readiness value or a child's error stored in the future - would be
    replaced by the cancellation and lost"""
    deliver = ctx.fn("CancelScope._deliver_cancellation", A)
    cs = ctx.sites(deliver, "$T.cancel($*A)")
    ctx.need(rule, deliver, "`task.cancel(...)` in _deliver_cancellation", len(cs), 1)
    for call, env in cs:
        t = u(env["T"])
        w = ctx.sites(deliver, f"$W = {t}._fut_waiter")
        wn = u(w[0][1]["W"]) if w else f"{t}._fut_waiter"
        full = f"{t}._fut_waiter"      # (a temporary for the waiter is resolved to the attribute by the alias canonicalisation)
        ctx.require_at(rule, deliver, call, [[f"not isinstance({wn}, asyncio.Future)"], [f"not {wn}.done()"],
                                             [f"not isinstance({full}, asyncio.Future)"], [f"not {full}.done()"]],
                       instance=instance, what="task.cancel")


# ----------------------------------------------------------------------------- argument validation dominates every effect
def validated_first(ctx: Ctx, rule: str, f: Func, bad_fact: str, what: str):
    """the guard `if <bad_fact>: raise` dominates everything the function does: every await, every return and every call on
    `self` is reached only with the fact refuted (robust against statements being added before the guard that do nothing)"""
    rz = [r for r in own_walk(f.node) if isinstance(r, ast.Raise)]
    guarded = []
    for r in rz:
        fa = ctx.facts_at(f, r)
        if fa and all(F(bad_fact) in x for x in fa):
            guarded.append(r)
    if not ctx.need(rule, f, f"`if {bad_fact}: raise ...`", len(guarded), 1):
        return
    neg = F("not " + bad_fact)
    sites = [n for n in own_walk(f.node) if isinstance(n, (ast.Await, ast.Return))]
    sites += [n for n in own_walk(f.node) if isinstance(n, ast.Call) and isinstance(n.func, ast.Attribute) and ast.unparse(n.func).startswith("self.")]
    bad = None
    for n in sites:
        st = stmt_of(n)
        fa = ctx.facts_at(f, st)
        if fa and not all(neg in x for x in fa):
            bad = st
            break
    ctx.ob(rule, f, what, bad is None, node=bad, detail="" if bad is None else f"`{norm(bad)}` is reachable without `{bad_fact}` having been rejected", by=(f"not {bad_fact} at every await/return/self-call",))


# ----------------------------------------------------------------------------- iteration protocol of receive streams
def iteration_protocol(ctx: Ctx, rule: str, clsname: str):
    """`async for x in stream` is `receive()` until EndOfStream: __anext__ returns exactly what receive() returned, turns
    EndOfStream (and nothing else) into StopAsyncIteration, and __aiter__ returns the stream itself"""
    an = ctx.fn(f"{clsname}.__anext__", "abc/_streams.py")
    ai = ctx.fn(f"{clsname}.__aiter__", "abc/_streams.py")
    # (the awaited item returned directly, or bound to a local first and returned from the `else` clause / after the `try`)
    rets_ = [r for r in own_walk(an.node) if isinstance(r, ast.Return)]
    s = [r for r in rets_ if r.value is not None and ast.unparse(origin_of(an.node, r.value)) == "await self.receive()"]
    allrecv = [n for n in own_walk(an.node) if isinstance(n, ast.Call) and ast.unparse(n.func) == "self.receive"]
    ctx.ob(rule, an, f"{clsname}.__anext__ returns exactly what receive() returned", len(s) == 1 and len(rets_) == 1 and len(allrecv) == 1,
           detail="" if s else "__anext__ is not `return await self.receive()` (an item could be dropped, duplicated or altered by iteration)", by=("return await self.receive()",))
    # once receive() has handed over an item nothing in __anext__ can fail any more (a further checkpoint, say): an exception raised
    # there - a cancellation delivered at that point - would lose an item that has already left the stream

    def step_it(st, e, c):
        return True if e == "recv" and not c.is_exc else st

    def exit_it(kind, st, facts):
        if st and kind != "return":
            return f"{clsname}.__anext__ can raise after receive() returned an item: the item is neither delivered to the loop body nor left in the stream"
        return None

    ctx.paths(rule, an, [("recv", "await self.receive()")], step_it, False, exit_it, native=True, instance=f"{clsname}.__anext__ cannot fail once it holds an item")
    hs = [h for h in own_walk(an.node) if isinstance(h, ast.ExceptHandler)]
    ok = len(hs) == 1 and hs[0].type is not None and ast.unparse(hs[0].type) == "EndOfStream" and \
        any(isinstance(x, ast.Raise) and x.exc is not None and "StopAsyncIteration" in ast.unparse(x.exc) for x in hs[0].body)
    ctx.ob(rule, an, f"{clsname}.__anext__ ends the iteration exactly on EndOfStream", ok,
           detail="" if ok else "the handler in __anext__ is not `except EndOfStream: raise StopAsyncIteration` (other errors would silently end the loop, or the loop never ends)",
           by=("except EndOfStream: raise StopAsyncIteration",))
    s = ctx.sites(ai, "return self")
    ctx.ob(rule, ai, f"{clsname}.__aiter__ iterates the stream itself", len(s) == 1, detail="" if s else "__aiter__ does not return self", by=("return self",))


# ----------------------------------------------------------------------------- is_anyio_cancellation is total and walks only CancelledErrors
def classifier_total(ctx: Ctx, rule: str):
    """is_anyio_cancellation() runs inside CancelScope.__exit__ and TaskGroup.__aexit__: it must classify *every* CancelledError
    without raising (a native one can carry no message, or any object as message) and must follow __context__ only from one
    CancelledError to the next"""
    isa = ctx.fn("is_anyio_cancellation", A)
    n = 0
    for call, env in ctx.sites(isa, "$X.startswith($P)"):
        x = env["X"]
        if isinstance(x, ast.Subscript):
            n += 1
            base = u(x.value)
            ctx.require_at(rule, isa, call, [[base, f"isinstance({u(x)}, str)"]],
                           instance="the prefix test is reached only for a non-empty args tuple whose first element is a string (else it raises inside __exit__/__aexit__)",
                           what="startswith")
    ctx.need(rule, isa, "prefix test `exc.args[0].startswith(...)`", n, 1)
    adv = ctx.sites(isa, "$X = $X.__context__")
    ctx.need(rule, isa, "walk along `__context__`", len(adv), 1)
    for st, env in adv:
        xv = u(env["X"])
        ctx.require_at(rule, isa, st, [[f"isinstance({xv}.__context__, CancelledError)"]],
                       instance="the walk follows __context__ only from one CancelledError to another (an ordinary exception in between ends it)", what="advance")


# ----------------------------------------------------------------------------- a parameter reaches a keyword of a sink call
def forwards_param(f: Func, param: str, sinks, kw: str | None = None) -> list:
    """call sites in f (own body) of one of `sinks` that receive the parameter `param` unchanged as keyword `kw`"""
    kw = kw or param
    out = []
    for n in own_walk(f.node):
        if isinstance(n, ast.Call) and call_name(n) in sinks:
            for k in n.keywords:
                if k.arg == kw and isinstance(k.value, ast.Name) and k.value.id == param:
                    out.append(n)
    return out


def shield_chain(ctx: Ctx, rule: str):
    """the `shield` argument of the timeout helpers reaches the scope that is actually entered"""
    sinks = {"create_cancel_scope", "CancelScope", "fail_at", "fail_after", "move_on_at", "move_on_after"}
    for q in ("fail_at", "fail_after", "move_on_at", "move_on_after"):
        f = ctx.fn(q, TASKS)
        params = [a.arg for a in f.node.args.args + f.node.args.kwonlyargs]
        ok = "shield" in params and len(forwards_param(f, "shield", sinks)) >= 1
        ctx.ob(rule, f, f"{q}(..., shield=...) passes its shield flag on to the scope it creates", ok,
               detail="" if ok else f"{q} does not forward `shield=shield` to any scope-creating call: a block declared shielded would be interruptible from outside",
               by=("shield=shield",))
    ccs = ctx.fn("AsyncIOBackend.create_cancel_scope", A)
    ok = len(forwards_param(ccs, "shield", {"CancelScope"})) == 1
    ctx.ob(rule, ccs, "the backend factory passes shield on to CancelScope", ok, detail="" if ok else "create_cancel_scope drops shield", by=("CancelScope(shield=shield)",))
    init = ctx.fn("CancelScope.__init__", A)
    ok = len(ctx.sites(init, "self._shield = shield")) == 1
    ctx.ob(rule, init, "the scope stores the shield flag it was given", ok, detail="" if ok else "CancelScope.__init__ does not store shield", by=("self._shield = shield",))
    pub = ctx.fn("CancelScope.__new__", TASKS)
    ok = len(forwards_param(pub, "shield", {"create_cancel_scope"})) == 1
    ctx.ob(rule, pub, "anyio.CancelScope(shield=...) passes shield to the backend factory", ok, detail="" if ok else "the public CancelScope factory drops shield", by=("shield=shield",))


# ----------------------------------------------------------------------------- value of a local defined once or in both arms of one `if`
def resolve_value(fn, e, within=None):
    """follow a local: a single assignment gives its value; one assignment in each arm of the same `if` (the canonical form of
    `x = A if c else B`, see core._expand_conditional_expressions) gives the equivalent conditional expression"""
    if not isinstance(e, ast.Name):
        return e
    root = within if within is not None else fn
    defs = [n for n in own_walk(root) if isinstance(n, ast.Assign) and len(n.targets) == 1 and isinstance(n.targets[0], ast.Name)
            and n.targets[0].id == e.id]
    if len(defs) == 1:
        return defs[0].value
    if len(defs) == 2:
        pa, pb = getattr(defs[0], "_parent", None), getattr(defs[1], "_parent", None)
        if pa is pb and isinstance(pa, ast.If):
            a, b = defs
            if a in pa.orelse and b in pa.body:
                a, b = b, a
            if a in pa.body and b in pa.orelse and len(pa.body) == 1 and len(pa.orelse) == 1:
                return ast.IfExp(test=pa.test, body=a.value, orelse=b.value)
    return e


def eval_under(e, assign):
    """value of a boolean expression under a total assignment {canonical atom key: bool}; None if it mentions anything else"""
    from sa.engine.facts import atom
    if isinstance(e, ast.Constant) and isinstance(e.value, bool):
        return e.value
    if isinstance(e, ast.BoolOp):
        vals = [eval_under(v, assign) for v in e.values]
        if isinstance(e.op, ast.And):
            # short-circuit: a False conjunct decides even if a later operand is not evaluable
            for v in vals:
                if v is False:
                    return False
                if v is None:
                    return None
            return True
        for v in vals:
            if v is True:
                return True
            if v is None:
                return None
        return False
    if isinstance(e, ast.UnaryOp) and isinstance(e.op, ast.Not):
        v = eval_under(e.operand, assign)
        return None if v is None else (not v)
    if isinstance(e, ast.IfExp):
        t = eval_under(e.test, assign)
        return None if t is None else eval_under(e.body if t else e.orelse, assign)
    k, pol = atom(e)
    if k in assign:
        return assign[k] == pol
    return None


def truth_table(ctx, rule, f, atoms, expected, what, by=()):
    """the function is a pure predicate over the given atoms: on every path to every `return`, under every valuation of the atoms that
    is consistent with the facts of that path, the returned expression has the value `expected(valuation)`.
    atoms: {name: [source texts of equivalent spellings]}; expected gets {name: bool}.  Shape-agnostic: one conjunction, guard clauses
    with early returns, nested ifs and conditional expressions all evaluate to the same table."""
    import itertools
    from sa.engine.facts import F
    keys = {}
    for name, spell in atoms.items():
        for t in spell:
            k, pol = F(t)
            keys[k] = (name, pol)
    rets = [n for n in own_walk(f.node) if isinstance(n, ast.Return)]
    bad = []
    nrows = 0
    for r in rets:
        fa = ctx.facts_at(f, r)
        if not fa:
            continue        # unreachable return
        for facts in fa:
            fixed = {}
            for k, p in facts:
                if k in keys:
                    name, pol = keys[k]
                    fixed[name] = (p == pol)
            free = [n for n in atoms if n not in fixed]
            for combo in itertools.product((True, False), repeat=len(free)):
                val = dict(fixed)
                val.update(zip(free, combo))
                assign = {k: (val[name] == pol) for k, (name, pol) in keys.items()}
                got = eval_under(r.value, assign) if r.value is not None else False
                want = expected(val)
                nrows += 1
                if got is None:
                    bad.append((r, f"`{norm(r)}` is not a function of {sorted(atoms)} alone"))
                elif want is not None and got != want:
                    bad.append((r, f"`{norm(r)}` yields {got} for {val}; required {want}"))
    ok = bool(rets) and not bad and nrows > 0
    node = bad[0][0] if bad else None
    ctx.ob(rule, f, what, ok, node=node, detail="" if ok else ("; ".join(sorted({m for _, m in bad}))[:600] or "no return statement"),
           by=by or (f"{nrows} rows over {len(rets)} return(s)",))
    return ok


def origin_of(fn, e, depth=5):
    """follow a local name back through its definitions in fn (plain `name = value` assignments; definitions by the constant None are
    skipped: they stand for "nothing", and a use that unpacks or dereferences the value cannot be reached with them).  Returns the
    originating expression, or the name itself when the trail is not unique."""
    seen = 0
    while isinstance(e, ast.Name) and seen < depth:
        defs = [n for n in own_walk(fn) if isinstance(n, (ast.Assign, ast.AnnAssign)) and getattr(n, "value", None) is not None
                and (n.targets if isinstance(n, ast.Assign) else [n.target]) == [t for t in (n.targets if isinstance(n, ast.Assign) else [n.target])
                                                                                     if isinstance(t, ast.Name) and t.id == e.id]]
        defs = [d for d in defs if not (isinstance(d.value, ast.Constant) and d.value.value is None)]
        if len(defs) != 1:
            return e
        e = defs[0].value
        seen += 1
    return e


def guarded_take(ctx, rule, f, site, container, instance, errors=("IndexError", "LookupError")):
    """a positional take from `container` happens only when it is non-empty: either the emptiness was tested (LBYL: the fact holds
    at the site) or the take stands in a `try` whose handlers catch the lookup error it raises on an empty container (EAFP)"""
    from sa.engine.cfg import handler_names
    st = stmt_of(site)
    prev, cur = st, getattr(st, "_parent", None)
    while cur is not None and cur is not f.node:
        if isinstance(cur, ast.Try) and prev in cur.body and any(set(handler_names(h)) & set(errors) for h in cur.handlers):
            return ctx.ob(rule, f, instance, True, node=st, by=("EAFP: " + "/".join(errors) + " handler",))
        prev, cur = cur, getattr(cur, "_parent", None)
    return ctx.require_at(rule, f, site, [[container]], instance=instance)


def shielded_checkpoint_is_shielded(ctx, rule):
    """(C08/R08-0, C04) every yield of cancel_shielded_checkpoint() happens inside `with CancelScope(shield=True)`: a cancellation that
    arrives while the task is suspended there must not be delivered into code documented as shielded"""
    from sa.engine.cfg import is_shield_with
    csc = ctx.fn("AsyncIOBackend.cancel_shielded_checkpoint", A)
    s = ctx.sites(csc, "await sleep(0)") + ctx.sites(csc, "await asyncio.sleep(0)")
    aws = [n for n in own_walk(csc.node) if isinstance(n, ast.Await)]
    ok = len(s) >= 1 and all(lexically_inside(a_, is_shield_with, stop=csc.node) for a_ in aws)
    ctx.ob(rule, csc, "cancel_shielded_checkpoint() yields inside `with CancelScope(shield=True)`", ok,
           detail="" if ok else "a yield of cancel_shielded_checkpoint is not shielded (or missing)", by=("shielded sleep(0)",))
    dominates_all_exits(ctx, rule, csc, "await sleep(0)", "cancel_shielded_checkpoint() yields on every path")


# ----------------------------------------------------------------------------- rules of another property that this one rests on
def shared_rules(ctx, modname: str, mapping: dict):
    """run the rule module `modname` and keep, under this property's own rule ids, the obligations of the rules named in `mapping`
    ({their id: our id}); everything else that module establishes is dropped here (it is reported by its own property's check)"""
    import importlib
    mod = importlib.import_module(f"sa.rules.{modname}")
    n0 = len(ctx.obs)
    info0 = len(ctx.info)
    mod.check(ctx)
    kept = []
    for o in ctx.obs[n0:]:
        if o.rule in mapping:
            new = mapping[o.rule]
            if o.key.startswith(o.rule):
                o.key = new + o.key[len(o.rule):]
            o.rule = new
            kept.append(o)
    ctx.obs[n0:] = kept
    del ctx.info[info0:]
    return kept
