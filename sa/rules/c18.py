"""C18 — Socket streams deliver the byte stream intact, with back-pressure and EOF."""
from __future__ import annotations

import ast

from sa.engine.cfg import call_name, handler_names
from sa.engine.facts import Bad, F, atom
from sa.engine.pattern import u, find_all
from sa.engine.source import norm, own_walk, stmt_of, AnalysisError
from .common import A, SYNC, lexically_inside, enclosing, dominates_all_exits, block_head, validated_first

EXPLANATION = ("Socket streams: the protocol appends received data at the tail of the read queue, receive() takes from the head, splits an "
               "oversized chunk with complementary slices at max_bytes and pushes the remainder back at the head; reading is resumed only "
               "around receive()'s own wait and paused again on every exit of that wait (cancellation included), and every site that "
               "constructs a SocketStream pauses reading first (back-pressure instead of unbounded buffering); the write buffer limit is 0 and "
               "send() waits for the write gate after writing; an empty queue maps to ClosedResourceError / BrokenResourceError / EndOfStream "
               "in that order; the read event is cleared exactly when the queue is empty; eof_received keeps the write side open; closed and "
               "broken streams refuse send before writing; both directions of both stream classes run inside their own ResourceGuard; the UNIX "
               "stream sends until the view is empty advancing by exactly the bytes sent, passes max_bytes to recv and maps errors by state; "
               "except clauses are not shadowed (BlockingIOError before OSError)."
               " A would-block waits for readiness in the direction of the blocked operation, and the two wait helpers register, unregister and record their own direction."
               " Closing a raw socket stream wakes a blocked receive and a blocked send independently of one another; the write gate is read after the write (callback-written fields are never aliased across a call).")
NOT_DECIDED = "Kernel socket buffers, asyncio transport internals, uvloop, ProactorEventLoop, real full-duplex timing."


def check(ctx):
    SS = {k: ctx.fn(f"SocketStream.{k}", A) for k in ("receive", "send", "send_eof", "aclose", "__init__")}
    SP = {k: ctx.fn(f"StreamProtocol.{k}", A) for k in ("connection_made", "connection_lost", "data_received", "eof_received", "pause_writing", "resume_writing")}
    rc = SS["receive"]
    fn = rc.node
    mb = fn.args.args[1].arg
    RQ = "self._protocol.read_queue"

    # ---- R18-a conservation / order --------------------------------------------------------------------------------------------------------
    dr = SP["data_received"]
    dparam = dr.node.args.args[1].arg
    ap = ctx.sites(dr, f"self.read_queue.append(bytes({dparam}))") + ctx.sites(dr, f"self.read_queue.append({dparam})")
    ctx.ob("R18-a", dr, "received data is appended whole at the tail of the read queue", len(ap) == 1, detail="" if ap else "data_received does not `self.read_queue.append(bytes(data))`", by=("append at tail",))
    ev = ctx.sites(dr, "self.read_event.set()")
    ctx.ob("R18-a", dr, "arrival of data wakes a waiting receive()", len(ev) == 1, detail="" if ev else "data_received does not set the read event", by=("read_event.set()",))
    puts = [n for f in ctx.repo.funcs_in(A) for n in own_walk(f.node) if isinstance(n, ast.Call) and isinstance(n.func, ast.Attribute)
            and isinstance(n.func.value, ast.Attribute) and n.func.value.attr == "read_queue" and ctx.repo.func_of(n) is not None
            and ctx.repo.func_of(n).cls in ("StreamProtocol", "SocketStream")]
    kinds = sorted((ctx.repo.func_of(n).qual, n.func.attr) for n in puts)
    exp = [("SocketStream.receive", "appendleft"), ("SocketStream.receive", "popleft"), ("StreamProtocol.data_received", "append")]
    ctx.ob("R18-a", rc, "queue discipline of read_queue: produced at the tail, consumed and pushed back at the head, nowhere else", kinds == exp,
           detail="" if kinds == exp else f"operations on read_queue are {kinds}; required {exp} (FIFO byte order)", by=tuple(f"{q}:{m}" for q, m in exp))
    pops = ctx.sites(rc, f"$C = {RQ}.popleft()")
    if not ctx.need("R18-a", rc, "`chunk = self._protocol.read_queue.popleft()`", len(pops), 1):
        return
    ch = u(pops[0][1]["C"])
    spl = ctx.sites(rc, f"{ch}, $L = ({ch}[:$N], {ch}[$M:])")
    if ctx.need("R18-a", rc, "split `chunk, leftover = chunk[:max_bytes], chunk[max_bytes:]`", len(spl), 1):
        st, env = spl[0]
        ok = ast.unparse(env["N"]) == mb and ast.unparse(env["M"]) == mb
        ctx.ob("R18-a", rc, "an oversized chunk is split by complementary slices at max_bytes", ok, node=st, detail="" if ok else f"`{norm(st)}` does not split at {mb} on both sides", by=(f"[:{mb}] / [{mb}:]",))
        ctx.require_at("R18-a", rc, st, [[f"{mb} < len({ch})"]], instance="split only when the chunk is longer than max_bytes", what="split")
        lo = u(env["L"])
        pb = ctx.sites(rc, f"{RQ}.appendleft({lo})")
        okp = len(pb) == 1 and stmt_of(pb[0][0])._parent is st._parent and stmt_of(pb[0][0]).lineno > st.lineno
        ctx.ob("R18-a", rc, "the remainder is pushed back at the head of the queue, right after the split", okp, node=st,
               detail="" if okp else f"`{lo}` is not pushed back with appendleft in the same block (bytes lost or reordered)", by=("appendleft(leftover)",))
    rets = [n for n in own_walk(fn) if isinstance(n, ast.Return)]
    okr = len(rets) == 1 and rets[0].value is not None and ast.unparse(rets[0].value) == ch
    ctx.ob("R18-a", rc, "receive returns the chunk taken from the queue", okr, detail="" if okr else "SocketStream.receive does not `return chunk`", by=(f"return {ch}",))
    # an unsplit chunk is returned only if it fits max_bytes

    def step_f(st, e, c):
        if c.is_exc:
            return st
        if e == "pop":
            return "popped"
        if e == "split":
            return "split"
        return st

    def at_exit_f(kind, st, facts):
        if kind == "return" and st == "popped" and (f"{mb} < len({ch})", False) not in facts:
            return "a chunk is returned without having been compared with max_bytes (receive could return more than max_bytes)"
        return None

    ctx.paths("R18-a", rc, [("pop", f"{ch} = {RQ}.popleft()"), ("split", f"{ch}, $L = ({ch}[:$N], {ch}[$M:])")], step_f, "", at_exit_f,
              instance="a chunk longer than max_bytes is never returned whole", native=True)
    validated_first(ctx, "R18-a", rc, f"{mb} < 1", "max_bytes < 1 is rejected first (a split at 0 would return an empty chunk)")
    # UNIX stream
    ur = ctx.fn("UNIXSocketStream.receive", A)
    us = ctx.fn("UNIXSocketStream.send", A)
    umb = ur.node.args.args[1].arg
    rv = ctx.sites(ur, f"$D = self._raw_socket.recv($N)")
    if ctx.need("R18-a", ur, "`data = self._raw_socket.recv(max_bytes)`", len(rv), 1):
        d = u(rv[0][1]["D"])
        ok = ast.unparse(rv[0][1]["N"]) == umb
        ctx.ob("R18-a", ur, "recv is bounded by max_bytes", ok, node=rv[0][0], detail="" if ok else f"`{norm(rv[0][0])}`", by=(umb,))
        for r in [n for n in own_walk(ur.node) if isinstance(n, ast.Return)]:
            okv = r.value is not None and ast.unparse(r.value) == d
            ctx.ob("R18-a", ur, "the bytes read are returned as they are", okv, node=r, detail="" if okv else f"`{norm(r)}`", by=(d,))
            ctx.require_at("R18-c", ur, r, [[d]], instance="an empty read is never returned as data", what="return")
        eos = ctx.sites(ur, "raise EndOfStream")
        if ctx.need("R18-c", ur, "`raise EndOfStream` on an empty read", len(eos), 1):
            ctx.require_at("R18-c", ur, eos[0][0], [[f"not {d}"]], instance="EndOfStream exactly on an empty read")
    validated_first(ctx, "R18-a", ur, f"{umb} < 1", "max_bytes < 1 is rejected first")
    item = us.node.args.args[1].arg
    vw = ctx.sites(us, f"$V = memoryview({item})")
    if ctx.need("R18-a", us, "`view = memoryview(item)`", len(vw), 1):
        v = u(vw[0][1]["V"])
        sn = ctx.sites(us, f"$B = self._raw_socket.send({v})")
        loops = [n for n in own_walk(us.node) if isinstance(n, ast.While) and F(ast.unparse(n.test)) == F(v)]       # (`while view:`, `while len(view) > 0:`)
        ctx.ob("R18-a", us, "send loops until the view is empty", len(loops) == 1, detail="" if loops else f"no `while {v}:` loop", by=(f"while {v}",))
        if ctx.need("R18-a", us, "`bytes_sent = self._raw_socket.send(view)`", len(sn), 1):
            b = u(sn[0][1]["B"])
            adv = ctx.sites(us, f"{v} = {v}[{b}:]")
            ctx.ob("R18-a", us, "the view advances by exactly the number of bytes the kernel accepted", len(adv) == 1, detail="" if adv else f"no `{v} = {v}[{b}:]` (bytes skipped or sent twice)", by=(f"{v}[{b}:]",))
            others = [n for n in own_walk(us.node) if isinstance(n, ast.Assign) and any(getattr(t, "id", None) == v for t in n.targets) and n is not vw[0][0] and (not adv or n is not adv[0][0])]
            ctx.ob("R18-a", us, "nothing else moves the view", not others, detail="" if not others else f"`{norm(others[0])}`", by=("single advance",))

    # ---- R18-b back-pressure ------------------------------------------------------------------------------------------------------------------
    def step_b(st, e, c):
        if e == "resume" and not c.is_exc:
            return "reading"
        if e == "pause" and not c.is_exc:
            return "paused"
        if e == "wait":
            if st != "reading" and not c.is_exc:
                return Bad("receive() waits for data although reading was not resumed (it would wait forever on a paused transport)")
        return st

    def at_exit_b(kind, st, facts):
        if st == "reading":
            return f"receive() leaves by {kind} with the transport still reading: data then accumulates without bound while nobody receives (no back-pressure)"
        return None

    ctx.paths("R18-b", rc, [("resume", "self._transport.resume_reading()"), ("pause", "self._transport.pause_reading()"), ("wait", "await self._protocol.read_event.wait()")],
              step_b, "", at_exit_b, instance="reading is resumed only around the wait and paused on every exit from it", native=True)
    rs = ctx.sites(rc, "self._transport.resume_reading()")
    if ctx.need("R18-b", rc, "`self._transport.resume_reading()`", len(rs), 1):
        ctx.require_at("R18-b", rc, stmt_of(rs[0][0]), [["not self._protocol.read_event.is_set()", "not self._transport.is_closing()", "not self._protocol.is_at_eof"]],
                       instance="receive() waits only if nothing is ready, the transport is open and the peer has not sent EOF (otherwise it would block forever)", what="resume_reading")
    allres = [ctx.repo.func_of(n) for f in ctx.repo.funcs_in(A) for n in own_walk(f.node) if isinstance(n, ast.Call) and call_name(n) == "resume_reading"]
    okw = all(f is not None and f.qual == "SocketStream.receive" for f in allres)
    ctx.ob("R18-b", rc, "reading is resumed nowhere else", okw, detail="" if okw else f"resume_reading() also called in {[f.qual for f in allres if f and f.qual != 'SocketStream.receive']}", by=("writer table",))
    # construction sites
    sites = []
    for f in ctx.repo.funcs_in(A):
        for n in own_walk(f.node):
            if isinstance(n, ast.Call) and getattr(n.func, "id", "") == "SocketStream":
                sites.append((ctx.repo.func_of(n), n))
    ctx.floor("R18-b", "construction sites of SocketStream", len(sites), 3)
    for f, n in sites:
        tv = ast.unparse(n.args[0]) if n.args else "?"

        def step_k(st, e, c, tv=tv):
            if c.is_exc:
                return st
            if e == "conn":
                return "reading"
            if e == "pause":
                return "paused"
            if e == "susp" and st == "paused":
                return "paused"      # pause is sticky across suspension: only resume_reading undoes it
            if e == "make":
                if st != "paused":
                    return Bad("a SocketStream is handed out on a transport whose reading was not paused: data arriving before the first receive() is buffered without bound and receive() never pauses again")
            return st

        ctx.paths("R18-b", f, [("conn", [f"{tv}, $P = $X", f"{tv}, $P = await $X"]), ("pause", f"{tv}.pause_reading()"), ("make", f"SocketStream({tv}, $P)")],
                  step_k, "", None, instance=f"{f.qual}: reading paused before the stream is handed out")
    # write side
    cm = SP["connection_made"]
    s1 = ctx.sites(cm, "$T.set_write_buffer_limits(0)")
    s2 = ctx.sites(cm, "self.write_event.set()")
    ctx.ob("R18-b", cm, "the transport's write buffer limit is 0 and the write gate starts open", len(s1) == 1 and len(s2) == 1,
           detail="" if s1 and s2 else "connection_made does not set_write_buffer_limits(0) / open the write gate", by=("set_write_buffer_limits(0)", "write_event.set()"))
    pw, rw = SP["pause_writing"], SP["resume_writing"]
    s = ctx.sites(pw, "self.write_event = asyncio.Event()")
    ctx.ob("R18-b", pw, "pause_writing closes the write gate", len(s) == 1, detail="" if s else "pause_writing does not replace the gate with an unset event", by=("new unset Event",))
    s = ctx.sites(rw, "self.write_event.set()")
    ctx.ob("R18-b", rw, "resume_writing opens the write gate", len(s) == 1, detail="" if s else "resume_writing does not set the gate", by=("write_event.set()",))
    sd = SS["send"]
    sitem = sd.node.args.args[1].arg

    def step_s(st, e, c):
        if e == "write" and not c.is_exc:
            return "written"
        if e == "gate" and not c.is_exc and st == "written":
            return "gated"
        return st

    def at_exit_s(kind, st, facts):
        if kind == "return" and st != "gated":
            return "send() returns without waiting for the write gate after writing (a fast writer fills the transport buffer without bound)" if st == "written" else "send() returns without writing"
        return None

    ctx.paths("R18-b", sd, [("write", f"self._transport.write({sitem})"), ("gate", "await self._protocol.write_event.wait()")], step_s, "", at_exit_s,
              instance="send writes the item, then waits for the write gate")

    # ---- R18-c EOF / closed / busy table ------------------------------------------------------------------------------------------------------------
    # (the "no data left" case is either the IndexError handler of the dequeue or an explicit emptiness test: in both the queue is
    # known to be empty where the verdict is raised)
    if True:
        h = fn
        table = [("raise ClosedResourceError from None", [["self._closed"]], "ClosedResourceError on a locally closed stream once no received data is left"),
                 ("raise BrokenResourceError from self._protocol.exception", [["not self._closed", "self._protocol.exception"]], "BrokenResourceError when the connection was lost with an error"),
                 ("raise EndOfStream from None", [["not self._closed", "not self._protocol.exception"]], "EndOfStream only when neither closed locally nor broken")]
        for pat, dnf, what in table:
            ss = find_all(pat, h)
            if ctx.need("R18-c", rc, f"`{pat}`", len(ss), 1):
                ctx.require_at("R18-c", rc, ss[0][0], [d + [f"not {RQ}"] for d in dnf], instance=what, what=pat, native=True)
    clr = ctx.sites(rc, "self._protocol.read_event.clear()")
    if ctx.need("R18-c", rc, "`self._protocol.read_event.clear()`", len(clr), 1):
        ctx.require_at("R18-c", rc, stmt_of(clr[0][0]), [[f"not {RQ}"]], instance="the read event is cleared only when the queue is empty (else the next receive would block on data already received)",
                       what="read_event.clear()", native=True)

        def step_c(st, e, c):
            if c.is_exc:
                return st
            if e == "pop":
                return "popped"
            if e == "clear":
                return "cleared"
            return st

        def at_exit_c(kind, st, facts):
            if kind == "return" and st == "popped" and (RQ, True) not in facts:
                return "receive() returns with a possibly empty queue without clearing the read event (the next call would not wait and report a false EndOfStream)"
            if kind == "return" and st == "cleared" and (RQ, False) not in facts:
                return "the read event was cleared but the queue was touched afterwards (a pushed-back remainder would sit in the queue while the next receive() waits for new data)"
            return None

        ctx.paths("R18-c", rc, [("pop", f"$C = {RQ}.popleft()"), ("clear", "self._protocol.read_event.clear()")], step_c, "", at_exit_c,
                  instance="read event cleared whenever the queue is left empty", native=True)

    def step_y(st, e, c):
        if e == "aw" and not c.is_exc:
            return True
        if e == "pop" and not st:
            return Bad("data is dequeued before any checkpoint/wait on this path")
        return st

    ctx.paths("R18-c", rc, [("aw", ["await $X"]), ("pop", f"$C = {RQ}.popleft()")], step_y, False, None, instance="a checkpoint or the wait precedes the dequeue", native=True)
    ef = SP["eof_received"]
    s1 = ctx.sites(ef, "self.is_at_eof = True")
    s2 = ctx.sites(ef, "self.read_event.set()")
    s3 = ctx.sites(ef, "return True")
    ctx.ob("R18-c", ef, "EOF from the peer is recorded, wakes the reader and keeps the write side open (half-close)", len(s1) == 1 and len(s2) == 1 and len(s3) == 1,
           detail="" if s1 and s2 and s3 else "eof_received does not set is_at_eof, set the read event and return True", by=("is_at_eof", "read_event.set()", "return True"))
    cl = SP["connection_lost"]
    eparam = cl.node.args.args[1].arg
    s1 = ctx.sites(cl, f"self.exception = {eparam}")
    s2 = ctx.sites(cl, "self.read_event.set()")
    s3 = ctx.sites(cl, "self.write_event.set()")
    ctx.ob("R18-c", cl, "a lost connection records its error and wakes blocked readers and writers", len(s1) == 1 and len(s2) == 1 and len(s3) == 1,
           detail="" if s1 and s2 and s3 else "connection_lost does not record the exception / set both events", by=("exception", "read_event.set()", "write_event.set()"))
    dominates_all_exits(ctx, "R18-c", cl, "self.read_event.set()", "connection_lost always wakes the reader")
    dominates_all_exits(ctx, "R18-c", cl, "self.write_event.set()", "connection_lost always wakes the writer")
    # send refuses before writing
    wr = ctx.sites(sd, f"self._transport.write({sitem})")
    if ctx.need("R18-c", sd, "`self._transport.write(item)`", len(wr), 1):
        ctx.require_at("R18-c", sd, stmt_of(wr[0][0]), [["not self._closed", "self._protocol.exception is None"]],
                       instance="nothing is written on a closed or broken stream", what="transport.write")
    for pat, dnf in (("raise ClosedResourceError", [["self._closed"]]), ("raise BrokenResourceError from self._protocol.exception", [["not self._closed", "not self._protocol.exception is None"]])):
        ss = ctx.sites(sd, pat)
        if ctx.need("R18-c", sd, f"`{pat}` in send", len(ss), 1):
            ctx.require_at("R18-c", sd, ss[0][0], dnf, instance=f"{pat.split()[1]} in send exactly in that state", what=pat)
    ac = SS["aclose"]
    def step_ac(st, e, c):
        if e == "mark" and not c.is_exc:
            return True
        if e == "io" and not st:
            return Bad("aclose touches the transport before marking the stream closed (a concurrent receive woken by the close would report EndOfStream/BrokenResourceError instead of ClosedResourceError)")
        return st

    ctx.paths("R18-c", ac, [("mark", "self._closed = True"), ("io", ["self._transport.$M($*A)", "await $X"])], step_ac, False,
              lambda k, st, fa: "aclose returns without marking the stream closed" if k == "return" and not st else None,
              instance="aclose marks the stream closed before anything else")
    s1 = ctx.sites(ac, "self._transport.write_eof()")
    s2 = ctx.sites(ac, "self._transport.close()")
    ctx.ob("R18-c", ac, "closing sends EOF and closes the transport (the peer reads the remaining bytes, then EndOfStream)", len(s1) == 1 and len(s2) == 1 and s1[0][0].lineno < s2[0][0].lineno,
           detail="" if s1 and s2 else "aclose does not write_eof() then close()", by=("write_eof(); close()",))
    se = SS["send_eof"]
    s1 = ctx.sites(se, "self._transport.write_eof()")
    ctx.ob("R18-c", se, "send_eof half-closes the transport", len(s1) == 1, detail="" if s1 else "send_eof does not call transport.write_eof()", by=("write_eof()",))
    # guards
    for f, g in ((rc, "self._receive_guard"), (sd, "self._send_guard"), (ur, "self._receive_guard"), (us, "self._send_guard")):
        ws = [n for n in own_walk(f.node) if isinstance(n, ast.With) and any(ast.unparse(i.context_expr) == g for i in n.items)]
        ok = len(ws) == 1
        if ok:
            w = ws[0]
            outside = [n for n in own_walk(f.node) if isinstance(n, ast.Call) and (ast.unparse(n.func).startswith(("self._protocol.read_queue.", "self._transport.write", "self._raw_socket.recv", "self._raw_socket.send")))
                       and not lexically_inside(n, lambda x: x is w, stop=f.node)]
            ok = not outside
        ctx.ob("R18-c", f, f"{f.qual} touches the socket/queue only inside `with {g}` (concurrent use is rejected, not interleaved)", ok,
               detail="" if ok else f"{f.qual} does not run its I/O inside `with {g}`", by=(g,))
    for cls in ("SocketStream", "_RawSocketMixin"):
        init = ctx.fn(f"{cls}.__init__", A)
        a = ctx.sites(init, "self._receive_guard = ResourceGuard($*A)")
        b = ctx.sites(init, "self._send_guard = ResourceGuard($*A)")
        ctx.ob("R18-c", init, "each direction has its own guard (full duplex is allowed)", len(a) == 1 and len(b) == 1, detail="" if a and b else "the two guards are not created separately", by=("two ResourceGuards",))
    ge = ctx.fn("ResourceGuard.__enter__", SYNC)
    gx = ctx.fn("ResourceGuard.__exit__", SYNC)
    rz = ctx.sites(ge, "raise BusyResourceError($*A)")
    if ctx.need("R18-c", ge, "`raise BusyResourceError`", len(rz), 1):
        ctx.require_at("R18-c", ge, rz[0][0], [["self._guarded"]], instance="BusyResourceError exactly when the resource is already in use")

    def at_exit_g(kind, st, facts):
        if kind == "return" and not st:
            return "ResourceGuard.__enter__ returns without marking the resource as in use"
        return None

    ctx.paths("R18-c", ge, [("set", "self._guarded = True")], lambda st, e, c: True if not c.is_exc else st, False, at_exit_g, instance="entering marks the resource busy")
    sets = ctx.sites(ge, "self._guarded = True")
    for st_, _ in sets:
        ctx.require_at("R18-c", ge, st_, [["not self._guarded"]], instance="the guard is taken only when free")
    dominates_all_exits(ctx, "R18-c", gx, "self._guarded = False", "leaving always frees the guard")
    # UNIX error mapping and shadowing
    for f in (ur, us):
        for t in [x for x in own_walk(f.node) if isinstance(x, ast.Try)]:
            seen = []
            for h in t.handlers:
                for nm in handler_names(h):
                    sh = [p for p in seen if ctx.hier.is_sub(nm, p)]
                    ctx.ob("R18-c", f, f"except {nm} is not shadowed by an earlier clause", not sh, node=h,
                           detail="" if not sh else f"`except {nm}` can never run: an earlier clause catches its base class {sh[0]} (a would-block would be reported as a broken stream)", by=("handler order",))
                seen += handler_names(h)
        cr = ctx.sites(f, "raise ClosedResourceError from None")
        bk = ctx.sites(f, "raise BrokenResourceError from $E")
        if ctx.need("R18-c", f, "OSError mapping (ClosedResourceError / BrokenResourceError)", min(len(cr), len(bk)), 1):
            ctx.require_at("R18-c", f, cr[0][0], [["self._closing"]], instance="ClosedResourceError exactly on a locally closed socket", broad=True)
            ctx.require_at("R18-c", f, bk[0][0], [["not self._closing"]], instance="BrokenResourceError for an OS error on an open socket", broad=True)
        wt = ctx.sites(f, "await self._wait_until_readable($L)") + ctx.sites(f, "await self._wait_until_writable($L)")
        okw = len(wt) == 1 and isinstance(enclosing(wt[0][0], (ast.ExceptHandler,), stop=f.node), ast.ExceptHandler) and \
            "BlockingIOError" in handler_names(enclosing(wt[0][0], (ast.ExceptHandler,), stop=f.node))
        ctx.ob("R18-c", f, "a would-block waits for the socket and retries (no busy loop, no loss)", okw, detail="" if okw else "the wait for readiness is not the BlockingIOError handler", by=("except BlockingIOError: await wait",))

    # ---- R18-d `async for` over the stream is receive() until EndOfStream -------------------------------------------------------------
    from .common import iteration_protocol
    iteration_protocol(ctx, "R18-d", "ByteReceiveStream")

    # ---- R18-e the two directions of a socket stream are guarded separately and consistently: everything that reads holds the receive
    # guard, everything that writes (send_eof included) holds the send guard - on TCP and UNIX streams and the datagram sockets alike
    READS = ("receive", "receive_fds")
    WRITES = ("send", "send_eof", "send_fds", "sendto")
    n_g = 0
    for cls_ in ("SocketStream", "UNIXSocketStream", "UDPSocket", "ConnectedUDPSocket", "UNIXDatagramSocket", "ConnectedUNIXDatagramSocket"):
        for nm_, f_ in ctx.repo.methods(cls_, A).items():
            if nm_ not in READS + WRITES:
                continue
            guards = [ast.unparse(i.context_expr) for w in own_walk(f_.node) if isinstance(w, ast.With) for i in w.items
                      if ast.unparse(i.context_expr) in ("self._receive_guard", "self._send_guard")]
            want = "self._receive_guard" if nm_ in READS else "self._send_guard"
            n_g += 1
            has_await = any(isinstance(x, ast.Await) for x in own_walk(f_.node))
            # (an operation that never suspends cannot overlap with another call and needs no guard; if it has one it is its own)
            ok = guards == [want] or (not has_await and not guards)
            ctx.ob("R18-e", f_, f"{cls_}.{nm_} holds the guard of its own direction", ok,
                   detail="" if ok else f"{cls_}.{nm_} runs under {guards or 'no guard'}; required {want} (a concurrent {('send' if nm_ in READS else 'receive')} "
                                        "must stay possible, a second concurrent call in the same direction must be refused)", by=(want,))
    ctx.floor("R18-e", "guarded socket operations", n_g, 10)

    # ---- R18-f a socket handed to from_socket()/wrap_*() is switched to non-blocking mode whatever form it came in (file descriptor or
    # socket object): the UNIX stream and the datagram sockets do raw recv()/send() and rely on BlockingIOError for back-pressure
    vs = ctx.fn("_validate_socket", "abc/_sockets.py")
    sname = None
    for st_, env_ in ctx.sites(vs, "$S.setblocking(False)"):
        sname = u(env_["S"])
    if ctx.need("R18-f", vs, "`sock.setblocking(False)` in _validate_socket", 1 if sname else 0, 1):
        dominates_all_exits(ctx, "R18-f", vs, f"{sname}.setblocking(False)", "every socket accepted by _validate_socket is made non-blocking")

    # ---- R18-g a would-block waits for readiness in the direction of the operation that would block: a receive-type call waits until the
    # socket is readable, a send-type call until it is writable (waiting the other way round deadlocks against a peer that is itself
    # waiting, and steals the other direction's registration); and the two wait helpers register what their names say
    RD_CALLS = {"recv", "recvmsg", "recvfrom", "recv_into", "accept"}
    WR_CALLS = {"send", "sendmsg", "sendto", "sendall"}
    n_w = 0
    for f_ in ctx.repo.funcs_in(A):
        for aw in [x for x in own_walk(f_.node) if isinstance(x, ast.Await) and isinstance(x.value, ast.Call) and isinstance(x.value.func, ast.Attribute)
                   and x.value.func.attr in ("_wait_until_readable", "_wait_until_writable")]:
            h_ = enclosing(aw, (ast.ExceptHandler,), stop=f_.node)
            t_ = getattr(h_, "_parent", None) if isinstance(h_, ast.ExceptHandler) else None
            if not isinstance(t_, ast.Try) or "BlockingIOError" not in handler_names(h_):
                continue        # (reported by R18-c)
            ops = {c_.func.attr for s_ in t_.body for c_ in ast.walk(s_) if isinstance(c_, ast.Call) and isinstance(c_.func, ast.Attribute)
                   and c_.func.attr in RD_CALLS | WR_CALLS}
            want = "_wait_until_readable" if ops and ops <= RD_CALLS else "_wait_until_writable" if ops and ops <= WR_CALLS else None
            n_w += 1
            ok = want == aw.value.func.attr
            ctx.ob("R18-g", f_, "a would-block waits for readiness in the direction of the blocked operation", ok, node=stmt_of(aw), by=(f"{sorted(ops)} -> {want}",),
                   detail="" if ok else f"{f_.qual}: `{'/'.join(sorted(ops)) or '?'}` would block but the handler awaits `{aw.value.func.attr}`")
    ctx.floor("R18-g", "would-block handlers in the asyncio socket classes", n_w, 9)
    for q_, reg, unreg, fut_ in (("_RawSocketMixin._wait_until_readable", "add_reader", "remove_reader", "_receive_future"),
                                 ("_RawSocketMixin._wait_until_writable", "add_writer", "remove_writer", "_send_future")):
        f_ = ctx.fn(q_, A)
        calls = {c_.func.attr for c_ in ast.walk(f_.node) if isinstance(c_, ast.Call) and isinstance(c_.func, ast.Attribute)
                 and c_.func.attr in ("add_reader", "add_writer", "remove_reader", "remove_writer")}
        futs = {n_.attr for n_ in ast.walk(f_.node) if isinstance(n_, ast.Attribute) and n_.attr in ("_receive_future", "_send_future")}
        ok = calls == {reg, unreg} and futs == {fut_}
        ctx.ob("R18-g", f_, f"{q_.split('.')[-1]} registers, unregisters and records its own direction", ok, by=(reg, unreg, fut_),
               detail="" if ok else f"{q_} uses {sorted(calls)} / {sorted(futs)}; expected {reg}, {unreg} and {fut_}")

    # ---- R18-h closing a raw socket stream releases *both* directions: a task blocked in receive() and a task blocked in send() are each
    # woken (their next attempt then finds the socket closed and raises ClosedResourceError), independently of one another - the send
    # wake-up must not depend on whether a receive was pending (full-duplex use), and vice versa
    rac = ctx.fn("_RawSocketMixin.aclose", A)
    wk = {}
    for dir_, other in (("_receive_future", "_send_future"), ("_send_future", "_receive_future")):
        ss = ctx.sites(rac, f"self.{dir_}.set_result($*X)")
        if not ctx.need("R18-h", rac, f"wake-up of the pending `{dir_}`", len(ss), 1):
            continue
        ko, kd = F(f"self.{other}")[0], F(f"self.{other}.done()")[0]
        pol = set()
        ok = False
        for fa in ctx.facts_at(rac, ss[0][0]) or []:
            d_ = dict(fa)
            pol.add(d_.get(ko))
            # a path on which the other direction may be pending too (set and not done) - the full-duplex case
            if d_.get(ko) is not False and d_.get(kd) is not True:
                ok = True
        ctx.ob("R18-h", rac, f"the wake-up of `{dir_}` does not depend on the state of `{other}`", ok, node=ss[0][0], by=("reached under both states of the other direction",),
               detail="" if ok else f"`{norm(ss[0][0])}` is never reached while `self.{other}` is pending as well: with both directions blocked one task stays blocked for ever")
        ctx.require_at("R18-h", rac, ss[0][0], [[f"self.{dir_}", f"not self.{dir_}.done()"], [f"self.{dir_} is not None", f"not self.{dir_}.done()"]],
                       instance=f"only a pending `{dir_}` is completed", what="wake-up")
