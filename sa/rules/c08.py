"""C08 — Checkpoint discipline: blocking primitives always check cancellation and yield."""
from __future__ import annotations

import ast

from sa.engine.cfg import is_shield_with
from sa.engine.facts import Bad, F, atom
from sa.engine.pattern import P, u
from sa.engine.source import AnalysisError, norm, own_walk, stmt_of
from .common import A, SYNC, MEM, TASKS, checkpoint_typestate, lexically_inside, dominates_all_exits
from .walkers import check_cic

EXPLANATION = ("Checkpoint discipline: the checkpoint primitives themselves; a typestate automaton (cancellation check before the effect, "
               "a yield before every normal return, undo when a wait or the shielded yield is interrupted) over every primitive of the "
               "table, with the documented fast_acquire exemption analysed as its own configuration; delegation of the public wrappers; "
               "every anyio.itertools generator and functools.reduce pass a checkpoint on every path to exhaustion under two source models "
               "(A: synchronous sources, justified by the obligation on _IterableAsyncIterator; B: nothing yielded, arbitrary sources)."
               " The fast_acquire exemption is opt-in: every parameter defaults to False, every call forwards the caller's own flag, the field stores the parameter."
               " `await future` passes through wait() before any exit; every `__anext__` of the package goes through receive() on every path.")
NOT_DECIDED = "That the event loop actually ran other callbacks during a yield (asyncio), the uvloop / eager-task-factory configurations."

ITER = "itertools.py"
GENERATORS = ["accumulate", "batched", "Chain.from_iterable", "combinations", "combinations_with_replacement", "compress", "count", "cycle",
              "dropwhile", "filterfalse", "groupby", "islice", "pairwise", "permutations", "product", "repeat", "starmap", "takewhile",
              "zip_longest"]
INFINITE = {"count"}
# "every element produced has passed a checkpoint since the previous one" needs value reasoning in two functions, which the
# path analysis cannot do (the only abstract paths that violate it are infeasible): zip_longest (the inner `for` always meets an
# active iterator while num_active > 0). (`batched` needed the same exemption until the CFG kept the first arrival at a
# `for _ in range(n)` apart: with n >= 1 validated at entry the zero-iteration exit is pruned.)
SINCE_EXEMPT = {"zip_longest"}


def _real_body(fn):
    return [x for x in fn.body if not isinstance(x, ast.Pass) and not (isinstance(x, ast.Expr) and isinstance(x.value, ast.Constant))]


def has_async_comp(frag) -> bool:
    if frag is None:
        return False
    return any(isinstance(x, ast.comprehension) and x.is_async for x in ast.walk(frag))


def generator_rule(ctx, f, model):
    """model A: sources checkpoint on every step (sync iterables); model B: sources are arbitrary, only own checkpoints count and
    only for traversals that yield nothing"""
    def is_src(frag, node):
        if node.kind == "for_iter" and isinstance(node.node, ast.AsyncFor):
            return True
        return has_async_comp(frag)

    def is_sync_src(frag, node):
        # `async for x in _iterate(itertools.f(...))`: the source is a synchronous stdlib iterator built here, so the adapter of
        # R08-c checkpoints on every step whatever the caller passed in (holds in model B too)
        if node.kind == "for_iter" and isinstance(node.node, ast.AsyncFor):
            it = node.node.iter
            if isinstance(it, ast.Call) and getattr(it.func, "id", "") == "_iterate" and len(it.args) == 1:
                a = it.args[0]
                return isinstance(a, ast.Call) and isinstance(a.func, ast.Attribute) and isinstance(a.func.value, ast.Name) \
                    and a.func.value.id == "itertools"
        return False

    def is_yield(frag, node):
        return frag is not None and node.kind in ("stmt", "return") and any(isinstance(x, (ast.Yield, ast.YieldFrom)) for x in [frag] + list(own_walk(frag)))

    spec = [("syncsrc", [is_sync_src]), ("src", ["await anext($I)", "await anext($I, $D)", "await $I.__anext__()", is_src]),
            ("cp", ["await checkpoint()"]), ("cic", ["await checkpoint_if_cancelled()"]), ("csc", ["await cancel_shielded_checkpoint()"]),
            ("yield", [is_yield])]

    def step(st, e, c):
        chk, yielded, half, since = st
        if e == "syncsrc":
            return (True, yielded, half, True)
        if e == "src":
            if model == "A":
                return (True, yielded, half, True)
            return st
        if c.is_exc:
            return st
        if e == "cp":
            return (True, yielded, False, True)
        if e == "cic":
            return (chk, yielded, True, since)
        if e == "csc":
            if half:
                return (True, yielded, False, True)
            return st
        if e == "yield":
            if model == "A" and not since and f.qual not in SINCE_EXEMPT:
                return Bad("an element is produced without a checkpoint since the previous one (a consumer loop over this iterator never yields to the event loop)")
            return (chk, True, half, False)
        return st

    def at_exit(kind, st, facts):
        chk, yielded, half, since = st
        if kind != "return":
            return None
        if model == "A" and not chk:
            return "a full traversal over synchronous sources completes without passing a checkpoint"
        if model == "B" and not yielded and not chk:
            return "a traversal that yields nothing completes without passing a checkpoint (arbitrary async sources are not assumed to checkpoint)"
        return None

    ctx.paths("R08-b", f, spec, step, (False, False, False, False), at_exit, instance=f"{f.qual} [model {model}]", allow_no_exit=True)


def check(ctx):
    # ---- R08-0 the primitives ------------------------------------------------------------------------------------------
    cp = ctx.fn("AsyncIOBackend.checkpoint", A)
    dominates_all_exits(ctx, "R08-0", cp, "await sleep(0)", "checkpoint() awaits sleep(0) on every path (cancel point + yield)")
    bad = [n for n in own_walk(cp.node) if isinstance(n, (ast.With, ast.AsyncWith, ast.Try))]
    ctx.ob("R08-0", cp, "checkpoint() does not shield or catch around its sleep(0)", not bad, detail="" if not bad else f"`{norm(bad[0])}` wraps the checkpoint's sleep",
           by=("plain await",))
    from .common import shielded_checkpoint_is_shielded
    shielded_checkpoint_is_shielded(ctx, "R08-0")
    sl = ctx.fn("AsyncIOBackend.sleep", A)
    d = sl.node.args.args[1].arg
    s = ctx.sites(sl, f"await sleep({d})")
    ctx.ob("R08-0", sl, "sleep(delay) awaits asyncio.sleep(delay)", len(s) == 1, detail="" if s else "AsyncIOBackend.sleep does not await sleep(delay)", by=("await sleep(delay)",))
    check_cic(ctx, "R08-0")
    for nm in ("checkpoint", "checkpoint_if_cancelled", "cancel_shielded_checkpoint"):
        f = ctx.fn(nm, "lowlevel.py")
        s = ctx.sites(f, f"await get_async_backend().{nm}()")
        ctx.ob("R08-0", f, f"lowlevel.{nm} delegates to the backend", len(s) == 1,
               detail="" if s else f"lowlevel.{nm} does not await get_async_backend().{nm}()", by=("delegation",))

    # ---- R08-a typestate per operation --------------------------------------------------------------------------------
    n_ops = 3   # sleep, checkpoint, cancel_shielded_checkpoint (R08-0 above)
    # Event.wait
    ew = ctx.fn("Event.wait", A)
    checkpoint_typestate(ctx, "R08-a", ew, blocks=["await self._event.wait()"], instance="Event.wait", native=False)
    n_ops += 1
    # Lock / Semaphore
    for cls, eff in (("Lock", "self._owner_task = $T"), ("Semaphore", "self._value -= 1")):
        f = ctx.fn(f"{cls}.acquire", A)
        futs = [e["F"] for s, e in ctx.sites(f, "await $F") if isinstance(e["F"], ast.Name)]
        if ctx.need("R08-a", f, f"{cls}.acquire waits on its waiter future", len(futs), 1):
            fut = u(futs[0])
            for assume, nm in (({"self._fast_acquire": False}, "fast_acquire=False"), ({"self._fast_acquire": True}, "fast_acquire=True (documented exemption: no yield)")):
                checkpoint_typestate(ctx, "R08-a", f, effects=[eff], regs=["self._waiters.append($I)"],
                                     undos=["self.release()", "self._waiters.remove($I)"], blocks=[f"await {fut}"], assume=assume,
                                     instance=f"{cls}.acquire [{nm}]", native=True, require_yield=not assume["self._fast_acquire"])
        n_ops += 1
    # CapacityLimiter
    f = ctx.fn("CapacityLimiter.acquire_on_behalf_of", A)
    b = f.node.args.args[1].arg
    checkpoint_typestate(ctx, "R08-a", f, effects=[f"self.acquire_on_behalf_of_nowait({b})"], regs=[f"self._wait_queue[{b}] = $E"],
                         undos=[f"self.release_on_behalf_of({b})", f"self._wait_queue.pop({b}, None)"], blocks=["await $E.wait()"],
                         instance="CapacityLimiter.acquire_on_behalf_of", native=True)
    n_ops += 1
    for q, pat in (("CapacityLimiter.acquire", "await self.acquire_on_behalf_of(current_task())"), ("CapacityLimiter.__aenter__", "await self.acquire()")):
        g = ctx.fn(q, A)
        s = ctx.sites(g, pat)
        ctx.ob("R08-a", g, f"{q} delegates to the checkpointing operation", len(s) == 1, detail="" if s else f"{q} does not `{pat}`", by=(pat,))
        if s:
            dominates_all_exits(ctx, "R08-a", g, pat, f"{q} reaches the checkpointing operation on every path")
    # Condition
    cw = ctx.fn("Condition.wait", SYNC)
    regs = ctx.sites(cw, "self._waiters.append($E)")
    ev = u(regs[0][1]["E"]) if regs else "event"
    checkpoint_typestate(ctx, "R08-a", cw, effects=["self.release()"], undos=["await self.acquire()"], blocks=[f"await {ev}.wait()"],
                         instance="Condition.wait (entered in a cancelled scope it keeps the lock)", native=False,
                         delegates=["await checkpoint_if_cancelled()"], require_yield=True)
    n_ops += 1
    ca = ctx.fn("Condition.acquire", SYNC)
    s = ctx.sites(ca, "await self._lock.acquire()")
    ctx.ob("R08-a", ca, "Condition.acquire delegates to Lock.acquire", len(s) == 1, detail="" if s else "no `await self._lock.acquire()`", by=("delegation",))
    n_ops += 1
    # public wrappers of the synchronisation primitives: `async with` goes through acquire()
    for cls in ("Lock", "Semaphore", "Condition"):
        g = ctx.fn(f"{cls}.__aenter__", SYNC)
        s = ctx.sites(g, "await self.acquire()")
        ctx.ob("R08-a", g, f"{cls}.__aenter__ goes through acquire()", len(s) == 1, detail="" if s else f"{cls}.__aenter__ does not await self.acquire()", by=("await self.acquire()",))
    # memory streams
    sd = ctx.fn("MemoryObjectSendStream.send", MEM)
    checkpoint_typestate(ctx, "R08-a", sd, effects=["self.send_nowait($I)"], regs=["self._state.waiting_senders[$E] = $I"],
                         undos=["self._state.waiting_senders.pop($E, None)", "del self._state.waiting_senders[$E]"], blocks=["await $E.wait()"],
                         instance="MemoryObjectSendStream.send", native=False)
    rv = ctx.fn("MemoryObjectReceiveStream.receive", MEM)
    checkpoint_typestate(ctx, "R08-a", rv, effects=["self.receive_nowait()"], regs=["self._state.waiting_receivers[$E] = $R"],
                         undos=["self._state.waiting_receivers.pop($E, None)"], blocks=["await $E.wait()"],
                         instance="MemoryObjectReceiveStream.receive", native=False)
    n_ops += 2
    # to_thread
    rs = ctx.fn("AsyncIOBackend.run_sync_in_worker_thread", A)
    checkpoint_typestate(ctx, "R08-a", rs, effects=["$W.queue.put_nowait($*A)", "$W.start()"], blocks=["await $F"],
                         instance="run_sync_in_worker_thread: nothing is started in a cancelled scope", native=False,
                         delegates=[], require_undo=False)   # leaving the wait by cancellation is the documented abandon_on_cancel behaviour
    n_ops += 1
    tt = ctx.fn("run_sync", "to_thread.py")
    s = ctx.sites(tt, "return await get_async_backend().run_sync_in_worker_thread($*A)")
    ctx.ob("R08-a", tt, "to_thread.run_sync delegates to the backend operation", len(s) == 1, detail="" if s else "no delegation", by=("delegation",))
    # futures / task handles
    fw = ctx.fn("Future.wait", "_core/_futures.py")
    dominates_all_exits(ctx, "R08-a", fw, "await self._finished_event.wait()", "Future.wait waits on its event on every path (Event.wait checkpoints)")
    fa = ctx.fn("Future.__await__", "_core/_futures.py")
    s = ctx.sites(fa, "yield from self.wait().__await__()")
    ctx.ob("R08-a", fa, "awaiting a Future goes through wait()", len(s) == 1, detail="" if s else "Future.__await__ bypasses wait()", by=("self.wait()",))
    hw = ctx.fn("TaskHandle.wait", TASKS)
    dominates_all_exits(ctx, "R08-a", hw, "await self._finished_event.wait()", "TaskHandle.wait waits on its event on every path")
    ha = ctx.fn("TaskHandle.__await__", TASKS)
    s = ctx.sites(ha, "yield from self._finished_event.wait().__await__()")
    ctx.ob("R08-a", ha, "awaiting a TaskHandle waits on its event", len(s) == 1, detail="" if s else "TaskHandle.__await__ bypasses the event", by=("Event.wait",))
    n_ops += 4
    # the adapters used for primitives created outside a running loop go through the real operation on every path
    for q, pat in (("EventAdapter.wait", "await self._event.wait()"), ("LockAdapter.acquire", "await self._lock.acquire()"),
                   ("LockAdapter.__aenter__", "await self._lock.acquire()"), ("SemaphoreAdapter.acquire", "await self._semaphore.acquire()"),
                   ("CapacityLimiterAdapter.acquire", "await self._limiter.acquire()"),
                   ("CapacityLimiterAdapter.acquire_on_behalf_of", f"await self._limiter.acquire_on_behalf_of($B)"),
                   ("CapacityLimiterAdapter.__aenter__", "await self._limiter.__aenter__()")):
        g = ctx.fn(q, SYNC)
        if g.qual != q and q.endswith(".__aenter__"):
            # the override is gone and the base class's `__aenter__` runs: it enters through the class's own acquire(), which is in this table
            pat = "await self.acquire()"
        dominates_all_exits(ctx, "R08-a", g, pat, f"{q} reaches the checkpointing operation of the real primitive on every path")
        n_ops += 1
    ctx.floor("R08-a", "primitive operations of the table", n_ops, 14)

    # ---- reduce ------------------------------------------------------------------------------------------------------
    red = [f for f in ctx.repo.funcs.get("reduce", []) if f.module.endswith("functools.py") and not any(
        isinstance(d, ast.Name) and d.id == "overload" for d in f.node.decorator_list)]
    if len(red) != 1:
        raise AnalysisError(f"R08-b: functools.reduce: {len(red)} non-overload definitions")
    rd = red[0]
    fn_param = rd.node.args.posonlyargs[0].arg if rd.node.args.posonlyargs else rd.node.args.args[0].arg

    def step_r(st, e, c):
        if c.is_exc:
            return st
        return True

    def at_exit_r(kind, st, facts):
        if kind == "return" and not st:
            return "reduce() returns without a checkpoint and without having awaited the reducing function"
        return None

    ctx.paths("R08-b", rd, [("cp", ["await checkpoint()", f"await {fn_param}($*A)"])], step_r, False, at_exit_r, instance="functools.reduce")

    # ---- R08-c the adapter for synchronous sources ---------------------------------------------------------------------
    an = ctx.fn("_IterableAsyncIterator.__anext__", ITER)

    def step_c(st, e, c):
        cic, nxt, csc = st
        if e == "cic":
            return (True, nxt, csc) if not c.is_exc else st
        if e == "next":
            if not cic:
                return Bad("the element is taken from the iterator before the cancellation check (a cancelled consumer would lose it)")
            return (cic, True, csc)
        if e == "csc":
            return (cic, nxt, True) if not c.is_exc else st
        return st

    def at_exit_c(kind, st, facts):
        cic, nxt, csc = st
        if kind in ("return", "raise:StopAsyncIteration") and not (cic and csc):
            return f"__anext__ leaves ({kind}) without {'the cancellation check' if not cic else 'yielding to the event loop'}: iteration over a synchronous source would not be a checkpoint on this edge"
        return None

    ctx.paths("R08-c", an, [("cic", "await checkpoint_if_cancelled()"), ("next", "next(self.iterator)"), ("csc", "await cancel_shielded_checkpoint()")],
              step_c, (False, False, False), at_exit_c, instance="_IterableAsyncIterator.__anext__ checkpoints on element and on exhaustion")
    it = ctx.fn("_iterate", ITER)
    s = ctx.sites(it, "return _IterableAsyncIterator(iter($X))")
    if not s:
        # single-exit form: the adapter is bound to the variable that the function returns
        retn = {r.value.id for r in own_walk(it.node) if isinstance(r, ast.Return) and isinstance(r.value, ast.Name)}
        s = [(st_, e_) for st_, e_ in ctx.sites(it, "$R = _IterableAsyncIterator(iter($X))") if isinstance(e_["R"], ast.Name) and e_["R"].id in retn]
    ctx.ob("R08-c", it, "synchronous iterables are wrapped in the checkpointing adapter", len(s) == 1, detail="" if s else "_iterate does not wrap sync iterables in _IterableAsyncIterator",
           by=("_IterableAsyncIterator(iter(iterable))",))

    # ---- R08-b the generators -----------------------------------------------------------------------------------------------
    n = 0
    for q in GENERATORS:
        cands = [f for f in ctx.repo.funcs.get(q, []) if f.module.endswith(ITER) and not any(
            isinstance(d, ast.Name) and d.id == "overload" for d in f.node.decorator_list)]
        if len(cands) != 1:
            raise AnalysisError(f"R08-b: anyio.itertools.{q}: {len(cands)} definitions")
        f = cands[0]
        ctx.stats["functions"].add(f.qual)
        generator_rule(ctx, f, "A")
        generator_rule(ctx, f, "B")
        n += 1
    ctx.floor("R08-b", "anyio.itertools generator functions", n, 19)
    # every source an itertools generator consumes comes from _iterate (so model A's premise holds for sync inputs)
    for q in GENERATORS:
        f = [x for x in ctx.repo.funcs.get(q, []) if x.module.endswith(ITER) and not any(
            isinstance(d, ast.Name) and d.id == "overload" for d in x.node.decorator_list)][0]
        bad = []
        locals_from_iterate = set()
        for nn in own_walk(f.node):
            if isinstance(nn, ast.Assign) and len(nn.targets) == 1 and isinstance(nn.targets[0], ast.Name):
                v = nn.value
                if isinstance(v, ast.Call) and getattr(v.func, "id", "") == "_iterate":
                    locals_from_iterate.add(nn.targets[0].id)
                elif isinstance(v, ast.ListComp) and isinstance(v.elt, ast.Call) and getattr(v.elt.func, "id", "") == "_iterate":
                    locals_from_iterate.add(nn.targets[0].id)
        for nn in own_walk(f.node):
            src = None
            if isinstance(nn, ast.AsyncFor):
                src = nn.iter
            elif isinstance(nn, ast.comprehension) and nn.is_async:
                src = nn.iter
            elif isinstance(nn, ast.Await) and isinstance(nn.value, ast.Call) and getattr(nn.value.func, "id", "") == "anext" and nn.value.args:
                src = nn.value.args[0]
            if src is None:
                continue
            ok = (isinstance(src, ast.Call) and getattr(src.func, "id", "") == "_iterate") or (isinstance(src, ast.Name) and src.id in locals_from_iterate) \
                or (isinstance(src, ast.Name) and any(isinstance(p, ast.For) and isinstance(p.target, (ast.Name, ast.Tuple)) and src.id in {x.id for x in ast.walk(p.target) if isinstance(x, ast.Name)}
                                                      and isinstance(p.iter, (ast.Name, ast.Call)) and any(isinstance(y, ast.Name) and y.id in locals_from_iterate for y in ast.walk(p.iter))
                                                      for p in own_walk(f.node)))
            if not ok:
                bad.append(norm(src))
        ctx.ob("R08-b", f, "every consumed source goes through _iterate()", not bad,
               detail="" if not bad else f"{q} iterates {bad} without _iterate(): a synchronous input would be consumed without checkpoints", by=("_iterate",))

    # ---- tee ---------------------------------------------------------------------------------------------------------------
    ta = ctx.fn("_TeeAsyncIterator.__anext__", ITER)
    hy = ctx.sites(ta, "$H = await self._state.fill(self._link)")
    if ctx.need("R08-b", ta, "`had_yieldpoint = await self._state.fill(self._link)`", len(hy), 1):
        h = u(hy[0][1]["H"])

        def step_t(st, e, c):
            cic, csc, cp = st
            if c.is_exc:
                return st
            if e == "cic":
                return (True, csc, cp)
            if e == "csc":
                return (cic, True, cp)
            if e == "cp":
                return (cic, csc, True)
            return st

        def at_exit_t(kind, st, facts):
            cic, csc, cp = st
            if kind == "return" and (h, True) not in facts and not (cic and csc):
                return "an element served from the shared buffer (no yield point in fill()) is returned without the cancellation check + yield pair"
            if kind == "raise:StopAsyncIteration" and ("self._element_yielded", True) not in facts and not cp and (h, True) not in facts:
                return "an exhausted tee iterator that never yielded ends without a checkpoint"
            return None

        ctx.paths("R08-b", ta, [("cic", "await checkpoint_if_cancelled()"), ("csc", "await cancel_shielded_checkpoint()"), ("cp", "await checkpoint()")],
                  step_t, (False, False, False), at_exit_t, instance="_TeeAsyncIterator.__anext__")
    # the "this iterator has produced an element" flag (it excuses the final checkpoint) is private to each iterator object: it starts
    # False in every new iterator - also in a fork of an iterator that has already produced elements - and becomes True only in __anext__
    tinit = ctx.fn("_TeeAsyncIterator.__init__", ITER)
    ws_ = ctx.writers("_element_yielded", [ITER])
    ctx.floor("R08-b", "writers of _TeeAsyncIterator._element_yielded", len(ws_), 2)
    for f_, rel_, st_, kind_, val_, n_ in ws_:
        q_ = f_.qual if f_ else "<module>"
        if q_ == "_TeeAsyncIterator.__init__":
            ok = kind_ == "assign" and isinstance(val_, ast.Constant) and val_.value is False
            what_ = "a new tee iterator (fork or not) starts with `_element_yielded = False`"
        elif q_ == "_TeeAsyncIterator.__anext__":
            ok = kind_ == "assign" and isinstance(val_, ast.Constant) and val_.value is True
            what_ = "`_element_yielded` only ever becomes True, in __anext__"
        else:
            ok, what_ = False, "`_element_yielded` is written only by __init__ and __anext__"
        ctx.ob("R08-b", f_ if f_ else tinit, what_, ok, node=st_, detail="" if ok else f"`{norm(st_)}` in {q_}: a fork that inherits the flag ends without any checkpoint",
               by=(f"{q_}:{kind_}",))
    dominates_all_exits(ctx, "R08-b", tinit, "self._element_yielded = False", "every new tee iterator starts with the flag cleared")
    fill = ctx.fn("_TeeState.fill", ITER)
    for r in [x for x in own_walk(fill.node) if isinstance(x, ast.Return)]:
        v = r.value
        inside = lexically_inside(r, lambda nn: isinstance(nn, ast.AsyncWith), stop=fill.node)
        if isinstance(v, ast.Constant) and v.value is True:
            ctx.ob("R08-b", fill, "fill() reports a yield point only after having taken the lock", inside, node=r, by=("inside async with self.lock",),
                   detail="" if inside else "`return True` outside `async with self.lock`: the caller would skip its own checkpoint although none happened")
        elif isinstance(v, ast.Constant) and v.value is False:
            ctx.ob("R08-b", fill, "fill() reports 'no yield point' only on the path that did not await", not inside, node=r, by=("before any await",),
                   detail="" if not inside else "`return False` after awaiting")

    # ---- R08-d a coroutine started from a worker thread joins a scope that may already be *effectively* cancelled (through an ancestor):
    # delivery is restarted for it unconditionally, else its checkpoints do not raise and its operations take effect (shared with C03/R03-i)
    from .walkers import join_restarts
    join_restarts(ctx, "R08-d", ("AsyncIOBackend.run_async_from_thread.task_wrapper",), 1)

    # ---- R08-e the fast_acquire exemption is opt-in: the flag is False unless the *user* passed it.  Every parameter `fast_acquire`
    # defaults to False (or has no default), every call that passes the keyword forwards the caller's own parameter (or the field that
    # stores it), and the field is written only from the parameter.  (functools' cache lock derives it from the documented
    # `always_checkpoint` option of lru_cache - frozen instance below.)
    FROZEN = {("functools.py", "not self._always_checkpoint"): "lru_cache(always_checkpoint=...) is the user's documented choice for the cache's internal lock"}
    n_par = n_kw = n_wr = 0
    for f_ in ctx.repo.all_funcs:
        if f_.module.endswith("_trio.py"):
            continue
        a_ = f_.node.args
        pos_ = a_.posonlyargs + a_.args
        dflt = dict(zip([x.arg for x in pos_[len(pos_) - len(a_.defaults):]], a_.defaults))
        dflt.update({k.arg: d for k, d in zip(a_.kwonlyargs, a_.kw_defaults) if d is not None})
        params = {x.arg for x in pos_ + a_.kwonlyargs}
        if "fast_acquire" in params:
            n_par += 1
            d_ = dflt.get("fast_acquire")
            ok = d_ is None or (isinstance(d_, ast.Constant) and d_.value is False)
            ctx.ob("R08-e", f_, "a `fast_acquire` parameter does not default to True", ok, node=f_.node, by=("default",),
                   detail="" if ok else f"`fast_acquire={norm(d_)}` by default: an uncontended acquire no longer yields although the user did not opt out")
        for n_ in own_walk(f_.node):
            if isinstance(n_, ast.Call):
                for k_ in n_.keywords:
                    if k_.arg == "fast_acquire":
                        n_kw += 1
                        v_ = norm(k_.value)
                        ok = (v_ == "fast_acquire" and "fast_acquire" in params) or v_ == "self._fast_acquire" or any(
                            f_.module.endswith(m_) and v_ == e_ for (m_, e_) in FROZEN)
                        ctx.ob("R08-e", f_, "a call passes on the fast_acquire flag it was given", ok, node=n_, by=(v_,),
                               detail="" if ok else f"`{norm(n_)}` passes `fast_acquire={v_}`: a primitive the user did not configure for fast "
                                                    "acquisition skips the yield of an uncontended acquire")
            if isinstance(n_, ast.Assign) and any(norm(t_) == "self._fast_acquire" for t_ in n_.targets):
                n_wr += 1
                ok = norm(n_.value) == "fast_acquire" and "fast_acquire" in params
                ctx.ob("R08-e", f_, "`_fast_acquire` stores the parameter", ok, node=n_, by=(norm(n_.value),),
                       detail="" if ok else f"`{norm(n_)}` does not store the caller's flag")
    ctx.floor("R08-e", "functions with a fast_acquire parameter", n_par, 8)
    ctx.floor("R08-e", "calls passing fast_acquire", n_kw, 6)
    ctx.floor("R08-e", "writers of _fast_acquire", n_wr, 4)
    # a primitive built internally without the keyword gets the default (False): nothing to check there beyond the defaults above

    # ---- R08-f the protocol entry points are the operation: `await future` waits like `future.wait()` before anything else can end it
    # (result, failure or FutureCancelled), and every `__anext__` that a class of the package adds on top of a stream goes through the
    # stream's `receive()` (or the inherited `__anext__`) on every path - a shortcut through `receive_nowait()` is not a checkpoint
    FUT = "_core/_futures.py"
    fa_ = ctx.fn("Future.__await__", FUT)
    dominates_all_exits(ctx, "R08-f", fa_, "yield from self.wait().__await__()", "awaiting a Future passes through wait() on every path, also to an error",
                        exits=("return", "raise"))
    KNOWN_ANEXT = {("_core/_fileio.py", "_PathIterator"), ("_backends/_asyncio.py", "_SignalReceiver"), ("abc/_streams.py", "UnreliableObjectReceiveStream"),
                   ("abc/_streams.py", "ByteReceiveStream")}          # (the stream ABCs are R12-i/R13-d/R17-d/R18-d; files and signals are not in the C08 table)
    n_an = 0
    for f_ in ctx.repo.all_funcs:
        if f_.module.endswith("_trio.py") or f_.module.endswith("itertools.py") or f_.node.name != "__anext__" or f_.parent is not None:
            continue
        n_an += 1
        if (f_.module, f_.cls) in KNOWN_ANEXT or any(f_.module.endswith(m_) and f_.cls == c_ for m_, c_ in KNOWN_ANEXT):
            continue

        def is_entry(frag, node):
            for x in (ast.walk(frag) if frag is not None else ()):
                if isinstance(x, ast.Await) and isinstance(x.value, ast.Call) and norm(x.value.func) in ("self.receive", "super().__anext__"):
                    return True
            return False

        dominates_all_exits(ctx, "R08-f", f_, is_entry, f"{f_.cls}.__anext__ hands out an item only through receive() (a checkpoint), never around it")
    ctx.floor("R08-f", "`__anext__` definitions outside itertools", n_an, 4)
