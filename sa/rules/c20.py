"""C20 — Async lru_cache: right value, single flight, bounded retention."""
from __future__ import annotations

import ast

from sa.engine.facts import Bad, F, atom
from sa.engine.pattern import u, dump, find_all
from sa.engine.source import norm, own_walk, stmt_of, AnalysisError
from .common import lexically_inside, enclosing, resolve_value

EXPLANATION = ("Async lru_cache: every removal from the entry mapping removes a completed result (lock slot None), is followed by leaving the "
               "iteration and is paired with one decrement of the size counter; every store into the mapping is a fresh placeholder for an "
               "absent key, the replacement of an expired completed result, or the result of the holder of that key's lock; the wrapped "
               "function is awaited on the caching path only inside `async with` the key's own lock after re-reading the entry; the store of "
               "a result, the counter increment, the size test and the eviction form one suspension-free section; hits refresh the LRU "
               "position and are served only if not expired; eviction scans from the least recently used end; the key covers positional "
               "arguments, keyword items behind a separator and, when typed, the argument types; the value returned is the wrapped call's "
               "result or the stored value."
               " The method wrapper passes the bound instance exactly when it is not None and forwards all arguments."
               " The event loop's run-variable store (which holds the cache) is never dropped wholesale.")
NOT_DECIDED = ("Histories of calls (which caller sees which value over time), hashing/equality of user keys, behaviour of cache_clear() racing "
               "with in-flight calls, per-event-loop storage (RunVar).")

FN = "functools.py"
CE = "cache_entry"      # rebound in check() to whatever the function calls the mapping


def _is_ce(e) -> bool:
    return isinstance(e, ast.Name) and e.id == CE


def check(ctx):
    call = ctx.fn("AsyncLRUCacheWrapper.__call__", FN)
    fn = call.node
    kwname = fn.args.kwarg.arg if fn.args.kwarg else None
    vaname = fn.args.vararg.arg if fn.args.vararg else None
    if not kwname or not vaname:
        raise AnalysisError("R20: AsyncLRUCacheWrapper.__call__ no longer takes *args, **kwargs")

    # the entry mapping: `cache_entry = cache[self]`; local names are read off the code (renaming a local is neutral)
    global CE
    ces = ctx.sites(call, "$CE = $C[self]") + ctx.sites(call, "$CE = $C.get(self)") + ctx.sites(call, "$CE = $C.get(self, None)")
    ces = [e for e in ces if isinstance(e[1]["CE"], ast.Name)]
    if not ces:
        raise AnalysisError("R20: the per-wrapper entry mapping (`x = cache[self]`) is no longer bound in __call__ (anchor vanished)")
    CE = ces[0][1]["CE"].id
    unp0 = [e for e in ctx.sites(call, f"$V, $L, $X = {CE}[$K]") if all(isinstance(e[1][k], ast.Name) for k in "VLXK")]
    if len(unp0) != 1:
        raise AnalysisError(f"R20: the lookup `value, lock, expiry = {CE}[key]` is no longer in __call__ (anchor vanished)")
    CV, LK, EXP, KEY = (unp0[0][1][k].id for k in "VLXK")
    wv = [e for e in ctx.sites(call, "$R = await self.__wrapped__($*A)") if isinstance(e[1]["R"], ast.Name)]
    VAL = wv[0][1]["R"].id if wv else "value"
    withs = [n for n in own_walk(fn) if isinstance(n, ast.AsyncWith) and len(n.items) == 1 and isinstance(n.items[0].context_expr, ast.Name)]
    ctx.need("R20-c", call, "`async with lock:` around the computation", len(withs), 1)
    lockw = withs[0] if withs else None
    lockname = lockw.items[0].context_expr.id if lockw else LK

    def in_lock(n):
        return lockw is not None and lexically_inside(n, lambda x: x is lockw, stop=fn)

    # ---- R20-a in-flight entries are never evicted -------------------------------------------------------------------------------------
    removals = []
    for n in own_walk(fn):
        if isinstance(n, ast.Delete):
            for t in n.targets:
                if isinstance(t, ast.Subscript) and _is_ce(t.value):
                    removals.append(("del", n, t.slice))
        elif isinstance(n, ast.Call) and isinstance(n.func, ast.Attribute) and _is_ce(n.func.value) and n.func.attr in ("pop", "popitem", "clear"):
            removals.append((n.func.attr, stmt_of(n), n.args[0] if n.args else None))
    ctx.need("R20-a", call, "an eviction site (removal from the entry mapping)", len(removals), 1)
    own_removals = []
    for kind, st, keyexpr in list(removals):
        # the holder of a key's lock may drop its *own* placeholder (e.g. when the computation failed): queued callers re-read
        # tolerantly and start over (R20-b/R20-c), so nothing that anybody relies on disappears
        if kind == "del" and isinstance(keyexpr, ast.Name) and keyexpr.id == KEY and in_lock(st):
            own_removals.append(st)
            removals.remove((kind, st, keyexpr))
            ctx.require_at("R20-a", call, st, [[f"{CV} is initial_missing"]], instance="a caller removes its own key only while it holds the lock of that key's placeholder",
                           what="removal of the own placeholder")
    for kind, st, keyexpr in removals:
        if kind != "del":
            ctx.ob("R20-a", call, f"removal by {kind}()", False, node=st,
                   detail=f"`{norm(st)}` removes an entry without looking at its lock slot: an in-flight placeholder can be evicted, and the "
                          f"re-read after the lock then fails with KeyError")
            continue
        # the key must be the loop variable of `for K, E in cache_entry.items()` and the entry's lock slot must be None
        # (the key may reach the `del` through locals - a "decide" helper that returns the key to evict, spliced in by the engine)
        from .common import origin_of
        from sa.engine.facts import strip_cast
        kx = keyexpr
        for _ in range(4):
            k2 = strip_cast(origin_of(fn, strip_cast(kx)))
            if k2 is kx:
                break
            kx = k2
        keyexpr = kx
        loop = next((n_ for n_ in own_walk(fn) if isinstance(n_, ast.For) and isinstance(n_.target, ast.Tuple) and len(n_.target.elts) == 2
                     and isinstance(n_.target.elts[0], ast.Name) and isinstance(keyexpr, ast.Name) and n_.target.elts[0].id == keyexpr.id), None)
        ok_loop = False
        ent = None
        if loop is not None and isinstance(loop.target, ast.Tuple) and len(loop.target.elts) == 2 and isinstance(keyexpr, ast.Name) \
                and isinstance(loop.target.elts[0], ast.Name) and loop.target.elts[0].id == keyexpr.id \
                and isinstance(loop.iter, ast.Call) and isinstance(loop.iter.func, ast.Attribute) and loop.iter.func.attr == "items" \
                and _is_ce(loop.iter.func.value):
            ok_loop = True
            ent = u(loop.target.elts[1])
        ctx.ob("R20-a", call, "the evicted key is taken from a front-to-back scan of the entry mapping", ok_loop, node=st,
               detail="" if ok_loop else f"`{norm(st)}`: the removed key does not come from `for key, entry in {CE}.items()`; cannot show the entry is a completed result",
               by=("for k, e in cache_entry.items()",))
        if ok_loop:
            ctx.require_at("R20-a", call, st, [[f"{ent}[1] is None"]], instance="only a completed result (lock slot None) is evicted", what="eviction")
            # mutation during iteration: the loop must be left before its next step

            def step(stt, e, c, _st=st):
                if c.is_exc:
                    return stt
                if e == "del":
                    return "deleted"
                if e == "iter" and stt == "deleted":
                    return Bad("the scan continues after an entry was deleted (OrderedDict mutated during iteration -> RuntimeError escapes to the caller)")
                return stt

            def is_iter(frag, node, _loop=loop):
                return node.kind == "for_iter" and node.node is _loop

            ctx.paths("R20-a", call, [("del", f"del {CE}[$K]"), ("iter", [is_iter])], step, "", None, instance="the scan stops after the eviction")

    # stores into the mapping
    stores = [n for n in own_walk(fn) if isinstance(n, ast.Assign) and any(isinstance(t, ast.Subscript) and _is_ce(t.value) for t in n.targets)]
    ctx.need("R20-a", call, "stores into the entry mapping (placeholder, expired replacement, result)", len(stores), 3)
    n_ph = n_res = 0
    for st in stores:
        v = st.value
        slot_lock = v.elts[1] if isinstance(v, ast.Tuple) and len(v.elts) == 3 else None
        handler = enclosing(st, (ast.ExceptHandler,), stop=fn)
        if in_lock(st):
            n_res += 1
            ok = slot_lock is not None and isinstance(slot_lock, ast.Constant) and slot_lock.value is None
            ctx.ob("R20-a", call, "the holder of the key's lock stores a completed result (lock slot None)", ok, node=st,
                   detail="" if ok else f"`{norm(st)}` inside `async with {lockname}` does not store (value, None, expiry)", by=("(value, None, expires_at)",))
            ctx.require_at("R20-c", call, st, [[f"{CV} is initial_missing"]], instance="a result is stored only by the caller that found the placeholder",
                           what="result store")
        elif handler is not None and "KeyError" in ast.unparse(handler.type or ast.Name(id="")):
            n_ph += 1
            tr = handler._parent
            looked = any(isinstance(x, ast.Subscript) and _is_ce(x.value) for s in tr.body for x in ast.walk(s))
            ctx.ob("R20-a", call, "a placeholder is installed only for an absent key", looked, node=st,
                   detail="" if looked else f"`{norm(st)}`: the KeyError handler does not belong to a lookup of {CE}[key]", by=("except KeyError of cache_entry[key]",))
        else:
            n_ph += 1
            # the facts about the old entry hold on entry to the block (the fresh placeholder tuple rebinds the same locals)
            blk = getattr(st._parent, "body", [st])
            site = blk[0] if st in blk else st
            if st in getattr(st._parent, "orelse", []):
                site = st._parent.orelse[0]
            ctx.require_at("R20-a", call, site, [[f"{lockname} is None"]], instance="an entry is replaced outside the lock only if it is a completed (expired) result",
                           what="block of the replacement store")
            ctx.require_at("R20-e", call, site, [[f"not {EXP} is None", f"not current_time() < {EXP}"]],
                           instance="a completed result is discarded only when it has expired", what="block of the replacement store")
    # per-placeholder lock
    for st in stores:
        if in_lock(st):
            continue
        v = st.value
        okl = False
        if isinstance(v, ast.Tuple) and len(v.elts) == 3:
            # the value stored in each slot: written in the tuple itself, or assigned to the slot's variable earlier in the same block
            # (one parallel assignment or one statement per variable - the engine writes `a, b, c = x, y, z` as three statements)
            blk_ = next((getattr(st._parent, fl) for fl in ("body", "orelse", "finalbody") if isinstance(getattr(st._parent, fl, None), list) and st in getattr(st._parent, fl)), [st])
            before = blk_[: blk_.index(st)]

            def slot(e):
                if not isinstance(e, ast.Name):
                    return e
                for a in reversed(before):
                    if isinstance(a, ast.Assign) and len(a.targets) == 1:
                        if isinstance(a.targets[0], ast.Name) and a.targets[0].id == e.id:
                            return a.value
                        if isinstance(a.targets[0], ast.Tuple) and isinstance(a.value, ast.Tuple) and len(a.targets[0].elts) == len(a.value.elts):
                            for t_, v_ in zip(a.targets[0].elts, a.value.elts):
                                if isinstance(t_, ast.Name) and t_.id == e.id:
                                    return v_
                return e

            s0, s1, s2 = (slot(x) for x in v.elts)
            okl = isinstance(s0, ast.Name) and s0.id == "initial_missing" and isinstance(s1, ast.Call) and getattr(s1.func, "id", "") == "Lock" \
                and isinstance(s2, ast.Constant) and s2.value is None
        ctx.ob("R20-c", call, "a placeholder carries its own fresh Lock and the `initial_missing` marker", okl, node=st,
               detail="" if okl else f"`{norm(st)}`: the placeholder is not (initial_missing, Lock(...), None) created right before the store - "
                                      f"callers with different keys would share a lock, or waiters could not recognise the placeholder",
               by=("Lock(...) per placeholder",))

    # ---- R20-b no internal error escapes ----------------------------------------------------------------------------------------------------
    loads = [n for n in own_walk(fn) if isinstance(n, ast.Subscript) and _is_ce(n.value) and isinstance(n.ctx, ast.Load)]
    gets = [n for n in own_walk(fn) if isinstance(n, ast.Call) and isinstance(n.func, ast.Attribute) and n.func.attr == "get" and _is_ce(n.func.value)]
    ctx.need("R20-b", call, f"lookups of the key in `{CE}` (first look-up and the re-read under the lock)", len(loads) + len(gets), 2)
    for ld in loads:
        tr = enclosing(ld, (ast.Try,), stop=fn)
        guarded = tr is not None and any("KeyError" in ast.unparse(h.type) for h in tr.handlers if h.type is not None) and \
            any(ld in list(ast.walk(s)) for s in tr.body)
        # a completed result can be evicted while a waiter is queued on its (former) lock, so holding the lock does not imply
        # presence (F12): every subscript look-up has to be guarded, the re-read has to use a tolerant form
        ctx.ob("R20-b", call, "a subscript look-up of the entry mapping is guarded by `except KeyError`", guarded,
               node=stmt_of(ld), detail="" if guarded else f"`{norm(stmt_of(ld))}` can raise KeyError into the caller: the entry may have been stored and evicted again "
                                                         f"while this caller was waiting for the lock", by=("except KeyError",))
    for g in gets:
        isk = len(g.args) >= 1 and isinstance(g.args[0], ast.Name) and g.args[0].id == KEY
        ctx.ob("R20-b", call, "the tolerant re-read uses this call's key", isk, node=stmt_of(g), detail="" if isk else f"`{norm(stmt_of(g))}` re-reads another key", by=(f"{CE}.get({KEY})",))

    # ---- R20-c single flight ----------------------------------------------------------------------------------------------------------------
    wcalls = [n for n in own_walk(fn) if isinstance(n, ast.Await) and isinstance(n.value, ast.Call) and ast.unparse(n.value.func) == "self.__wrapped__"]
    ctx.need("R20-c", call, "`await self.__wrapped__(*args, **kwargs)`", len(wcalls), 2)
    n_locked = 0
    for w in wcalls:
        c = w.value
        okargs = len(c.args) == 1 and isinstance(c.args[0], ast.Starred) and getattr(c.args[0].value, "id", "") == vaname and \
            len(c.keywords) == 1 and c.keywords[0].arg is None and getattr(c.keywords[0].value, "id", "") == kwname
        ctx.ob("R20-f", call, "the wrapped function is called with exactly the caller's arguments", okargs, node=stmt_of(w),
               detail="" if okargs else f"`{norm(stmt_of(w))}` does not forward (*{vaname}, **{kwname})", by=("*args, **kwargs",))
        if in_lock(w):
            n_locked += 1
            ctx.require_at("R20-c", call, stmt_of(w), [[f"{CV} is initial_missing"]],
                           instance="the computation runs only if the entry is still a placeholder", what="wrapped call")
        else:
            ctx.require_at("R20-c", call, stmt_of(w), [["0 == self._maxsize"]], instance="the only unlocked computation is the maxsize == 0 bypass",
                           what="wrapped call outside the lock")
    ctx.ob("R20-c", call, "the caching-path computation is inside `async with lock`", n_locked == 1,
           detail="" if n_locked == 1 else f"{n_locked} wrapped calls inside `async with {lockname}` (expected 1)", by=("lexically inside async with lock",))
    # the placeholder test is a re-read made after the lock was acquired
    ENT = None
    if lockw is not None:
        first = [s for s in lockw.body if not isinstance(s, (ast.Pass,)) and not (isinstance(s, ast.Expr) and isinstance(s.value, ast.Constant))]
        reread = False
        if first and isinstance(first[0], (ast.Assign, ast.AnnAssign)):
            tg = first[0].targets[0] if isinstance(first[0], ast.Assign) else first[0].target
            v = first[0].value
            if isinstance(tg, ast.Name) and v is not None and any((isinstance(x, ast.Subscript) and _is_ce(x.value)) or (isinstance(x, ast.Call) and x in gets) for x in ast.walk(v)):
                reread = True
                ENT = tg.id
        ctx.ob("R20-c", call, "the first thing done under the lock is to re-read the entry for the key", reread, node=first[0] if first else lockw,
               detail="" if reread else "the first statement under the lock does not re-read the entry: a waiter would act on the value it saw before "
                                        "waiting and run the wrapped function a second time", by=(f"entry = {CE}.get({KEY})",))
        if ENT:
            # the placeholder test looks at the re-read entry
            tests = [n for n in own_walk(lockw) if (isinstance(n, ast.NamedExpr) and n.target.id == CV)
                     or (isinstance(n, ast.Assign) and len(n.targets) == 1 and isinstance(n.targets[0], ast.Name) and n.targets[0].id == CV)]      # walrus or plain re-read
            okt = len(tests) == 1 and ast.unparse(tests[0].value) == f"{ENT}[0]"
            ctx.ob("R20-c", call, "the placeholder test is made on the re-read entry", okt, node=stmt_of(tests[0]) if tests else lockw,
                   detail="" if okt else f"`{CV}` is not taken from `{ENT}[0]` under the lock", by=(f"{CV} := {ENT}[0]",))
            # a waiter whose entry vanished (stored and evicted again) or now belongs to another in-flight computation starts over:
            # computing under the stale lock would run the function concurrently with the holder of the new placeholder
            for w in [w for w in wcalls if in_lock(w)]:
                ctx.require_at("R20-c", call, stmt_of(w), [[f"not {ENT} is None", f"{ENT}[1] is {lockname}"], [f"not {ENT} is None", f"{ENT}[1] is None"]],
                               instance="the computation runs only for an entry that still exists and is not owned by another computation's lock", what="wrapped call")
            conts = [n for n in own_walk(lockw) if isinstance(n, ast.Continue)]
            okc = len(conts) >= 1 and lexically_inside(lockw, lambda x: isinstance(x, ast.While), stop=fn)
            ctx.ob("R20-c", call, "a waiter that finds its entry gone or replaced retries the whole look-up", okc, node=conts[0] if conts else lockw,
                   detail="" if okc else "no `continue` of an enclosing retry loop under the lock", by=("while True: ... continue",))
        # the lock comes from the entry for this key
        unp = ctx.sites(call, f"$V, {lockname}, $X = {CE}[{KEY}]")
        ctx.ob("R20-c", call, "the lock waited on is the one stored in the entry for this key", len(unp) == 1,
               detail="" if unp else f"`{lockname}` is not unpacked from {CE}[key]", by=(f"_, {lockname}, _ = cache_entry[key]",))

    # every positional use of the key (move_to_end raises KeyError for a missing key) happens in the same suspension-free section in which
    # the key was seen or put into the mapping: another task can evict it during any suspension
    def ev_present(frag, node):
        if frag is None:
            return False
        if node.kind == "test":
            return False
        if isinstance(frag, (ast.Assign, ast.AnnAssign)):
            tg = frag.targets if isinstance(frag, ast.Assign) else [frag.target]
            if any(isinstance(t, ast.Subscript) and _is_ce(t.value) and isinstance(t.slice, ast.Name) and t.slice.id == KEY for t in tg):
                return True
            v = frag.value
            if isinstance(v, ast.Subscript) and _is_ce(v.value) and isinstance(v.slice, ast.Name) and v.slice.id == KEY:
                return True
        return False

    def ev_present_test(frag, node):
        return node.kind == "test" and ENT is not None and atom(node.node)[0] == f"{ENT} is None"

    def ev_susp(frag, node):
        if node.info.get("async"):
            return True
        return frag is not None and node.kind != "test" and any(isinstance(x, ast.Await) for x in [frag] + list(own_walk(frag)))

    def step_p(st, e, c):
        if c.is_exc:
            return st if e != "susp" else "unknown"
        if e == "present":
            return "present"
        if e == "ptest":
            return "present" if (f"{ENT} is None", False) in c.facts else st
        if e == "susp":
            return "unknown"
        if e == "use":
            if st != "present":
                return Bad("the key's position is refreshed (move_to_end) after a suspension point since the key was last seen in the mapping: it can have been "
                           "evicted meanwhile and KeyError escapes to the caller")
        return st

    ctx.paths("R20-b", call, [("present", [ev_present]), ("ptest", [ev_present_test]), ("use", f"{CE}.move_to_end({KEY})"), ("susp", [ev_susp])], step_p, "unknown", None,
              instance="positional use of the key only while it is known to be present")

    # ---- R20-d bounded retention is atomic with insertion ---------------------------------------------------------------------------------------
    def is_susp(frag, node):
        if node.kind == "with_exit" and node.info.get("async"):
            return False
        if frag is None:
            return False
        return any(isinstance(x, (ast.Await,)) for x in [frag] + list(own_walk(frag)))

    def step_d(st, e, c):
        stored, inc, tested, ndel, ndec = st
        if c.is_exc:
            return st
        if e == "store":
            return (True, inc, tested, ndel, ndec)
        if e == "susp":
            # store, count, size test and eviction are one atomic section, in whatever order its statements are written: a suspension
            # point may not fall between any two of them (counting before the computation, evicting before the result exists, ...)
            if (stored or inc or ndel) and not (stored and inc and tested):
                what = "the store of the result" if stored else ("the increment of the size counter" if inc else "an eviction")
                return Bad(f"a suspension point separates {what} from the rest of the insertion (store, size accounting, size test, eviction): "
                           "another task can observe more than maxsize results / an entry is counted or evicted for a result that may never exist")
            return st
        if e == "inc":
            return (stored, min(inc + 1, 3), tested, ndel, ndec)
        if e == "test":
            return (stored, inc, True, ndel, ndec)
        if e == "evict":
            if not tested or ("self._maxsize < self._currsize", True) not in c.facts_before and ("self._maxsize < self._currsize", True) not in c.facts:
                pass
            return (stored, inc, tested, min(ndel + 1, 3), ndec)
        if e == "dec":
            return (stored, inc, tested, ndel, min(ndec + 1, 3))
        return st

    def at_exit_d(kind, st, facts):
        stored, inc, tested, ndel, ndec = st
        if kind != "return" or not stored:
            return None
        if inc != 1:
            return f"a result was stored but the size counter was incremented {inc} times"
        if not tested:
            return "a result was stored without testing the size against maxsize"
        if ndel != ndec:
            return f"{ndel} eviction(s) but {ndec} decrement(s) of the size counter"
        if ndel > 1:
            return f"{ndel} entries evicted for one insertion"
        return None

    if lockw is not None:
        def in_lock_store(frag, node):
            return frag is not None and isinstance(frag, ast.Assign) and frag in stores and in_lock(frag)

        def is_test(frag, node):
            return node.kind == "test" and "self._maxsize" in ast.unparse(node.node)

        def in_lock_ev(name):
            def f(frag, node):
                if frag is None or not in_lock(frag if isinstance(frag, ast.AST) and hasattr(frag, "_parent") else node.node):
                    return False
                if name == "inc":
                    return bool(find_all("self._currsize += 1", frag))
                if name == "dec":
                    return bool(find_all("self._currsize -= 1", frag))
                if name == "evict":
                    dels = [m for m, b in find_all(f"del {CE}[$K]", frag) if not (isinstance(b["K"], ast.Name) and b["K"].id == KEY)]
                    return bool(dels) or bool(find_all(f"{CE}.popitem($*A)", frag)) or bool(find_all(f"{CE}.pop($*A)", frag))
                return False
            return f

        ctx.paths("R20-d", call, [("store", [in_lock_store]), ("inc", [in_lock_ev("inc")]), ("test", [is_test]), ("evict", [in_lock_ev("evict")]),
                                  ("dec", [in_lock_ev("dec")]), ("susp", [is_susp])], step_d, (False, 0, False, 0, 0), at_exit_d,
                  instance="store, count, size test and eviction form one atomic section")
    for kind, st, keyexpr in removals:
        if kind == "del":
            # (the decrement that belongs to the eviction may be written before the `del`: the size test is required where the pair begins)
            par_ = getattr(st, "_parent", None)
            sibs = next((getattr(par_, fl) for fl in ("body", "orelse", "finalbody") if isinstance(getattr(par_, fl, None), list) and st in getattr(par_, fl)), [st])
            pair = [x for x in sibs if x is st or find_all("self._currsize -= 1", x)]
            first = min(pair, key=lambda n: (n.lineno, n.col_offset))
            ctx.require_at("R20-d", call, first, [["self._maxsize < self._currsize"]], instance="eviction only when more than maxsize results are retained",
                           what="eviction")
    # counter writers
    incs = ctx.sites(call, "self._currsize += 1")
    decs = ctx.sites(call, "self._currsize -= 1")
    ok = len(incs) == 1 and all(in_lock(s) for s, _ in incs)
    ctx.ob("R20-d", call, "the size counter is incremented exactly where a result is stored", ok,
           detail="" if ok else f"{len(incs)} increments of _currsize, expected one inside the lock next to the result store", by=("self._currsize += 1",))
    for s, _ in decs:
        if in_lock(s):
            continue
        ctx.require_at("R20-d", call, s, [[f"{lockname} is None"]], instance="the counter is decremented outside the lock only for a completed (expired) result")
    others = [w for w in ctx.writers("_currsize", modules=[FN]) if w[0] is not None and w[0].qual not in
              ("AsyncLRUCacheWrapper.__call__", "AsyncLRUCacheWrapper.__init__", "AsyncLRUCacheWrapper.cache_clear")]
    ctx.ob("R20-d", call, "no other writer of the size counter", not others,
           detail="" if not others else f"_currsize is also written in {[w[0].qual for w in others]}", by=("writer table",))

    # ---- R20-e LRU order and expiry ----------------------------------------------------------------------------------------------------------------
    hits = ctx.sites(call, "self._hits += 1")
    ctx.need("R20-e", call, "hit sites (`self._hits += 1`)", len(hits), 2)

    def step_e(st, e, c):
        # a hit is counted and the entry's position refreshed in one synchronous section, in either order
        if c.is_exc:
            return st
        if e == "hit":
            return "moved" if st == "mte-first" else "hit"
        if e == "mte":
            return "moved" if st == "hit" else "mte-first"
        if e == "susp" and st == "mte-first":
            return ""
        return st

    def at_exit_e(kind, st, facts):
        if kind == "return" and st == "hit":
            return "a cache hit returns without refreshing the entry's LRU position (move_to_end)"
        return None

    ctx.paths("R20-e", call, [("hit", "self._hits += 1"), ("mte", f"{CE}.move_to_end({KEY})"), ("susp", [is_susp])], step_e, "", at_exit_e,
              instance="hits refresh the LRU position")
    rets = [n for n in own_walk(fn) if isinstance(n, ast.Return) and n.value is not None and CV in {x.id for x in ast.walk(n.value) if isinstance(x, ast.Name)} and not in_lock(n)]
    ctx.need("R20-e", call, "the early `return cached_value` of a hit", len(rets), 1)
    for r in rets:
        ctx.require_at("R20-e", call, r, [[f"{lockname} is None", f"{EXP} is None"], [f"{lockname} is None", f"current_time() < {EXP}"]],
                       instance="a stored value is served without the lock only if it is a completed, unexpired result", what="hit return")
    # the stored expiry is now + ttl
    for st in stores:
        if in_lock(st):
            # the expiry stored with the result: `current_time() + self._ttl if self._ttl is not None else None`, in either spelling
            exp = []
            ev_ = st.value.elts[2] if isinstance(st.value, ast.Tuple) and len(st.value.elts) == 3 else None
            if isinstance(ev_, ast.Name):
                val_ = resolve_value(fn, ev_, within=lockw)
                want_ = ast.parse("current_time() + self._ttl if self._ttl is not None else None", mode="eval").body
                alt_ = ast.parse("None if self._ttl is None else current_time() + self._ttl", mode="eval").body
                if isinstance(val_, ast.IfExp) and ast.dump(val_) in (ast.dump(want_), ast.dump(alt_)):
                    defs_ = [n for n in own_walk(lockw) if isinstance(n, ast.Assign) and len(n.targets) == 1 and getattr(n.targets[0], "id", None) == ev_.id]
                    exp = [(defs_[0], {"E": ev_})]
            okx = bool(exp) and exp[0][0].lineno < st.lineno and in_lock(exp[0][0])
            ctx.ob("R20-e", call, "a result's expiry is `current_time() + ttl` taken after the computation", okx, node=st,
                   detail="" if okx else "the stored expiry is not computed as current_time() + self._ttl after the wrapped call returned",
                   by=("expires_at = current_time() + self._ttl",))
            if okx:
                wl = [w for w in wcalls if in_lock(w)]
                okafter = bool(wl) and wl[0].lineno < exp[0][0].lineno
                ctx.ob("R20-e", call, "the expiry clock starts when the result is available", okafter, node=exp[0][0],
                       detail="" if okafter else "expires_at is computed before the wrapped function is awaited (a slow computation would be born expired or live too short)",
                       by=("after await self.__wrapped__",))
    # eviction direction
    for kind, st, keyexpr in removals:
        loop = enclosing(st, (ast.For,), stop=fn)
        if loop is not None:
            fwd = isinstance(loop.iter, ast.Call) and isinstance(loop.iter.func, ast.Attribute) and _is_ce(loop.iter.func.value)
            ctx.ob("R20-e", call, "eviction scans from the least recently used end", fwd, node=loop,
                   detail="" if fwd else f"`{norm(loop)}` does not iterate the mapping front to back", by=("for ... in cache_entry.items()",))
    mte_res = [s for s, _ in ctx.sites(call, f"{CE}.move_to_end({KEY})") if in_lock(s)]
    ctx.ob("R20-e", call, "a freshly stored result becomes the most recently used entry", len(mte_res) >= 2,
           detail="" if len(mte_res) >= 2 else "the result store / late hit under the lock is not followed by move_to_end(key): the placeholder keeps the "
                                                  "position of the first call and a fresh result can be evicted first", by=("move_to_end(key)",))
    # bypass
    def is_byp(frag, node):
        return node.kind == "test" and "self._maxsize" in ast.unparse(node.node) and isinstance(node.node, ast.Compare) and \
            any(isinstance(c_, ast.Constant) and c_.value == 0 for c_ in [node.node.left] + node.node.comparators)

    def touches_cache(frag, node):
        if frag is None:
            return False
        return any(isinstance(x, ast.Name) and x.id in (CE, "lru_cache_items") for x in [frag] + list(own_walk(frag)))

    def step_b(st, e, c):
        if e == "byp":
            return True
        if e == "touch" and not st:
            return Bad("the cache is consulted or written before the maxsize == 0 bypass was tested (maxsize=0 must not cache anything)")
        return st

    ctx.paths("R20-e", call, [("byp", [is_byp]), ("touch", [touches_cache])], step_b, False, None, instance="maxsize == 0 bypasses the cache before anything is looked up or stored")

    # ---- R20-f key and value fidelity ------------------------------------------------------------------------------------------------------------------
    kdefs = [n for n in own_walk(fn) if (isinstance(n, (ast.Assign, ast.AnnAssign)) and any(isinstance(t, ast.Name) and t.id == KEY for t in (n.targets if isinstance(n, ast.Assign) else [n.target])))
             or (isinstance(n, ast.AugAssign) and isinstance(n.target, ast.Name) and n.target.id == KEY)]
    ctx.need("R20-f", call, "definitions of `key`", len(kdefs), 2)
    base = [n for n in kdefs if not isinstance(n, ast.AugAssign)]
    okbase = len(base) == 1 and base[0].value is not None and vaname in {x.id for x in ast.walk(base[0].value) if isinstance(x, ast.Name)}
    ctx.ob("R20-f", call, "the key starts from the positional arguments", okbase, node=base[0] if base else None,
           detail="" if okbase else "`key` is not initialised from *args", by=("key = args",))
    augs = [n for n in kdefs if isinstance(n, ast.AugAssign)]
    bad_aug = [n for n in augs if not isinstance(n.op, ast.Add)]
    ctx.ob("R20-f", call, "the key only grows (+=)", not bad_aug, detail="" if not bad_aug else f"`{norm(bad_aug[0])}` does not extend the key", by=("+=",))

    def mentions(n, text):
        return text in ast.unparse(n.value)

    def under_typed(n):
        return lexically_inside(n, lambda x: isinstance(x, ast.If) and "self._typed" in ast.unparse(x.test), stop=fn)

    kw_items = [n for n in augs if mentions(n, f"{kwname}.items()") and not under_typed(n)]
    ok = len(kw_items) == 1 and mentions(kw_items[0], "initial_missing")
    ctx.ob("R20-f", call, "keyword arguments enter the key as items behind a separator", ok, node=kw_items[0] if kw_items else None,
           detail="" if ok else "the key does not include `(initial_missing,) + kwargs.items()`: f(1, 'a', 2) and f(1, a=2) - or calls differing only in "
                                "keyword values - would share an entry", by=("(initial_missing,) + sum(kwargs.items(), ())",))
    if kw_items:
        unc = not lexically_inside(kw_items[0], lambda x: isinstance(x, ast.If) and kwname not in ast.unparse(x.test), stop=fn)
        ctx.ob("R20-f", call, "the keyword part is added whenever there are keyword arguments", unc, node=kw_items[0],
               detail="" if unc else "the keyword items are added to the key only under an unrelated condition", by=("if kwargs",))
    t_args = [n for n in augs if under_typed(n) and mentions(n, "type(") and mentions(n, f" in {vaname}")]
    t_kw = [n for n in augs if under_typed(n) and mentions(n, "type(") and mentions(n, f"{kwname}.values()")]
    ctx.ob("R20-f", call, "typed=True adds the positional argument types", len(t_args) == 1, detail="" if t_args else "no `type(arg) for arg in args` under self._typed",
           by=("type(arg) for arg in args",))
    ok = len(t_kw) == 1 and mentions(t_kw[0], "initial_missing")
    ctx.ob("R20-f", call, "typed=True adds the keyword argument types behind a separator", ok, detail="" if ok else "no `(initial_missing,) + type(val) for val in kwargs.values()` under self._typed",
           by=("type(val) for val in kwargs.values()",))
    # no definition of key after its first use as a subscript
    first_use = min([ld.lineno for ld in loads] + [s.lineno for s in stores] or [10 ** 9])
    late = [n for n in kdefs if n.lineno > first_use]
    ctx.ob("R20-f", call, "the key is complete before it is first used", not late, detail="" if not late else f"`{norm(late[0])}` changes the key after it was used for a lookup",
           by=("def-use order",))
    # returned values
    allrets = [n for n in own_walk(fn) if isinstance(n, ast.Return)]
    for r in allrets:
        v = ast.unparse(r.value) if r.value is not None else "None"
        ok = v in (VAL, f"cast(T, {CV})", CV)
        ctx.ob("R20-f", call, "what is returned is the wrapped call's result or the stored value", ok, node=r,
               detail="" if ok else f"`{norm(r)}` returns something else", by=(v,))
    vdefs = [n for n in own_walk(fn) if isinstance(n, ast.Assign) and len(n.targets) == 1 and isinstance(n.targets[0], ast.Name) and n.targets[0].id == VAL]
    for n in vdefs:
        v = ast.unparse(n.value)
        ok = v in (f"await self.__wrapped__(*{vaname}, **{kwname})", f"cast(T, {CV})", CV)
        ctx.ob("R20-f", call, "`value` is the awaited wrapped call or the stored value", ok, node=n, detail="" if ok else f"`{norm(n)}`", by=(v,))
    # the stored value is the computed one
    for st in stores:
        if in_lock(st):
            ok = isinstance(st.value, ast.Tuple) and getattr(st.value.elts[0], "id", "") == VAL
            ctx.ob("R20-f", call, "what is stored is the computed value", ok, node=st, detail="" if ok else f"`{norm(st)}` stores something else", by=("value",))
        kk = [t for t in st.targets if isinstance(t, ast.Subscript)]
        okk = all(isinstance(t.slice, ast.Name) and t.slice.id == KEY for t in kk)
        ctx.ob("R20-f", call, "stores go under this call's key", okk, node=st, detail="" if okk else f"`{norm(st)}` stores under another key", by=("cache_entry[key]",))
    # statistics
    ms = ctx.sites(call, "self._misses += 1")
    ctx.ob("R20-f", call, "misses are counted on both computing paths", len(ms) == 2, detail="" if len(ms) == 2 else f"{len(ms)} `self._misses += 1` sites", by=("_misses",))

    # the method wrapper forwards to the same cache
    mw = ctx.fn("_LRUMethodWrapper.__call__", FN)
    s1 = find_all("return await $W($*A)", mw.node)
    # ... with the instance as first argument exactly when there is one (`is None`, not falsiness: an empty container-like instance is an
    # instance), and with all of the caller's arguments.  The argument list is either written at the call or built first
    # (`call_args = args if inst is None else (inst, *args)`): every way of building it is a variant judged where it is built.
    init_mw = ctx.fn("_LRUMethodWrapper.__init__", FN)
    inst_attr = [n_.attr for n_ in ast.walk(init_mw.node) if isinstance(n_, ast.Attribute) and isinstance(n_.ctx, ast.Store)
                 and isinstance(getattr(n_, "_parent", None), ast.Assign) and norm(n_._parent.value) == init_mw.node.args.args[2].arg]
    variants = []
    if ctx.need("R20-f", mw, "the field of _LRUMethodWrapper that stores the bound instance", len(inst_attr), 1):
        inst = f"self.{inst_attr[0]}"
        va, kw_ = mw.node.args.vararg, mw.node.args.kwarg
        for m_, env_ in s1:
            c_ = m_.value.value if isinstance(m_, ast.Return) else None
            if not isinstance(c_, ast.Call):
                continue
            kw_ok = bool(kw_) and [norm(k.value) for k in c_.keywords if k.arg is None] == [kw_.arg] and not [k for k in c_.keywords if k.arg is not None]
            ctx.ob("R20-f", mw, "the caller's keyword arguments are forwarded unchanged", kw_ok, node=m_, by=("**kwargs",),
                   detail="" if kw_ok else f"`{norm(m_)}` does not forward **kwargs")
            if len(c_.args) == 1 and isinstance(c_.args[0], ast.Starred) and isinstance(c_.args[0].value, ast.Name) and (not va or c_.args[0].value.id != va.arg):
                tn = c_.args[0].value.id
                for d_ in [x for x in own_walk(mw.node) if isinstance(x, ast.Assign) and len(x.targets) == 1 and isinstance(x.targets[0], ast.Name) and x.targets[0].id == tn]:
                    v_ = d_.value
                    if isinstance(v_, ast.Tuple):
                        variants.append((d_, [norm(x) for x in v_.elts]))
                    else:
                        variants.append((d_, [f"*{norm(v_)}"]))
            else:
                variants.append((m_, [norm(x) for x in c_.args]))
        for site_, a_ in variants:
            tail_ok = bool(va) and a_[-1:] == [f"*{va.arg}"] and len(a_) <= 2
            ctx.ob("R20-f", mw, "the caller's positional arguments are forwarded unchanged", tail_ok, node=site_, by=("*args",),
                   detail="" if tail_ok else f"`{norm(site_)}` does not forward *args (after at most the instance)")
            if a_[:1] == [inst]:
                ctx.require_at("R20-f", mw, site_, [[f"{inst} is not None"]], instance="the instance is passed (and becomes part of the key) whenever there is one", what="bound call")
            else:
                ctx.require_at("R20-f", mw, site_, [[f"{inst} is None"]], instance="the call omits the instance only when there is none (access through the class)",
                               what="unbound call")
        ok = any(a_[:1] == [inst] for _, a_ in variants) and any(a_[:1] != [inst] for _, a_ in variants)
        ctx.ob("R20-f", mw, "bound-method calls go through the shared wrapper (instance is part of the key)", ok,
               detail="" if ok else "_LRUMethodWrapper.__call__ no longer forwards to the wrapper both with and without the instance", by=("self.__wrapper(self.__instance, *args, **kwargs)",))
    cc = ctx.fn("AsyncLRUCacheWrapper.cache_clear", FN)
    s2 = ctx.sites(cc, "$C.pop(self, None)")
    z = ctx.sites(cc, "self._currsize = 0")          # (the chained `self._hits = self._misses = self._currsize = 0` is split into three stores)
    ctx.ob("R20-d", cc, "cache_clear drops the whole mapping and zeroes the counter together", len(s2) == 1 and len(z) == 1,
           detail="" if s2 and z else "cache_clear no longer pops the wrapper's mapping and resets _currsize in one step", by=("cache.pop(self) + _currsize = 0",))

    # ---- R20-g the cache lives in a run variable of the event loop: the loop's run-variable store is never dropped wholesale while the
    # loop lives (in-flight placeholders and their locks would vanish and an equal call would run the function a second time) (shared with C14/R14-i)
    from .c14 import run_var_store_intact
    run_var_store_intact(ctx, "R20-g")
