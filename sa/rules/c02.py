"""C02 — Task group errors: siblings cancelled, every exception surfaces exactly once."""
from __future__ import annotations

import ast

from sa.engine.facts import Bad, F
from sa.engine.pattern import P, u, dump
from sa.engine.source import norm, own_walk
from .common import A, writer_table
from .scope_exit import scope_exit_filter

EXPLANATION = ("Task group errors: the done-callback routes the child's exception to exactly one sink on every path (or it is None / a "
               "cancellation), only non-cancellations are collected, the first failure cancels the group, the block raises the whole "
               "list as one group exactly when it is non-empty, an outer exception passes through unchanged, the scope's exit filter "
               "splits out AnyIO cancellations only."
               " The classifier that tells AnyIO's cancellations from native ones follows __context__ from one CancelledError to the next and cannot fail; the restart walk reaches a cancelled scope before it tests its shield; a scope that swallows its own cancellation out of a group reports cancelled_caught also when it re-raises the rest."
               " The delivery loop's retry flag accumulates over members and child scopes.")
NOT_DECIDED = "Ordering of leaves, tracebacks / __context__ chains, schedules."


def routing(ctx, rule, done):
    """R02-a / R07-d: the child's exception reaches exactly one sink"""
    xs = ctx.sites(done, "$X = $T.exception()")
    if not ctx.need(rule, done, "`exc = _task.exception()`", len(xs), 1):
        return None
    x = u(xs[0][1]["X"])
    isc = F(f"isinstance({x}, CancelledError)")
    none = F(f"{x} is None")

    def step(st, e, c):
        if c.is_exc:
            return st
        return min(st + 1, 3)

    def at_exit(kind, st, facts):
        if kind != "return":
            return None
        if st > 1:
            return f"the child's exception is delivered to {st} sinks (it would surface twice)"
        if st == 1:
            return None
        if none in facts or isc in facts:
            return None
        return ("the done-callback returns without delivering the child's non-cancellation exception to the group or to the "
                "start() future: the error is silently dropped")

    ctx.paths(rule, done, [("sink", [f"self._exceptions.append({x})", f"$F.set_exception({x})"])], step, 0, at_exit,
              instance="child exception reaches exactly one sink")
    return x


def check(ctx):
    aexit = ctx.fn("TaskGroup.__aexit__", A)
    done = ctx.fn("TaskGroup._spawn.task_done", A)

    # ---- R02-a ------------------------------------------------------------------------------------------------
    x = routing(ctx, "R02-a", done) or "exc"

    # ---- R02-b only non-cancellations are collected ---------------------------------------------------------------
    apps = []
    for f in (aexit, done):
        for st, env in ctx.sites(f, "self._exceptions.append($V)"):
            apps.append((f, st, env))
    ctx.need("R02-b", done, "append sites of the error list (body exception in __aexit__, child exception in the done-callback)", len(apps), 2)
    for f, st, env in apps:
        v = u(env["V"])
        ctx.require_at("R02-b", f, st, [[f"not isinstance({v}, CancelledError)", f"not {v} is None"],
                                       [f"not isinstance({v}, CancelledError)", f"{v}"]],
                       instance="only a real (non-cancellation) exception is collected", what="append")
    writer_table(ctx, "R02-b", "_exceptions", {
        "TaskGroup.__init__": {"assign"}, "TaskGroup.__aexit__": {"call:append", "del"}, "TaskGroup._spawn.task_done": {"call:append"},
    }, floor=3, modules=[A], cls_filter=lambda fn: fn.cls != "TestRunner")  # TestRunner owns an unrelated field of the same name

    # ---- R02-c first failure cancels the siblings ----------------------------------------------------------------
    eff = F("self.cancel_scope._effectively_cancelled")

    def step_c(st, e, c):
        app, canc = st
        if c.is_exc:
            return st
        if e == "append":
            return (True, canc)
        if e == "cancel":
            return (app, True)
        return st

    def at_exit_c(kind, st, facts):
        app, canc = st
        if kind == "return" and app and not canc and eff not in facts:
            return "a child's error is collected but the group's scope is not cancelled (siblings keep running)"
        return None

    ctx.paths("R02-c", done, [("append", f"self._exceptions.append({x})"), ("cancel", "self.cancel_scope.cancel()")], step_c,
              (False, False), at_exit_c, instance="failing child cancels the group")
    # a child that ends by cancellation in the group branch cancels the group too (level cancellation of its subtree)
    body_none = F("exc_val is None")

    def step_b(st, e, c):
        if e == "cancel" and not c.is_exc:
            return True
        if e == "wait" and not st and body_none not in c.facts_before:
            return Bad("the join waits for the children without the group's scope having been cancelled although the block body may have raised "
                       "(only `exc_val is None` excuses it - a test for truthiness lets an exception object that is falsy through)")
        return st

    ctx.paths("R02-c", aexit, [("cancel", "self.cancel_scope.cancel()"), ("wait", "await self._on_completed_fut")], step_b, False,
              lambda k, s, f: None, instance="failing body cancels the group before the join")

    # ---- R02-d what the block raises ------------------------------------------------------------------------------
    rg = ctx.sites(aexit, "raise BaseExceptionGroup($M, $L) from None") + ctx.sites(aexit, "raise BaseExceptionGroup($M, $L)")
    if ctx.need("R02-d", aexit, "`raise BaseExceptionGroup(..., self._exceptions)`", len(rg), 1):
        st, env = rg[0]
        ok = u(env["L"]) == "self._exceptions"
        ctx.ob("R02-d", aexit, "the group carries the whole error list", ok,
               detail="" if ok else f"the exception group is built from `{u(env['L'])}`, not from the whole list self._exceptions (leaves can be lost)",
               node=st, by=("self._exceptions",))
        ctx.require_at("R02-d", aexit, st, [["self._exceptions", "not self._tasks"]], instance="group raised only with errors, after the join")
    rv = [s for s, e in ctx.sites(aexit, "raise $E") if isinstance(e["E"], ast.Name) and e["E"].id == "exc_val"]
    if ctx.need("R02-d", aexit, "`raise exc_val` (outer exception passes through)", len(rv), 1):
        ctx.require_at("R02-d", aexit, rv[0], [["not self._exceptions", "exc_val", "not self._tasks"]],
                       instance="the body/outer exception is re-raised unchanged only when nothing else failed")
    exits = ctx.sites(aexit, "self.cancel_scope.__exit__($*A)")
    normal = [c for c, _ in exits if isinstance(getattr(c, "_parent", None), ast.Return)]
    if ctx.need("R02-d", aexit, "normal-path `return self.cancel_scope.__exit__(exc_type, exc_val, exc_tb)`", len(normal), 1):
        ctx.require_at("R02-d", aexit, normal[0], [["not self._exceptions", "not exc_val"]],
                       instance="nothing is raised only when nothing failed")
    guarded = [c for c, _ in exits if not isinstance(getattr(c, "_parent", None), ast.Return)]
    if ctx.need("R02-d", aexit, "error-path consultation of the scope's __exit__", len(guarded), 1):
        call = guarded[0]
        key = F(ast.unparse(call))
        for r, _ in ctx.sites(aexit, "return True"):
            ctx.require_at("R02-d", aexit, r, [[key]], instance="the error is swallowed only if the scope's __exit__ absorbed it")
        h = call
        while h is not None and not isinstance(h, ast.ExceptHandler):
            h = getattr(h, "_parent", None)
        ok = h is not None and h.name is not None and [ast.unparse(a) for a in call.args] == [f"type({h.name})", h.name, f"{h.name}.__traceback__"]
        ctx.ob("R02-d", aexit, "the scope's exit sees the exception that is actually propagating", ok,
               detail="" if ok else f"`{norm(call)}` is not called with (type(exc), exc, exc.__traceback__) of the caught exception", node=call,
               by=("argument identity",))
        # the handler re-raises otherwise
        if h is not None:
            # (in whichever order the two outcomes are written: the handler has a bare `raise`, cannot be left by falling through,
            # and returns nothing but the guarded `return True` checked above)
            from sa.engine.core import _may_fall_through
            last = h.body[-1]
            inner = [x for s_ in h.body for x in ast.walk(s_)]
            bare = [x for x in inner if isinstance(x, ast.Raise) and x.exc is None]
            other_ret = [x for x in inner if isinstance(x, ast.Return) and not (isinstance(x.value, ast.Constant) and x.value.value is True)]
            ok2 = bool(bare) and not _may_fall_through(h.body) and not other_ret
            ctx.ob("R02-d", aexit, "an error the scope does not absorb is re-raised", ok2,
                   detail="" if ok2 else "the error handler of __aexit__ can be left without `return True` (absorbed) or a bare `raise`", node=last, by=("bare raise",))

    # ---- R02-e filtering in the scope exit ---------------------------------------------------------------------------
    scope_exit_filter(ctx, "R02-e")

    # ---- R02-f "the group's remaining tasks are cancelled" includes a task that joins the group after it failed (shared with C03/R03-i)
    from .walkers import join_restarts
    join_restarts(ctx, "R02-f", ("TaskGroup._spawn",), 1)

    # ---- R02-g "cancellation exceptions caused by the group's own shutdown are not reported as errors" and "a cancellation coming from an
    # enclosing scope passes through" both rest on the classifier telling AnyIO's cancellations from native ones (shared with C01/R01-h)
    from .common import classifier_total
    classifier_total(ctx, "R02-g")

    # ---- R02-h "the group's remaining tasks are cancelled" includes a sibling that was inside a shielded section when the group failed:
    # leaving that section restarts the group scope's idle delivery loop - also when the group's scope is itself shielded (shared with C03/R03-d)
    from .walkers import restart_walker
    restart_walker(ctx, "R02-h")

    # ---- R02-i "the group's remaining tasks are cancelled" rests on the level-triggered delivery loop keeping itself alive: the retry flag
    # accumulates over the scope's own members *and* its child scopes (a child scope with nothing left must not clear it) (shared with C03/R03-c)
    from .c03 import delivery_loop
    delivery_loop(ctx, "R02-i")
