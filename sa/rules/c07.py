"""C07 — TaskGroup.start(): readiness handshake is exact and loses nothing."""
from __future__ import annotations

import ast

from sa.engine.cfg import is_shield_with
from sa.engine.facts import Bad, F
from sa.engine.pattern import P, u, dump
from sa.engine.source import norm, own_walk, stmt_of
from .common import A, lexically_inside, waiter_guard
from .c02 import routing

EXPLANATION = ("TaskGroup.start(): a cancelled/failed wait for readiness cancels a still-pending child and waits for it under a shield "
               "before re-raising; the start value is returned only after the readiness future completed; started() sets the future once "
               "(second call is an error unless the starter was cancelled) and re-parents afterwards; the done-callback routes the child's "
               "outcome to the future or to the group, exactly once; the future is plumbed to status object, spawn and wait."
               " start() never cancels the child and then leaves without waiting (a status test made after handle.cancel() cannot stand for 'finished')."
               " The delivery loop keeps itself alive for a member that already has a cancellation on its way.")
NOT_DECIDED = "Timing of the child's steps relative to cancellations (schedules); behaviour of user coroutines."


def check(ctx):
    start = ctx.fn("TaskGroup.start", A)
    done = ctx.fn("TaskGroup._spawn.task_done", A)
    started = ctx.fn("_AsyncioTaskStatus.started", A)
    spawn = ctx.fn("TaskGroup._spawn", A)

    # ---- R07-e plumbing -----------------------------------------------------------------------------------------
    fs = ctx.sites(start, "$F = asyncio.Future()")
    if not ctx.need("R07-e", start, "readiness future `future = asyncio.Future()`", len(fs), 1):
        return
    fut = u(fs[0][1]["F"])
    ts = ctx.sites(start, f"$S = _AsyncioTaskStatus({fut}, $*A)")
    ctx.need("R07-e", start, "the status object is built on the readiness future", len(ts), 1)
    tsn = u(ts[0][1]["S"]) if ts else "task_status"
    cc = ctx.sites(start, f"$C = call_for_coroutine($FN, $AR, task_status={tsn})")
    ctx.need("R07-e", start, "the child coroutine receives that status object", len(cc), 1)
    cn = u(cc[0][1]["C"]) if cc else "coro"
    sp = ctx.sites(start, f"$H = self._spawn({cn}, $N, {fut})")
    if not ctx.need("R07-e", start, "the same future is handed to _spawn with the child's coroutine", len(sp), 1):
        return
    hd = u(sp[0][1]["H"])
    third = spawn.node.args.args[3].arg if len(spawn.node.args.args) > 3 else None
    ok = third is not None and any(isinstance(n, ast.Name) and n.id == third for n in ast.walk(done.node))
    ctx.ob("R07-e", spawn, "_spawn's third parameter is the future the done-callback resolves", ok,
           detail="" if ok else "the done-callback does not refer to _spawn's readiness-future parameter", by=(str(third),))
    tsf = third or "task_status_future"
    waits = ctx.sites(start, f"await {fut}")
    ctx.need("R07-e", start, "start() awaits the readiness future", len(waits), 1)

    # ---- R07-a cancelled starter waits for the child ----------------------------------------------------------------
    pend = F(f"{hd}.status is TaskHandle.Status.PENDING")

    def step(st, e, c):
        intr, canc, waited = st
        if e == "wait":
            if c.is_exc:
                return (True, False, False)
            return st
        if c.is_exc:
            return st
        if e == "hcancel":
            return (intr, True, waited)
        if e == "hwait":
            if intr and not canc:
                return Bad("start() waits for the child without having cancelled it (it would wait for ever if the child blocks)")
            return (intr, canc, True)
        return st

    def at_exit(kind, st, facts):
        intr, canc, waited = st
        if not intr:
            return None
        if kind == "return":
            return "an exception raised while waiting for readiness is swallowed by start()"
        if canc and waited:
            return None
        if canc:
            # TaskHandle.cancel() turns PENDING into CANCELLING: a status test made after it cannot tell a finished child from a running one
            return ("start() cancels the child and then leaves without waiting for it (a status test made after handle.cancel() never "
                    "reads PENDING, so it cannot stand for 'the child has finished')")
        if (pend[0], False) in facts:
            return None
        return ("start() re-raises while the child may still be running: a pending child must be cancelled and awaited (under a shield) "
                "before start() leaves")

    ctx.paths("R07-a", start, [("wait", f"await {fut}"), ("hcancel", f"{hd}.cancel()"), ("hwait", f"await {hd}.wait()")], step,
              (False, False, False), at_exit, instance="cancelled starter cancels and joins a pending child")
    hw = ctx.sites(start, f"await {hd}.wait()")
    ctx.need("R07-a", start, "`await handle.wait()` in the handler", len(hw), 1)
    for call, _ in hw:
        ok = lexically_inside(call, is_shield_with, stop=start.node)
        ctx.ob("R07-a", start, "the wait for the child is shielded", ok,
               detail="" if ok else "`await handle.wait()` is not inside `with CancelScope(shield=True)`: the starter's own cancellation interrupts the wait and the child outlives start()",
               node=call, by=("with CancelScope(shield=True)",))
    # the handler catches every exception class (cancellation included)
    hs = [h for h in own_walk(start.node) if isinstance(h, ast.ExceptHandler) and any(id(w[0]) in {id(x) for x in ast.walk(h._parent)} for w in waits)]
    okh = bool(hs) and (hs[0].type is None or ast.unparse(hs[0].type) == "BaseException")
    ctx.ob("R07-a", start, "the handler around the wait catches BaseException", okh,
           detail="" if okh else "the wait for readiness is not guarded by `except BaseException`", by=("except BaseException",))

    # ---- R07-b value ---------------------------------------------------------------------------------------------
    def step_b(st, e, c):
        if e == "wait" and not c.is_exc:
            return True
        if e == "result" and not st:
            return Bad("the start value is read before the readiness future was awaited")
        return st

    def at_exit_b(kind, st, facts):
        if kind == "return" and not st:
            return "start() returns without having waited for task_status.started()"
        return None

    ctx.paths("R07-b", start, [("wait", f"await {fut}"), ("result", f"{fut}.result()")], step_b, False, at_exit_b,
              instance="start value only after readiness")
    from .common import resolve_value
    rets = [n for n in own_walk(start.node) if isinstance(n, ast.Return)]
    def rv(e):
        return ast.unparse(e) if ast.unparse(e) == hd else ast.unparse(resolve_value(start.node, e))
    vals = sorted({rv(r.value) if r.value is not None else "None" for r in rets})
    ok = vals == sorted([hd, f"{fut}.result()"])
    ctx.ob("R07-b", start, "start() returns the started() value (or the handle carrying it)", ok,
           detail="" if ok else f"return values of start(): {vals}", by=tuple(vals))
    sv = [(st_, env) for st_, env in ctx.sites(start, f"{hd}._start_value = $V")
          if ast.unparse(resolve_value(start.node, env["V"])) == f"{fut}.result()"]
    ctx.ob("R07-b", start, "the handle carries the start value", len(sv) == 1, detail="" if sv else "handle._start_value is not set from future.result()",
           by=("handle._start_value",))
    for r in rets:
        if r.value is not None and ast.unparse(r.value) == hd:
            ctx.require_at("R07-b", start, r, [["return_handle"]], instance="the handle is returned only when asked for")

    # ---- R07-c started() ---------------------------------------------------------------------------------------------
    val = started.node.args.args[1].arg
    sr = ctx.sites(started, f"self._future.set_result({val})")
    ctx.need("R07-c", started, "`self._future.set_result(value)`", len(sr), 1)
    rr = ctx.sites(started, "raise RuntimeError($*A) from None") + ctx.sites(started, "raise RuntimeError($*A)")
    if ctx.need("R07-c", started, "second started() raises RuntimeError", len(rr), 1):
        ctx.require_at("R07-c", started, rr[0][0], [[("@exc", "InvalidStateError"), "not self._future.cancelled()"],
                                                    ["self._future.done()", "not self._future.cancelled()"]],      # (EAFP / LBYL)
                       instance="second started() is an error unless the starter was cancelled")

    def step_c(st, e, c):
        sr_, rp = st
        if e == "set":
            return (True, rp)
        if e == "reparent" and not c.is_exc:
            if not sr_ and ("self._future.done()", True) not in c.facts_before:      # (already resolved: nothing left to signal)
                return Bad("the child is re-parented before readiness was signalled")
            return (sr_, True)
        return st

    def at_exit_c(kind, st, facts):
        sr_, rp = st
        if kind == "return" and not ((sr_ or ("self._future.done()", True) in facts) and rp):
            return f"started() returns without {'signalling readiness' if not sr_ else 're-parenting the child'}"
        return None

    ctx.paths("R07-c", started, [("set", f"self._future.set_result({val})"), ("reparent", "_task_states[$T].parent_id = self._parent_id")],
              step_c, (False, False), at_exit_c, instance="signal, then re-parent")

    # ---- R07-d routing in the done-callback ------------------------------------------------------------------------
    x = routing(ctx, "R07-d", done) or "exc"
    fx = ctx.sites(done, f"{tsf}.set_exception({x})")
    if ctx.need("R07-d", done, "child failure before started() is delivered to the start() future", len(fx), 1):
        ctx.require_at("R07-d", done, fx[0][0], [[f"not {tsf} is None", f"not {tsf}.done()", f"not {x} is None"]],
                       instance="failure routed to the future only while it is still pending")
    # the RuntimeError for a child that merely returned: passed to set_exception directly, or bound to the outcome variable first
    rt = [stmt_of(m_) for m_, _ in ctx.sites(done, "RuntimeError($*A)")]
    rt = [r_ for r_ in rt if P(f"{tsf}.set_exception(RuntimeError($*A))").match(r_.value if isinstance(r_, ast.Expr) else r_) is not None
          or (isinstance(r_, ast.Assign) and len(r_.targets) == 1 and u(r_.targets[0]) == x)]
    if ctx.need("R07-d", done, "a child that returns without started() fails start() with RuntimeError", len(rt), 1):
        ctx.require_at("R07-d", done, rt[0], [[f"{x} is None", f"not {tsf} is None", f"not {tsf}.done()"]],
                       instance="RuntimeError only for a clean exit without started()")

    def step_d(st, e, c):
        fut_, grp = st
        if c.is_exc:
            return st
        if e == "fut":
            return (True, grp)
        if e in ("append", "cancel"):
            return (fut_, True)
        return st

    def at_exit_d(kind, st, facts):
        if st[0] and st[1]:
            return "an outcome delivered to the start() future also fails/cancels the group (the group must not be cancelled on that account)"
        if kind == "return" and not st[0] and not st[1] and F(f"{tsf} is None") not in facts and (f"{tsf}.done()", True) not in facts \
                and (f"{tsf}.cancelled()", True) not in facts:        # (a cancelled future is done: the starter has gone)
            return ("the done-callback returns with nothing delivered although start() may still be waiting for this child "
                    "(a child that returns without calling started() must fail start() with RuntimeError)")
        return None

    ctx.paths("R07-d", done, [("fut", f"{tsf}.set_exception($E)"), ("append", "self._exceptions.append($E)"),
                              ("cancel", "self.cancel_scope.cancel()")], step_d, (False, False), at_exit_d,
              instance="future-or-group, never both")
    for st, _ in ctx.sites(done, f"self._exceptions.append({x})"):
        ctx.require_at("R07-d", done, st, [[f"{tsf} is None"], [f"{tsf}.done()"]],
                       instance="a child error goes to the group only once start() can no longer receive it")

    # ---- R07-f the readiness outcome is not overtaken by a cancellation of the starter -------------------------------------------
    waiter_guard(ctx, "R07-f", "a starter whose readiness future has completed (value or the child's error) is not cancelled over it")

    # ---- R07-g "wait for the child" really waits until the child has finished -----------------------------------------------------------
    from .common import dominates_all_exits, TASKS
    hw = ctx.fn("TaskHandle.wait", TASKS)
    dominates_all_exits(ctx, "R07-g", hw, "await self._finished_event.wait()", "TaskHandle.wait() waits for the finished event on every path (a handle that is "
                        "merely cancelling is not finished)")
    rc = ctx.fn("TaskHandle._run_coro", TASKS)
    sets = [w for w in ctx.writers("_finished_event", modules=[TASKS, A]) if w[3] == "call:set"]
    # (the task group's done-callback may finalise the handle of a child that never ran, F14: it runs when the task has ended)
    ok = bool(sets) and all(w[0] is not None and w[0].qual in ("TaskHandle._run_coro", "TaskGroup._spawn.task_done") for w in sets) \
        and sum(1 for w in sets if w[0].qual == "TaskHandle._run_coro") == 1
    ctx.ob("R07-g", rc, "the finished event is set only when the task's coroutine has ended", ok,
           detail="" if ok else f"_finished_event.set() occurs in {[w[0].qual if w[0] else '?' for w in sets]}", by=("single setter in _run_coro",))

    # ---- R07-h a child started into a group whose scope is already cancelled is reached by that cancellation ------------------------------
    # (the starter may be parked in a shielded inner scope, so the group's delivery callback has died down: the join must restart it,
    # and the restart must find the group's own scope even when that scope is itself shielded)
    from .walkers import restart_walker, join_restarts
    join_restarts(ctx, "R07-h", ("TaskGroup._spawn",), 1)
    restart_walker(ctx, "R07-h")

    # ---- R07-i the handle hands back the start value whatever it is: every value - None included - that started() was given is
    # returned; the accessor refuses only when no value was ever stored (the attribute is absent), never because of what the value is
    sv_f = ctx.fn("TaskHandle.start_value", TASKS)
    rets_ = [n_ for n_ in own_walk(sv_f.node) if isinstance(n_, ast.Return)]
    okv = bool(rets_) and all(r_.value is not None and ast.unparse(r_.value) == "self._start_value" for r_ in rets_)
    ctx.ob("R07-i", sv_f, "start_value returns the stored start value itself", okv, node=rets_[0] if rets_ else None,
           detail="" if okv else "TaskHandle.start_value does not `return self._start_value`", by=("return self._start_value",))
    for rz_ in [n_ for n_ in own_walk(sv_f.node) if isinstance(n_, ast.Raise)]:
        fa_ = ctx.facts_at(sv_f, rz_)
        okr = bool(fa_) and all(("@exc", "AttributeError") in x_ or ("hasattr(self, '_start_value')", False) in x_ for x_ in fa_)      # (EAFP / LBYL)
        ctx.ob("R07-i", sv_f, "start_value refuses only when no start value was ever stored", okr, node=rz_,
               detail="" if okr else f"`{norm(rz_)}` is reachable for a task whose start value exists (a value such as None would be reported as 'not started')",
               by=("@exc=AttributeError",))

    # ---- R07-j "the child is cancelled and awaited": the cancellation start() sends to a pending child is delivered by the level-triggered
    # loop, which must keep itself alive for a member that already has a cancellation on its way (shared with C03/R03-c)
    from .c03 import delivery_loop
    delivery_loop(ctx, "R07-j")
