"""Repository-wide sweeps of the thorough tier (informational: they widen what is looked at beyond the anchored functions; they never
decide a property and never change an exit code).

S1 check-then-act across a suspension: an attribute is tested, a suspension point follows, and the attribute is then written without
   having been tested again on that path - the shape behind F4 (join test), F9 (search offset) and most lost-update races.
S2 shadowed except clauses anywhere in the (non-trio) package: a handler that can never run because an earlier one names a base class.
S3 awaits in `finally` / `except` cleanup that are not shielded although the block may be running because of a cancellation."""
from __future__ import annotations

import ast

from sa.engine.cfg import CFG, NONSUSPENDING, call_name, handler_names, is_shield_with
from sa.engine.facts import Explorer, Bad, MUTATORS
from sa.engine.source import AnalysisError, own_walk, norm

S1_KNOWN = {
    ("AsyncContextManagerMixin.__aenter__", "__cm"): "the mixin stores the context manager it just created; re-entrancy is rejected by the test itself",
    ("_TeeState.fill", "filled"): "re-tested under the lock after the await (double-checked fill); decided by C08/R08-b",
    ("_TeeAsyncIterator.__anext__", "_link"): "the link is private to this iterator object; tee iterators are not shared between tasks by contract",
    ("SocketStream.receive", "read_event"): "the event is cleared under a fresh test of the queue after the wait; decided by C18/R18-c",
    ("UDPSocket.receive", "read_queue"): "popleft after the wait is guarded by its own IndexError handling",
    ("ConnectedUDPSocket.receive", "read_queue"): "popleft after the wait is guarded by its own IndexError handling",
    ("_SignalReceiver.__anext__", "_signal_queue"): "single consumer by contract; the wait is for the queue to fill",
    ("BufferedByteReceiveStream.receive", "_buffer"): "the buffer is only extended after the await (surplus of the received chunk); decided by C16/R16-a",
    ("BufferedByteReceiveStream.receive_until", "_buffer"): "extended after the await; the search offset is fixed before it (F9); decided by C16/R16-c",
    ("TLSStream._call_sslobject_method", "_write_bio"): "BIO reads are consumed by the send they feed; decided by C17/R17-a",
    ("run_sync", "last_used"): "to_interpreter worker bookkeeping, outside the 20 properties",
}


def _attrs_tested(node):
    return {x.attr for x in ast.walk(node) if isinstance(x, ast.Attribute) and isinstance(x.ctx, ast.Load)}


def sweep_check_then_act(ctx, limit_modules=None):
    hits = []
    nfun = 0
    for f in ctx.repo.all_funcs:
        if f.module.endswith("_trio.py") or not f.is_async:
            continue
        if limit_modules and not any(f.module.endswith(m) for m in limit_modules):
            continue
        try:
            g = CFG(f.node, native_cancel=False, hier=ctx.hier)
        except Exception as e:      # a construct the CFG builder does not know: say so, do not hide it
            hits.append({"function": f.qual, "error": f"CFG construction failed: {e}"})
            continue
        nfun += 1
        found = {}

        def events(node):
            out = []
            if node.kind == "test":
                for a in sorted(_attrs_tested(node.node)):
                    out.append(("test", a))
            frags = []
            if node.kind in ("stmt", "return", "raise"):
                frags = [node.node]
            elif node.kind == "with_enter":
                frags = [i.context_expr for i in node.node.items]
            for fr in frags:
                for x in [fr] + list(own_walk(fr)):
                    if isinstance(x, ast.Attribute) and isinstance(x.ctx, (ast.Store, ast.Del)):
                        out.append(("write", x.attr))
                    elif isinstance(x, ast.Call) and isinstance(x.func, ast.Attribute) and x.func.attr in MUTATORS and isinstance(x.func.value, ast.Attribute):
                        out.append(("write", x.func.value.attr))
                    elif isinstance(x, ast.Await):
                        if call_name(x) not in NONSUSPENDING:
                            out.append(("susp", ""))
                    elif isinstance(x, (ast.Yield, ast.YieldFrom)):
                        out.append(("susp", ""))
            if node.info.get("async"):
                out.append(("susp", ""))
            return out

        def step(st, e, c):
            kind, a = e
            d = dict(st)
            if kind == "test":
                d[a] = "t"
            elif kind == "susp":
                if c.is_exc:
                    return st
                d = {k: ("s" if v == "t" else v) for k, v in d.items()}
            elif kind == "write":
                if d.get(a) == "s":
                    found.setdefault((f.qual, a), c.node.line)
                d.pop(a, None)
            return frozenset(d.items())

        try:
            Explorer(g, f.node, clsname=f.cls, summaries=ctx.summaries, events=events, step=step, init=frozenset(), max_states=60000).run()
        except AnalysisError:
            hits.append({"function": f.qual, "error": "state space too large for the sweep"})
            continue
        for (q, a), line in sorted(found.items()):
            hits.append({"function": q, "attribute": a, "file": f"src/anyio/{f.module}", "line": line,
                         "known": S1_KNOWN.get((q, a), "")})
    return {"functions": nfun, "sites": hits}


def sweep_shadowed_handlers(ctx):
    hits = []
    ntry = 0
    for rel, tree in ctx.repo.non_trio_modules().items():
        for t in ast.walk(tree):
            if not isinstance(t, ast.Try):
                continue
            ntry += 1
            seen = []
            for h in t.handlers:
                for nm in handler_names(h):
                    sh = [p for p in seen if p not in ("?",) and ctx.hier.is_sub(nm, p) and nm in ctx.hier.parent]
                    if sh:
                        f = ctx.repo.func_of(h)
                        hits.append({"file": f"src/anyio/{rel}", "line": h.lineno, "function": f.qual if f else "<module>", "handler": nm, "shadowed_by": sh[0]})
                seen += handler_names(h)
    return {"try_statements": ntry, "sites": hits}


def sweep_unshielded_cleanup(ctx):
    """awaits inside `finally:` blocks or `except BaseException/CancelledError` handlers of async functions that are not inside a
    shielded scope: if the block runs because of a cancellation the await is interrupted at once and the cleanup is cut short"""
    hits = []
    n = 0
    for f in ctx.repo.all_funcs:
        if f.module.endswith("_trio.py") or not f.is_async:
            continue
        for t in own_walk(f.node):
            if not isinstance(t, ast.Try):
                continue
            blocks = [("finally", t.finalbody)] if t.finalbody else []
            for h in t.handlers:
                if any(nm in ("BaseException", "CancelledError") for nm in handler_names(h)):
                    blocks.append((f"except {','.join(handler_names(h))}", h.body))
            for kind, body in blocks:
                for s in body:
                    for x in [s] + list(own_walk(s)):
                        if isinstance(x, ast.Await):
                            n += 1
                            cur, shielded = x, False
                            while cur is not None and cur is not t:
                                if is_shield_with(cur):
                                    shielded = True
                                cur = getattr(cur, "_parent", None)
                            txt = ast.unparse(x)
                            if not shielded and "aclose_forcefully" not in txt and "cancel_shielded_checkpoint" not in txt:
                                hits.append({"file": f"src/anyio/{f.module}", "line": x.lineno, "function": f.qual, "block": kind, "await": txt[:100]})
    return {"awaits_in_cleanup": n, "sites": hits}


def run_all(ctx):
    return {"S1_check_then_act": sweep_check_then_act(ctx), "S2_shadowed_handlers": sweep_shadowed_handlers(ctx),
            "S3_unshielded_cleanup_awaits": sweep_unshielded_cleanup(ctx)}
