"""C05 — Leaving a cancel scope leaves no residue in the task or the loop."""
from __future__ import annotations

import ast

from sa.engine.facts import Bad, F
from sa.engine.pattern import P, u
from sa.engine.source import norm, own_walk, stmt_of
from .common import A, writer_table

EXPLANATION = ("Leaving a cancel scope: __exit__ applies the inverse of every tree edit of __enter__ on every non-misuse exit (member sets, "
               "child link, task scope pointer, active flag, host task), restarts delivery in the parent, drains the uncancel counter one "
               "uncancel() per delivered cancel() under the absorb condition or transfers it to the parent, cancels its timer; the delivery "
               "callback skips finished tasks before scheduling a retry and clears its handle when nothing is left."
               " In TaskGroup.__aexit__ a cancellation caught during the join replaces the carried exception only if there is none, or it is a cancellation and the *caught* one is native."
               " The replacement rule in TaskGroup.__aexit__ holds in both directions (truth table over its four atoms).")
NOT_DECIDED = "Task.cancelling() values at run time, loop idleness, interaction with native asyncio constructs (needs execution)."


def check(ctx):
    enter = ctx.fn("CancelScope.__enter__", A)
    exit_ = ctx.fn("CancelScope.__exit__", A)
    deliver = ctx.fn("CancelScope._deliver_cancellation", A)
    cancel = ctx.fn("CancelScope.cancel", A)

    # ---- R05-a enter / exit are inverse tree edits -----------------------------------------------------------------
    hs = ctx.sites(enter, "self._host_task = $H = current_task()") + ctx.sites(enter, "self._host_task = current_task()")
    ctx.need("R05-a", enter, "`self._host_task = current_task()`", len(hs), 1)
    EV_IN = [("add_own", "self._tasks.add($H)"), ("ptr", ["$S.cancel_scope = self", "$S = TaskState(None, self)", "_task_states[$H] = TaskState(None, self)"]),
             ("parent", "self._parent_scope = $S.cancel_scope"), ("add_child", "self._parent_scope._child_scopes.add(self)"),
             ("rm_parent", ["self._parent_scope._tasks.discard($H)", "self._parent_scope._tasks.remove($H)"]),
             ("active", "self._active = True"), ("timer", "self._timeout()")]
    no_parent = F("self._parent_scope is None")

    def step_set(st, e, c):
        if c.is_exc:
            return st
        return st | {e}

    def is_parent_test(frag, node):
        if node.kind != "test":
            return False
        from sa.engine.facts import atom
        return atom(node.node)[0] == no_parent[0]

    EV_IN.append(("ptest", [is_parent_test]))

    def step_in(st, e, c):
        if c.is_exc:
            return st
        if e == "ptest":
            return st | {"ptest", "has_parent"} if (no_parent[0], False) in c.facts else st | {"ptest"}
        return st | {e}

    def at_exit_in(kind, st, facts):
        if kind != "return":
            return None
        need = {"add_own", "ptr", "active", "timer"}
        if "parent" in st and "has_parent" not in st and "ptest" not in st and (no_parent[0], True) not in facts:
            # a parent scope was recorded but never examined
            need |= {"add_child", "rm_parent"}
        if "has_parent" in st:
            need |= {"add_child", "rm_parent"}
        miss = need - set(st)
        if miss:
            return f"__enter__ returns without {sorted(miss)}" + (" (a host that stays a member of the parent scope is cancelled by the parent even inside a shielded child)" if "rm_parent" in miss else "")
        return None

    ctx.paths("R05-a", enter, EV_IN, step_in, frozenset(), at_exit_in, instance="__enter__ edits")
    EV_OUT = [("inactive", "self._active = False"), ("rm_own", ["self._tasks.remove(self._host_task)", "self._tasks.discard(self._host_task)"]),
              ("rm_child", ["self._parent_scope._child_scopes.remove(self)", "self._parent_scope._child_scopes.discard(self)"]),
              ("add_parent", "self._parent_scope._tasks.add(self._host_task)"), ("ptr", "$S.cancel_scope = self._parent_scope"),
              ("restart", "self._parent_scope._restart_cancellation()"), ("thcancel", "self._timeout_handle.cancel()"),
              ("thnone", "self._timeout_handle = None"), ("hostnone", "self._host_task = None")]
    has_timer = F("self._timeout_handle")

    def at_exit_out(kind, st, facts):
        st = set(st)
        if kind == "raise:RuntimeError":
            if st - {"hostnone"}:
                return f"a misuse error is raised after the scope tree was already edited ({sorted(st)})"
            return None
        need = {"inactive", "rm_own", "ptr", "hostnone"}
        if no_parent not in facts:
            need |= {"restart"}       # (a root scope has no enclosing scope whose delivery could need a restart)
        if (no_parent[0], False) in facts:
            need |= {"rm_child", "add_parent"}
        elif no_parent not in facts:
            need |= set()
        miss = need - st
        if miss:
            return f"__exit__ leaves ({kind}) without the inverse edit(s) {sorted(miss)}: the task keeps residue of the scope it left"
        if "thcancel" in st and "thnone" not in st:
            return "the deadline timer is cancelled but its handle is kept"
        return None

    ctx.paths("R05-a", exit_, EV_OUT, step_set, frozenset(), at_exit_out, instance="__exit__ undoes __enter__")
    # parent-conditional edits are conditional on the same thing on both sides
    for f, pats in ((enter, ["self._parent_scope._child_scopes.add(self)"]), (exit_, ["self._parent_scope._child_scopes.remove(self)", "self._parent_scope._tasks.add(self._host_task)"])):
        for p in pats:
            for st, _ in ctx.sites(f, p):
                ctx.require_at("R05-a", f, st, [["not self._parent_scope is None"]], instance="parent edits only with a parent")
    # order: deactivate first
    def step_o(st, e, c):
        if c.is_exc:
            return st
        if e == "inactive":
            return True
        if not st:
            return Bad(f"the scope tree is edited ({e}) before the scope was marked inactive")
        return st

    ctx.paths("R05-a", exit_, [("inactive", "self._active = False")] + [x for x in EV_OUT if x[0] in ("rm_own", "rm_child", "add_parent", "ptr")],
              step_o, False, lambda k, s, f: None, instance="deactivation precedes the tree edits")

    # ---- R05-b uncancel accounting -------------------------------------------------------------------------------------
    writer_table(ctx, "R05-b", "_pending_uncancellations", {
        "CancelScope.__init__": {"assign"}, "CancelScope._deliver_cancellation": {"aug"}, "CancelScope.__exit__": {"aug", "assign"},
    }, floor=4, modules=[A])
    incs = ctx.sites(deliver, "origin._pending_uncancellations += 1")
    if ctx.need("R05-b", deliver, "`origin._pending_uncancellations += 1`", len(incs), 1):
        calls = ctx.sites(deliver, "$T.cancel($*A)")
        t = u(calls[0][1]["T"]) if calls else "task"
        ctx.require_at("R05-b", deliver, incs[0][0], [[f"{t} is origin._host_task", "not origin._pending_uncancellations is None"]],
                       instance="one pending uncancel per cancel() of the origin's host task")

        def step_i(st, e, c):
            if c.is_exc:
                return st
            if e == "iter":
                return 0
            if e == "cancel":
                return st + 1 if st < 2 else st
            if e == "inc":
                if st != 1:
                    return Bad(f"the uncancel counter is incremented after {st} cancel() calls in this iteration: the counts drift apart")
                return 0
            return st

        tl = [n for n in own_walk(deliver.node) if isinstance(n, ast.For) and ast.unparse(n.iter) == "self._tasks"]
        ids = {id(x) for x in tl}
        ctx.paths("R05-b", deliver, [("iter", [lambda frag, node: node.kind == "for_iter" and id(node.node) in ids]),
                                     ("cancel", f"{t}.cancel($*A)"), ("inc", "origin._pending_uncancellations += 1")], step_i, 0,
                  lambda k, s, f: None, instance="increment immediately follows the cancel() it counts")
    unc = ctx.sites(exit_, "self._host_task.uncancel()")
    dec = ctx.sites(exit_, "self._pending_uncancellations -= 1")
    bulk = []       # `for _ in range(self._pending_uncancellations): uncancel()` - the other spelling of the 1:1 drain
    if ctx.need("R05-b", exit_, "drain loop: one `self._host_task.uncancel()` per unit of the counter", len(unc), 1):
        loop = unc[0][0]
        while loop is not None and not isinstance(loop, (ast.While, ast.For)):
            loop = getattr(loop, "_parent", None)
        if isinstance(loop, ast.While):
            ok = F(ast.unparse(loop.test)) == F("self._pending_uncancellations") and len(dec) == 1 and any(x is stmt_of(dec[0][0]) for x in loop.body) and len(unc) == 1 \
                and sum(1 for x in ast.walk(loop) if isinstance(x, ast.Call) and ast.unparse(x.func).endswith(".uncancel")) == 1
            how = "while counter: uncancel(); counter -= 1"
        elif isinstance(loop, ast.For):
            writes = [x for x in ast.walk(loop) if isinstance(x, ast.Attribute) and x.attr == "_pending_uncancellations" and isinstance(x.ctx, (ast.Store, ast.Del))]
            ok = ast.unparse(loop.iter) == "range(self._pending_uncancellations)" and not writes and not loop.orelse and len(unc) == 1 \
                and sum(1 for x in ast.walk(loop) if isinstance(x, ast.Call) and ast.unparse(x.func).endswith(".uncancel")) == 1 \
                and not any(isinstance(x, (ast.Break, ast.Continue, ast.Return)) for x in ast.walk(loop))
            how = "for _ in range(counter): uncancel(); then counter = 0"
            if ok:
                bulk.append(loop)
        else:
            ok, how = False, "no loop"
        ctx.ob("R05-b", exit_, "exactly one uncancel() per counted cancel()", ok,
               detail="" if ok else "the drain is neither `while self._pending_uncancellations: uncancel(); counter -= 1` nor `for _ in range(counter): uncancel()` + `counter = 0`",
               node=unc[0][0], by=(how,))
        ctx.require_at("R05-b", exit_, unc[0][0], [["self._cancel_called", "not self._parent_cancellation_is_visible_to_us"]],
                       instance="uncancel only when this scope absorbs (no outer cancellation visible)")
    zero = F("self._pending_uncancellations")
    SAMEHOST = "self._parent_scope._host_task is self._host_task"
    SAMEHOST_F = F("not " + SAMEHOST)
    # a unit of the counter stands for one cancel() made on *this scope's host task* (see the increment rule above): it may only be
    # settled by uncancel() on that task, hence handed over only to a parent scope hosted by the same task (the parent of a child
    # task's outermost scope is the task group's scope, which belongs to the parent task)
    # (the amount handed over is the counter itself, or a snapshot `n = self._pending_uncancellations` taken while it still had that value)
    snaps = sorted({u(e_["T"]) for _, e_ in ctx.sites(exit_, "$T = self._pending_uncancellations") if isinstance(e_["T"], ast.Name)})
    tr_pats = ["self._parent_scope._pending_uncancellations += self._pending_uncancellations"] + [f"self._parent_scope._pending_uncancellations += {t_}" for t_ in snaps]
    for pat_ in tr_pats:
        for st_, _ in ctx.sites(exit_, pat_):
            ctx.require_at("R05-b", exit_, st_, [[SAMEHOST]], instance="uncancel count handed over only to a parent scope hosted by the same task", what="transfer")

    def step_t(st, e, c):
        snap, zeroed, done, other_host = st
        if c.is_exc:
            return st
        # (the verdict "the parent is hosted by another task" is remembered when it is known: the clean-up in `finally` forgets it)
        other_host = other_host or SAMEHOST_F in c.facts_before or SAMEHOST_F in c.facts
        if e == "snap":
            return (not zeroed, zeroed, done, other_host)
        if e == "mod":
            return (False, zeroed, done, other_host)
        if e == "drained":
            return (snap, zeroed, True, other_host)
        if e == "transfer":
            if zeroed:
                return Bad("the uncancel counter is handed to the parent after it was zeroed (nothing is transferred)")
            return (snap, zeroed, True, other_host)
        if e == "transfer_snap":
            if not snap:
                return Bad("the amount handed to the parent is not the value the uncancel counter had (stale or missing snapshot)")
            return (snap, zeroed, True, other_host)
        if e == "zero":
            return (snap, True, done, other_host)
        return (snap, zeroed, done, other_host)

    def at_exit_t(kind, st, facts):
        snap, zeroed, done, other_host = st
        if kind == "raise:RuntimeError":
            return None
        if zeroed and not done and not other_host:
            return ("the uncancel counter is zeroed without having been transferred to a parent scope of the same task: the host task keeps a "
                    "cancellation request count it can never shed")
        if not zeroed and (zero[0], False) not in facts:
            return f"__exit__ leaves ({kind}) with a possibly non-zero uncancel counter that was neither drained nor transferred"
        return None

    ctx.paths("R05-b", exit_, [("transfer", tr_pats[0]), ("transfer_snap", tr_pats[1:] or [lambda frag, node: False]),
                               ("snap", [f"{t_} = self._pending_uncancellations" for t_ in snaps] or [lambda frag, node: False]),
                               ("mod", ["self._pending_uncancellations -= $N", "self._pending_uncancellations += $N"]),
                               ("zero", "self._pending_uncancellations = 0"),
                               ("tick", [lambda frag, node: True]),
                               ("drained", [lambda frag, node, ids={id(b) for b in bulk}: node.kind == "for_iter" and id(node.node) in ids])],
              step_t, (False, False, False, False), at_exit_t, instance="counter drained or transferred")

    # ---- R05-c timer cleanup ----------------------------------------------------------------------------------------------
    for f in (exit_, cancel):
        tc = ctx.sites(f, "self._timeout_handle.cancel()")
        tn = ctx.sites(f, "self._timeout_handle = None")
        ctx.need("R05-c", f, "timer cancelled and forgotten (`_timeout_handle.cancel()`, `_timeout_handle = None`)", min(len(tc), len(tn)), 1)

        def step_c(st, e, c):
            if c.is_exc:
                return st
            return st | {e}

        def at_exit_c(kind, st, facts, f=f):
            if kind == "raise:RuntimeError":
                return None
            if has_timer in facts:
                return f"{f.qual} leaves with an armed deadline timer still referenced"
            if "thcancel" in st and "thnone" not in st:
                return "timer cancelled but the handle is kept"
            return None

        ctx.paths("R05-c", f, [("thcancel", "self._timeout_handle.cancel()"), ("thnone", "self._timeout_handle = None")], step_c, frozenset(),
                  at_exit_c, instance=f"{f.qual}: no live timer survives")
        for st, _ in tn:
            pass
    # a new timer is armed from outside the timer callback only after the previous one was dropped (else the old one stays
    # scheduled after the scope is left: residue in the loop, and it cancels a scope that was never due)
    dset = ctx.fn("CancelScope.deadline@setter", A)
    for st, _ in ctx.sites(dset, "self._timeout()"):
        ctx.require_at("R05-c", dset, st, [["not self._timeout_handle"], ["self._timeout_handle is None"]],
                       instance="deadline assignment re-arms only after the old timer was cancelled and forgotten", what="re-arm")
        # ... and only while the scope is entered: a timer armed on a scope that is not (or no longer) active is not the one __enter__
        # stores and __exit__ cancels - it stays in the loop after the block and later cancels a scope that was left (seed C05-k)
        ctx.require_at("R05-c", dset, st, [["self._active"]],
                       instance="deadline assignment arms a timer only on an entered scope (the one __exit__ will cancel)", what="re-arm")
    # in cancel() the timer is dropped on the path that marks the scope cancelled
    def step_k(st, e, c):
        if c.is_exc:
            return st
        if e == "test":
            return True
        if e == "mark" and not st:
            return Bad("the scope is marked cancelled without its deadline timer having been looked at (a stale timer fires later)")
        return st

    def is_timer_test(frag, node):
        if node.kind != "test":
            return False
        from sa.engine.facts import atom
        return atom(node.node)[0] in ("self._timeout_handle", "self._timeout_handle is None")

    ctx.paths("R05-c", cancel, [("test", [is_timer_test]), ("mark", "self._cancel_called = True")], step_k, False, lambda k, s, f: None,
              instance="cancel() drops the timer")

    # ---- R05-d delivery stops ---------------------------------------------------------------------------------------------
    rvs = [u(e["R"]) for s, e in ctx.sites(deliver, "return $R") if isinstance(e["R"], ast.Name)]
    SR = rvs[0] if rvs else "should_retry"
    tl = [n for n in own_walk(deliver.node) if isinstance(n, ast.For) and ast.unparse(n.iter) == "self._tasks" and isinstance(n.target, ast.Name)]
    if ctx.need("R05-d", deliver, "`for task in self._tasks`", len(tl), 1):
        t = tl[0].target.id
        sets = [s for s, _ in ctx.sites(deliver, f"{SR} = True") if any(x is s for x in ast.walk(tl[0]))]
        ctx.need("R05-d", deliver, "`should_retry = True` in the member loop", len(sets), 1)
        for s in sets:
            ctx.require_at("R05-d", deliver, s, [[f"not {t}.done()"]], instance="finished tasks do not keep the delivery callback alive (#1111)")
    clr = ctx.sites(deliver, "self._cancel_handle = None")
    if ctx.need("R05-d", deliver, "`self._cancel_handle = None`", len(clr), 1):
        ctx.require_at("R05-d", deliver, clr[0][0], [[f"not {SR}", "origin is self"]], instance="with nothing to retry the callback is not re-armed")
    # (a plain or annotated assignment at the top level of the function, ahead of the member loop; nowhere else is the flag reset)
    def _is_init(x):
        tg = x.targets[0] if isinstance(x, ast.Assign) and len(x.targets) == 1 else (x.target if isinstance(x, ast.AnnAssign) and x.value is not None else None)
        return isinstance(tg, ast.Name) and tg.id == SR and isinstance(x.value, ast.Constant) and x.value.value is False

    init_all = [x for x in own_walk(deliver.node) if isinstance(x, (ast.Assign, ast.AnnAssign)) and _is_init(x)]
    top = [i for i, x in enumerate(deliver.node.body) if _is_init(x)]
    loop_at = [i for i, x in enumerate(deliver.node.body) if tl and any(y is tl[0] for y in ast.walk(x))]
    ok_init = len(init_all) == 1 and len(top) == 1 and bool(loop_at) and top[0] < loop_at[0]
    ctx.ob("R05-d", deliver, "a delivery round starts with nothing to retry", ok_init,
           detail="" if ok_init else "should_retry is not initialised to False once, ahead of the member loop", by=(f"{SR} = False",))

    # ---- R05-e the cancellation classifier used while leaving scopes and task groups cannot fail or over-match ----------------------
    from .common import classifier_total
    classifier_total(ctx, "R05-e")


    # ---- R05-f a task group's own scope is left on every exit of __aexit__, native cancellation of the final checkpoint included ------
    aex = ctx.fn("TaskGroup.__aexit__", A)

    def step_f(st, e, c):
        return True      # the call counts even if it raises (misuse errors come from inside __exit__)

    def at_exit_f(kind, st, facts):
        if not st:
            return (f"TaskGroup.__aexit__ can leave by {kind} without calling its cancel scope's __exit__: the scope stays the task's current scope "
                    f"(every later scope exit in this task fails, a late cancel() of the group keeps cancelling the task)")
        return None

    ctx.paths("R05-f", aex, [("exit", "self.cancel_scope.__exit__($*A)")], step_f, False, at_exit_f,
              instance="the group's scope is exited on every path (also when the shielded exit checkpoint is cancelled natively)", native=True, broad=True)

    # ---- R05-g "no outer cancellation is visible" - the condition under which __exit__ absorbs and uncancels - is computed by a correct
    # walk of the ancestor chain (shared with C04/R04-a)
    from .walkers import check_walker
    check_walker(ctx, "R05-g", ctx.fn("CancelScope._effectively_cancelled", A))

    # ---- R05-h a native cancellation that interrupts the join is the one that propagates: in TaskGroup.__aexit__ the caught
    # CancelledError replaces the exception carried so far exactly when there is none, or when the carried one is a cancellation and the
    # *caught* one is native (not AnyIO's) - testing the carried one instead would let the scope absorb AnyIO's and drop the native request
    aexit_tg = ctx.fn("TaskGroup.__aexit__", A)
    ev = aexit_tg.node.args.args[2].arg if len(aexit_tg.node.args.args) > 2 else "exc_val"
    n_rep = 0
    for h_ in [x for x in own_walk(aexit_tg.node) if isinstance(x, ast.ExceptHandler) and x.name and x.type is not None and "CancelledError" in ast.unparse(x.type)]:
        # (the carried exception, or a result temporary of an inlined selection helper that is then stored into it)
        tgts = [ev] + sorted({x.value.id for x in ast.walk(h_) if isinstance(x, ast.Assign) and isinstance(x.value, ast.Name)
                              and x.value.id != h_.name and ast.unparse(x.targets[0]) == ev})
        for st_, _ in [(s_, e_) for t_ in tgts for s_, e_ in ctx.sites(aexit_tg, f"{t_} = {h_.name}") if any(y is s_ for y in ast.walk(h_))]:
            n_rep += 1
            ctx.require_at("R05-h", aexit_tg, st_, [[f"{ev} is None"], [f"isinstance({ev}, CancelledError)", f"not is_anyio_cancellation({h_.name})"]],
                           instance="the caught cancellation replaces the carried exception only if that is absent, or a cancellation while the caught one is native",
                           what="replacement of exc_val", native=True)      # (the checkpoint handler is reached by native cancellation only)
    ctx.need("R05-h", aexit_tg, "sites where a cancellation caught during the join becomes the exception to propagate", n_rep, 1)
    # ... and the other direction: whenever there is no carried exception, or it is a cancellation and the caught one is native, the
    # replacement *does* happen (else a native cancel request that arrives after the group's own cancellation is silently dropped).  Per
    # handler, every valuation of the four atoms that satisfies the condition is consistent with a path that reaches a replacement.
    import itertools
    for h_ in [x for x in own_walk(aexit_tg.node) if isinstance(x, ast.ExceptHandler) and x.name and x.type is not None and "CancelledError" in ast.unparse(x.type)]:
        tgts = [ev] + sorted({x.value.id for x in ast.walk(h_) if isinstance(x, ast.Assign) and isinstance(x.value, ast.Name)
                              and x.value.id != h_.name and ast.unparse(x.targets[0]) == ev})
        sites_ = [s_ for t_ in tgts for s_, _ in ctx.sites(aexit_tg, f"{t_} = {h_.name}") if any(y is s_ for y in ast.walk(h_))]
        if not sites_:
            continue
        atoms_ = {"none": F(f"{ev} is None"), "isce": F(f"isinstance({ev}, CancelledError)"), "anyio_caught": F(f"is_anyio_cancellation({h_.name})"),
                  "anyio_carried": F(f"is_anyio_cancellation({ev})")}
        conj = []
        for s_ in sites_:
            for fa in ctx.facts_at(aexit_tg, s_, native=True) or []:
                d_ = {}
                for nm_, (k_, pol_) in atoms_.items():
                    for fk, fp in fa:
                        if fk == k_:
                            d_[nm_] = (fp == pol_)
                conj.append(d_)
        missing = []
        for combo in itertools.product((True, False), repeat=4):
            v = dict(zip(atoms_, combo))
            if v["none"] and (v["isce"] or v["anyio_carried"]):
                continue        # (no carried exception: nothing to classify)
            if v["anyio_carried"] and not v["isce"]:
                continue        # (only a CancelledError can be AnyIO's cancellation)
            want = v["none"] or (v["isce"] and not v["anyio_caught"])
            if want and not any(all(v[a_] == b_ for a_, b_ in c_.items()) for c_ in conj):
                missing.append(v)
        okm = not missing
        ctx.ob("R05-h", aexit_tg, "the caught cancellation does replace the carried one whenever that is absent, or a cancellation while the caught one is native",
               okm, node=sites_[0], by=("truth table over 4 atoms",),
               detail="" if okm else f"no replacement under {missing[0]}: a native cancellation that interrupts the join after the group's own (AnyIO) "
                                     "cancellation was caught is dropped, and the scope absorbs the stored one")

