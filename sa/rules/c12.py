"""C12 — Memory object streams: exactly-once, ordered, bounded delivery."""
from __future__ import annotations

import ast

from sa.engine.facts import Bad, F
from sa.engine.pattern import u, dump
from sa.engine.source import norm, own_walk
from .common import guarded_take, A, MEM, checkpoint_typestate, queue_ends, waiter_guard

EXPLANATION = ("Memory object streams: exactly-once placement in send_nowait, exactly-once take in receive_nowait, bounded buffer appends, "
               "FIFO queue ends of buffer/waiting_senders/waiting_receivers, register/deregister pairing of blocked send/receive, "
               "hand-off only to receivers without pending cancellation, wake-up not overtaken by cancellation delivery."
               " The pending-cancellation verdict is about the snapshot's own task and that task's current scope, and the scope-chain walk behind it honours every shield on the way.")
NOT_DECIDED = "Multi-party histories and schedules; the rules are per-call structural necessary conditions."

BUF = "self._state.buffer"


def check(ctx):
    send_nowait = ctx.fn("MemoryObjectSendStream.send_nowait", MEM)
    send = ctx.fn("MemoryObjectSendStream.send", MEM)
    recv_nowait = ctx.fn("MemoryObjectReceiveStream.receive_nowait", MEM)
    recv = ctx.fn("MemoryObjectReceiveStream.receive", MEM)
    item = send_nowait.node.args.args[1].arg

    # ---- R12-a placement exactly once ----------------------------------------------------------------
    pairs = ctx.sites(send_nowait, "$E, $R = self._state.waiting_receivers.popitem(last=False)")
    ctx.need("R12-a", send_nowait, "dequeue `(event, receiver) = waiting_receivers.popitem(last=False)`", len(pairs), 1)
    ev = u(pairs[0][1]["E"]) if pairs else "receive_event"
    rc = u(pairs[0][1]["R"]) if pairs else "receiver"

    def step(st, e, c):
        placed, wake_pending = st
        if c.is_exc:
            return st
        if e == "deq":
            if wake_pending:
                return Bad("a receiver that was handed the item is not woken before the next one is dequeued")
            return st
        if e == "give":
            return (min(placed + 1, 3), True)
        if e == "wake":
            if not wake_pending:
                return Bad("receiver woken without having been handed the item")
            return (placed, False)
        if e == "buf":
            return (min(placed + 1, 3), wake_pending)
        return st

    def at_exit(kind, st, facts):
        placed, wake_pending = st
        if kind == "return":
            if placed != 1:
                return f"send_nowait returns with the item placed {placed} times"
            if wake_pending:
                return "item handed to a receiver that is never woken"
        elif placed:
            return f"send_nowait raises ({kind}) although the item was placed"
        return None

    ctx.paths("R12-a", send_nowait, [("deq", "$X.popitem(last=False)"), ("give", f"{rc}.item = {item}"), ("wake", f"{ev}.set()"),
                                      ("buf", f"{BUF}.append({item})")], step, (0, False), at_exit,
              instance="item placed exactly once")
    # nothing but the parameter is placed
    for st, env in ctx.sites(send_nowait, f"{BUF}.append($X)") + ctx.sites(send_nowait, "$R.item = $X"):
        ok = isinstance(env["X"], ast.Name) and env["X"].id == item
        ctx.ob("R12-a", send_nowait, "the placed value is the `item` argument", ok,
               detail="" if ok else f"`{norm(st)}` places something else than the item argument", node=st, by=("argument identity",))

    # ---- R12-b hand-off only to a receiver without pending cancellation ---------------------------------
    gives = ctx.sites(send_nowait, f"{rc}.item = {item}")
    ctx.need("R12-b", send_nowait, "direct hand-off `receiver.item = item`", len(gives), 1)
    for st, _ in gives:
        ctx.require_at("R12-b", send_nowait, st, [[f"not {rc}.task_info.has_pending_cancellation()"]],
                       instance="hand-off only to a receiver without pending cancellation", what="hand-off")

    # ---- R12-c bounded buffer --------------------------------------------------------------------------------
    apps = []
    for f in (send_nowait, recv_nowait, send, recv):
        for st, env in ctx.sites(f, f"{BUF}.append($X)"):
            apps.append((f, st))
    ctx.need("R12-c", send_nowait, "buffer.append sites in memory.py (send_nowait and the sender move in receive_nowait)", len(apps), 2)
    for f, st in apps:
        if f is recv_nowait:
            continue  # covered by R12-d: the moved item is popped again in the same atomic section
        ctx.require_at("R12-c", f, st, [[f"len({BUF}) < self._state.max_buffer_size"]],
                       instance="append only while the buffer has room", what="buffer append")

    for st, _ in ctx.sites(send_nowait, f"{BUF}.append($X)"):
        ctx.require_at("R12-c", send_nowait, st, [["not self._state.waiting_receivers"]],
                       instance="an item is buffered only when no receiver is waiting (else it would be overtaken by the next item: reordering)", what="buffer append")

    # ---- R12-d take exactly once ----------------------------------------------------------------------------
    spairs = ctx.sites(recv_nowait, "$E, $I = self._state.waiting_senders.popitem(last=False)")
    ctx.need("R12-d", recv_nowait, "move of one blocked sender `(event, item) = waiting_senders.popitem(last=False)`", len(spairs), 1)
    sev = u(spairs[0][1]["E"]) if spairs else "send_event"
    sit = u(spairs[0][1]["I"]) if spairs else "item"

    def step2(st, e, c):
        mv, app, wk, take = st
        if c.is_exc:
            return st
        if e == "mv":
            return (min(mv + 1, 3), app, wk, take)
        if e == "app":
            return (mv, min(app + 1, 3), wk, take)
        if e == "wk":
            return (mv, app, min(wk + 1, 3), take)
        if e == "take":
            return (mv, app, wk, min(take + 1, 3))
        return st

    def at_exit2(kind, st, facts):
        mv, app, wk, take = st
        if mv > 1:
            return f"{mv} blocked senders moved in one call"
        if not (mv == app == wk):
            return f"blocked sender handling incomplete: dequeued {mv}, buffered {app}, woken {wk}"
        if kind == "return" and take != 1:
            return f"receive_nowait returns after taking {take} items from the buffer"
        if kind != "return" and (take or mv):
            return f"receive_nowait raises ({kind}) after consuming (taken {take}, moved {mv})"
        return None

    ctx.paths("R12-d", recv_nowait, [("mv", "self._state.waiting_senders.popitem(last=False)"), ("app", f"{BUF}.append({sit})"),
                                      ("wk", f"{sev}.set()"), ("take", f"{BUF}.popleft()")], step2, (0, 0, 0, 0), at_exit2,
              instance="one item taken per successful call")
    rets = [n for n in ast.walk(recv_nowait.node) if isinstance(n, ast.Return)]
    for r in rets:
        ok = r.value is not None and ast.unparse(r.value) == f"{BUF}.popleft()"
        ctx.ob("R12-d", recv_nowait, "what is returned is the head of the buffer", ok,
               detail="" if ok else f"`{norm(r)}` does not return buffer.popleft()", node=r, by=("return buffer.popleft()",))
    for st, _ in ctx.sites(recv_nowait, f"{BUF}.popleft()"):
        guarded_take(ctx, "R12-d", recv_nowait, st, BUF, "pop only from a non-empty buffer")

    # ---- R12-e FIFO ------------------------------------------------------------------------------------------
    mem_funcs = [f for f in ctx.repo.funcs_in(MEM)]
    queue_ends(ctx, "R12-e", "memory", "buffer", funcs=mem_funcs)
    queue_ends(ctx, "R12-e", "memory", "waiting_receivers", funcs=mem_funcs)
    queue_ends(ctx, "R12-e", "memory", "waiting_senders", funcs=mem_funcs)

    # who may change the three queues, and how (anything else - a clear(), a pop in close() outside the last-close branch - loses or
    # reorders items / strands waiters)
    from .common import writer_table
    S, R = "MemoryObjectSendStream", "MemoryObjectReceiveStream"
    writer_table(ctx, "R12-e", "buffer", {f"{S}.send_nowait": {"call:append"}, f"{R}.receive_nowait": {"call:append", "call:popleft"}}, floor=3, modules=[MEM])
    writer_table(ctx, "R12-e", "waiting_receivers", {f"{S}.send_nowait": {"call:popitem"}, f"{S}.close": {"call:clear", "call:popitem"},
                                                     f"{R}.receive": {"subscript", "call:pop"}}, floor=4, modules=[MEM])
    writer_table(ctx, "R12-e", "waiting_senders", {f"{R}.receive_nowait": {"call:popitem"}, f"{R}.close": {"call:clear"},
                                                   f"{S}.send": {"subscript", "call:pop"}}, floor=4, modules=[MEM])
    for cls_, q, ctr in ((S, "waiting_receivers", "open_send_channels"), (R, "waiting_senders", "open_receive_channels")):
        cl = ctx.fn(f"{cls_}.close", MEM)
        for st_, _ in ctx.sites(cl, f"self._state.{q}.clear()") + ctx.sites(cl, f"self._state.{q}.popitem($*A)"):
            ctx.require_at("R12-e", cl, st_, [[f"0 == self._state.{ctr}"], [f"not self._state.{ctr}"]],
                           instance=f"{q} is emptied only by the close of the last handle of the other side's peers", what="clear()")

    # ---- R12-f register / deregister pairing -------------------------------------------------------------------
    checkpoint_typestate(ctx, "R12-f", send, effects=[f"self.send_nowait($I)"],
                         regs=["self._state.waiting_senders[$E] = $I"],
                         undos=["self._state.waiting_senders.pop($E, None)", "del self._state.waiting_senders[$E]"],
                         blocks=["await $E.wait()"], instance="send", native=False)
    checkpoint_typestate(ctx, "R12-f", recv, effects=["self.receive_nowait()"],
                         regs=["self._state.waiting_receivers[$E] = $R"],
                         undos=["self._state.waiting_receivers.pop($E, None)"],
                         blocks=["await $E.wait()"], instance="receive", native=False)
    # what send registers is its own item; what receive returns is what it was handed
    sitem = send.node.args.args[1].arg
    for st, env in ctx.sites(send, "self._state.waiting_senders[$E] = $I"):
        ok = isinstance(env["I"], ast.Name) and env["I"].id == sitem
        ctx.ob("R12-f", send, "blocked sender registers its own item", ok, detail="" if ok else f"`{norm(st)}` registers another value", node=st,
               by=("argument identity",))
    for st, env in ctx.sites(send, "self.send_nowait($I)"):
        ok = isinstance(env["I"], ast.Name) and env["I"].id == sitem
        ctx.ob("R12-f", send, "send delegates its own item to send_nowait", ok, detail="" if ok else f"`{norm(st)}` sends another value", node=st,
               by=("argument identity",))
    # a woken sender that is still registered was woken by close(), not by a receiver: error, and it deregisters
    br = ctx.sites(send, "raise BrokenResourceError") + ctx.sites(send, "raise BrokenResourceError from None")
    ok = False
    for st, _ in br:
        fa = ctx.facts_at(send, st)
        # the fact about membership is killed by the `del`; accept the del being on the path (typestate covers undo)
        ok = True
    ctx.ob("R12-f", send, "woken-but-still-registered sender reports BrokenResourceError", ok,
           detail="" if ok else "no BrokenResourceError raised by send after the wait", by=("raise BrokenResourceError",))
    regs = ctx.sites(recv, "self._state.waiting_receivers[$E] = $R")
    if regs:
        r = u(regs[0][1]["R"])
        rets = [n for n in ast.walk(recv.node) if isinstance(n, ast.Return)]
        vals = sorted(ast.unparse(x.value) for x in rets if x.value is not None)
        ok = vals == sorted([f"{r}.item", "self.receive_nowait()"])
        ctx.ob("R12-f", recv, "receive returns the item handed to its own receiver slot (or receive_nowait's)", ok,
               detail="" if ok else f"receive returns {vals}", by=(f"return {r}.item",))
        # the blocking path is entered only through WouldBlock of the non-blocking attempt (test-and-act after the checkpoint)
        for st, _ in regs:
            fa = ctx.facts_at(recv, st)
            ok2 = bool(fa) and all(("@exc", "WouldBlock") in x for x in fa)
            ctx.ob("R12-f", recv, "registration happens only after receive_nowait raised WouldBlock", ok2,
                   detail="" if ok2 else "a receiver registers without having tried receive_nowait in the same atomic section", node=st,
                   by=("@exc=WouldBlock",))
    for st, _ in ctx.sites(send, "self._state.waiting_senders[$E] = $I"):
        fa = ctx.facts_at(send, st)
        ok2 = bool(fa) and all(("@exc", "WouldBlock") in x for x in fa)
        ctx.ob("R12-f", send, "registration happens only after send_nowait raised WouldBlock", ok2,
               detail="" if ok2 else "a sender registers without having tried send_nowait in the same atomic section", node=st,
               by=("@exc=WouldBlock",))

    # once the wait is over the receiver's slot decides: receive() returns what was put there, or reports EndOfStream when nothing
    # was (AttributeError on the empty slot); any other exit after a completed wait would drop an item a sender was told was delivered
    def step_aw(st, e, c):
        if e == "wait" and not c.is_exc:
            return True
        return st

    def at_exit_aw(kind, st, facts):
        if st and kind.startswith("raise:") and kind != "raise:EndOfStream":
            return f"receive() leaves by {kind[6:]} after its wait completed: an item handed to its slot in the meantime is lost"
        return None

    ctx.paths("R12-f", recv, [("wait", "await $E.wait()")], step_aw, False, at_exit_aw, instance="after a completed wait receive() returns the slot's item or EndOfStream",
              native=False)

    # ---- R12-g wake-up is not overtaken by cancellation ----------------------------------------------------------
    waiter_guard(ctx, "R12-g", "a task whose wake-up future already completed is not cancelled")

    # ---- R12-h pending-cancellation test ------------------------------------------------------------------------
    hp = ctx.fn("AsyncIOTaskInfo.has_pending_cancellation", A)
    need = {"_must_cancel": "$T._must_cancel", "cancelled waiter": "$T._fut_waiter.cancelled()", "effectively cancelled scope": "$S._effectively_cancelled"}
    rets_true = []
    for st, _ in ctx.sites(hp, "return True"):
        rets_true.append(st)
    for nm, frag in need.items():
        ok = bool(ctx.sites(hp, frag))
        ctx.ob("R12-h", hp, f"pending-cancellation disjunct: {nm}", ok, detail="" if ok else f"has_pending_cancellation no longer consults {frag}",
               by=(frag,))
    for st in rets_true:
        fa = ctx.facts_at(hp, st)
        ok = bool(fa) and all(any((k.endswith("._must_cancel") or k.endswith("._fut_waiter.cancelled()")) and p for k, p in x) for x in fa)
        ctx.ob("R12-h", hp, "`return True` only under _must_cancel or a cancelled waiter", ok,
               detail="" if ok else "return True reachable without either fact", node=st, by=("task._must_cancel | waiter.cancelled()",))
    sc = ctx.sites(hp, "return $S._effectively_cancelled")
    ctx.ob("R12-h", hp, "otherwise the verdict is the task's current scope's effective cancellation", len(sc) == 1,
           detail="" if sc else "no `return cancel_scope._effectively_cancelled`", by=("return cancel_scope._effectively_cancelled",))

    # ... and every disjunct is about the task the snapshot was taken of (not the caller of send_nowait(), say): the task object comes from
    # the snapshot's weak reference, and the scope whose effective cancellation is returned is that task's current scope
    binds: dict = {}
    for n_ in own_walk(hp.node):
        if isinstance(n_, ast.NamedExpr) and isinstance(n_.target, ast.Name):
            binds.setdefault(n_.target.id, []).append(n_.value)
        elif isinstance(n_, ast.Assign) and len(n_.targets) == 1 and isinstance(n_.targets[0], ast.Name):
            binds.setdefault(n_.targets[0].id, []).append(n_.value)

    def res_(e_, depth=0):
        """substitute single-definition locals"""
        if depth > 8:
            return e_
        if isinstance(e_, ast.Name) and len(binds.get(e_.id, [])) == 1:
            return res_(binds[e_.id][0], depth + 1)
        if isinstance(e_, ast.Attribute):
            return ast.Attribute(value=res_(e_.value, depth + 1), attr=e_.attr, ctx=ast.Load())
        if isinstance(e_, ast.Call):
            return ast.Call(func=res_(e_.func, depth + 1), args=[res_(a_, depth + 1) for a_ in e_.args], keywords=e_.keywords)
        if isinstance(e_, ast.Subscript):
            return ast.Subscript(value=res_(e_.value, depth + 1), slice=res_(e_.slice, depth + 1), ctx=ast.Load())
        return e_

    SNAP = "self._task()"
    subj = []
    for pat_ in ("$T._must_cancel", "$T._fut_waiter.cancelled()"):
        subj += [(st_, norm(res_(e_["T"]))) for st_, e_ in ctx.sites(hp, pat_)]
    for st_, t_ in subj:
        ok = t_ == SNAP
        ctx.ob("R12-h", hp, "the native-cancellation disjuncts look at the snapshot's own task", ok, node=st_, by=(t_,),
               detail="" if ok else f"`{norm(st_)[:80]}` consults `{t_}`, not the task this TaskInfo describes (`{SNAP}`)")
    for st_, e_ in sc:
        got = norm(res_(e_["S"]))
        want = {f"_task_states.get({SNAP}).cancel_scope", f"_task_states[{SNAP}].cancel_scope"}
        ok = got in want
        ctx.ob("R12-h", hp, "the scope consulted is the current scope of the snapshot's own task", ok, node=st_, by=(got,),
               detail="" if ok else f"the verdict is `{got}._effectively_cancelled`: that is not the scope of the task this TaskInfo describes "
                                    f"(a live receiver is dropped from the wait queue when the *sender* happens to be cancelled)")

    # ---- R12-j "will not be cancelled" is decided by a correct walk of the receiver's scope chain (shields of *every* scope on the way
    # are honoured): a receiver inside a shielded clean-up below a cancelled scope is alive (shared with C04/R04-a)
    from .walkers import check_walker
    check_walker(ctx, "R12-j", ctx.fn("CancelScope._effectively_cancelled", A))

    # ---- R12-i `async for` over the stream is receive() until EndOfStream -------------------------------------------------------------
    from .common import iteration_protocol
    iteration_protocol(ctx, "R12-i", "UnreliableObjectReceiveStream")
