"""R04-a — the sibling walkers of the cancel-scope ancestor chain must agree:
cancelled is tested before shield on every iteration, a shield stops the walk, a cancelled
scope ends it with the positive outcome, the advance is `._parent_scope`."""
from __future__ import annotations

import ast

from sa.engine.facts import Bad, F
from sa.engine.pattern import u
from sa.engine.source import AnalysisError, norm, own_walk
from .common import A

CANCEL_ATTRS = ("_cancel_called", "cancel_called")
SHIELD_ATTRS = ("_shield", "shield")


def walker_funcs(ctx):
    out = [ctx.fn("CancelScope._effectively_cancelled", A), ctx.fn("AsyncIOBackend.checkpoint_if_cancelled", A),
           ctx.fn("AsyncIOBackend.current_effective_deadline", A), ctx.fn("AsyncIOBackend.check_cancelled", A)]
    out.append(ctx.fn("CancelScope._restart_cancellation", A))
    return out


def loop_var(f):
    for n in own_walk(f.node):
        if isinstance(n, ast.Assign) and len(n.targets) == 1 and isinstance(n.targets[0], ast.Name) \
                and isinstance(n.value, ast.Attribute) and n.value.attr == "_parent_scope" \
                and isinstance(n.value.value, ast.Name) and n.value.value.id == n.targets[0].id:
            return n.targets[0].id, n
    return None, None


def check_walker(ctx, rule, f):
    v, adv = loop_var(f)
    if v is None:
        ctx.ob(rule, f, "walker advances along `._parent_scope`", False,
               detail=f"{f.qual} has no `x = x._parent_scope` advance: it does not walk the ancestor chain of cancel scopes")
        return None
    ckeys = {f"{v}.{a}" for a in CANCEL_ATTRS}
    skeys = {f"{v}.{a}" for a in SHIELD_ATTRS}
    loops = [n for n in own_walk(f.node) if isinstance(n, ast.While) and any(x is adv for x in ast.walk(n))]
    loop_ids = {id(l) for l in loops}

    def ev(frag, node):
        return False

    def step(st, e, c):
        seen_c, c_true, s_true = st
        if e == "head":
            return (False, False, False)
        if e == "ctest" and not c.is_exc:
            val = any((k, True) in c.facts for k in ckeys)
            return (True, val, s_true)
        if e == "stest" and not c.is_exc:
            if not seen_c:
                return Bad("the shield flag is consulted before the cancelled flag: a scope that is itself cancelled *and* shielded would not count as cancelled")
            val = any((k, True) in c.facts for k in skeys)
            return (seen_c, c_true, val)
        if e == "advance" and not c.is_exc:
            if not seen_c:
                return Bad("the walk advances to the parent without having tested whether this scope is cancelled")
            if c_true:
                return Bad("the walk advances past a cancelled scope")
            if s_true:
                return Bad("the walk continues past a shielded scope")
            if not any((k, False) in c.facts_before for k in skeys):
                return Bad("the walk advances to the parent without having tested the shield flag")
            return st
        return st

    def is_test(keys):
        def p(frag, node):
            if node.kind != "test":
                return False
            from sa.engine.facts import atom
            k, _ = atom(node.node)
            return k in keys
        return p

    r, obs = ctx.paths(rule, f, [("head", [lambda frag, node: node.kind == "loop_head" and id(node.node) in loop_ids]),
                                 ("ctest", [is_test(ckeys)]), ("stest", [is_test(skeys)]),
                                 ("advance", [f"{v} = {v}._parent_scope"])],
                       step, (False, False, False), lambda k, s, fa: None, instance=f"walker {f.qual}: cancelled before shield, shield stops")
    # both tests exist
    tests = {"c": 0, "s": 0}
    for n in r.cfg.nodes:
        if n.kind == "test":
            from sa.engine.facts import atom
            k, _ = atom(n.node)
            if k in ckeys:
                tests["c"] += 1
            if k in skeys:
                tests["s"] += 1
    ctx.ob(rule, f, "walker tests the cancelled flag and the shield flag of every scope it visits", tests["c"] >= 1 and tests["s"] >= 1,
           detail=f"{f.qual}: cancelled tests {tests['c']}, shield tests {tests['s']} - a walker that forgets the shield stop leaks cancellation into shielded code",
           by=(f"{tests['c']} cancelled test(s)", f"{tests['s']} shield test(s)"))
    return v


def all_walkers(ctx, rule):
    fs = walker_funcs(ctx)
    ctx.floor(rule, "ancestor-chain walkers", len(fs), 5)
    vs = {}
    for f in fs:
        vs[f.qual] = check_walker(ctx, rule, f)
    return fs, vs


def check_cic(ctx, rule):
    """R03-g / R08-0: checkpoint_if_cancelled spins (yielding) until the cancellation is thrown, never returns normally in a
    cancelled scope, and does not suspend on its normal-return path (summary A3 of the analysis)."""
    from sa.engine.facts import atom
    cic = ctx.fn("AsyncIOBackend.checkpoint_if_cancelled", A)
    v2, adv = loop_var(cic)
    if not ctx.need(rule, cic, "ancestor walk in checkpoint_if_cancelled", 1 if v2 else 0, 1):
        return
    loops = [n for n in own_walk(cic.node) if isinstance(n, ast.While) and any(x is adv for x in ast.walk(n))]
    loop_ids = {id(l) for l in loops}
    ck = {f"{v2}.cancel_called", f"{v2}._cancel_called"}

    def step_g(st, e, c):
        if e == "head":
            if st == "cancelled":
                return Bad("a cancelled scope is seen but the loop goes on without yielding (await sleep(0)): busy loop / no cancellation point")
            return None
        if e == "ctest" and not c.is_exc:
            return "cancelled" if any((k, True) in c.facts for k in ck) else st
        if e == "sleep":
            return "slept" if not c.is_exc else st
        if e == "advance" and st is not None:
            return Bad("checkpoint_if_cancelled walks on after having seen a cancelled scope")
        return st

    def at_exit_g(kind, st, facts):
        if kind == "return" and st is not None:
            return "checkpoint_if_cancelled returns normally although the current scope is effectively cancelled (the operation would proceed with its effect)"
        return None

    def is_ctest(frag, node):
        return node.kind == "test" and atom(node.node)[0] in ck

    ctx.paths(rule, cic, [("head", [lambda frag, node: node.kind == "loop_head" and id(node.node) in loop_ids]), ("ctest", [is_ctest]),
                          ("sleep", "await sleep(0)"), ("advance", f"{v2} = {v2}._parent_scope")], step_g, None, at_exit_g,
              instance="spins (yielding) until the cancellation is thrown; never returns in a cancelled scope")

    def at_exit_s2(kind, st, facts):
        if kind == "return" and st:
            return "checkpoint_if_cancelled suspends on a path that returns normally (summary A3 of the analysis would be wrong)"
        return None

    ctx.paths(rule, cic, [("susp", "await $X")], lambda st, e, c: True if not c.is_exc else st, False, at_exit_s2,
              instance="A3: no suspension on the normal-return path")


def restart_walker(ctx, rule):
    """the restart helper(s): delegation to the parent, the walk itself (cancelled before shield), and delivery restarted in the
    closest cancelled scope whose callback has died down"""
    walker = ctx.fn("CancelScope._restart_cancellation", A)
    # "restart in the enclosing scope" is analysed in its inlined form (core.INLINE_ALWAYS): wherever a scope asks its parent to
    # restart, a parent exists
    n = 0
    for f in ctx.repo.methods("CancelScope", A).values():
        for st, _ in ctx.sites(f, "self._parent_scope._restart_cancellation()"):
            n += 1
            ctx.require_at(rule, f, st, [["self._parent_scope is not None"]], instance="the enclosing scope is asked to restart only if there is one",
                           what="restart in the parent")
    ctx.need(rule, walker, "sites that restart delivery in the enclosing scope (`self._parent_scope._restart_cancellation()`)", n, 1)
    v = check_walker(ctx, rule, walker)
    if v:
        # (the scope found by the walk may be handed on through a copy: `found = scope` ... `found._deliver_cancellation(found)`)
        copies = [u(e_["X"]) for _, e_ in ctx.sites(walker, f"$X = {v}") if isinstance(e_["X"], ast.Name)]
        for c_ in copies:
            if ctx.sites(walker, f"{c_}._deliver_cancellation({c_})") and not ctx.sites(walker, f"{v}._deliver_cancellation({v})"):
                v = c_
                break
        ds = ctx.sites(walker, f"{v}._deliver_cancellation({v})")
        if ctx.need(rule, walker, "restart delivers from the closest cancelled scope", len(ds), 1):
            ctx.require_at(rule, walker, ds[0][0], [[f"{v}._cancel_called", f"{v}._cancel_handle is None"]],
                           instance="delivery (re)started only in a cancelled scope whose callback is not already pending")

        def at_exit_w(kind, st, facts):
            if kind == "return" and (f"{v}._cancel_called", True) in facts and (f"{v}._cancel_handle is None", False) not in facts and not st:
                return "a cancelled scope without a pending delivery callback is found but delivery is not restarted"
            return None

        ctx.paths(rule, walker, [("deliver", f"{v}._deliver_cancellation({v})")], lambda st, e, c: True if not c.is_exc else st, False, at_exit_w,
                  instance="restart reaches delivery")


def scope_joiners(ctx, quals):
    out = []
    for f, rel, st, kind, val_, n in ctx.writers("_tasks", [A]):
        if f is not None and kind == "call:add" and f.qual in quals and not (f.cls == "TaskGroup" and ast.unparse(n.value) == "self"):
            out.append((f, st, n))
    return out


def join_restarts(ctx, rule, quals, minimum):
    """a task that joins a scope which may already be cancelled restarts that scope's delivery before the function suspends or returns"""
    joiners = scope_joiners(ctx, quals)
    ctx.floor(rule, "sites where a new task joins a scope", len(joiners), minimum)
    for f, st, n in joiners:
        recv = ast.unparse(n.value)

        def step_j(st_, e, c, recv=recv):
            if c.is_exc:
                return st_
            if e == "add":
                return "added"
            if e == "restart" and st_ == "added":
                return "restarted"
            if e == "susp" and st_ == "added":
                return Bad("a task is added to a scope and the function suspends before restarting that scope's cancellation delivery")
            return st_

        def at_exit_j(kind, st_, facts):
            if kind == "return" and st_ == "added":
                return ("a task joins a scope that may already be cancelled and delivery is not restarted: if the delivery callback has died "
                        "down (host parked in a shielded inner scope) the new task is never cancelled")
            return None

        ctx.paths(rule, f, [("add", f"{recv}._tasks.add($T)"), ("restart", f"{recv}._restart_cancellation()"),
                               ("susp", ["await $X"])], step_j, None, at_exit_j, instance=f"join of {recv} restarts delivery")
