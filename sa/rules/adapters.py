"""Sibling agreement between the public synchronisation classes, their lazily materialised adapters (used when the object is created
outside a running event loop) and the backend implementation: every adapter method forwards to the same-named member of the
wrapped object with its own parameters, awaits it if asynchronous and hands back its value; the only paths that do not forward are
the ones on which the wrapped object does not exist yet; the factory `__new__` forwards every constructor argument on both
branches; `async with` acquires on entry and releases on every exit."""
from __future__ import annotations

import ast

from sa.engine.facts import Bad, F
from sa.engine.pattern import u
from sa.engine.source import AnalysisError, norm, own_walk, stmt_of
from .common import SYNC, dominates_all_exits


# members that may answer from the adapter's own state while nothing is materialised yet (pure queries, and the two mutators whose
# effect is recorded and replayed at materialisation); every *operation* has to go through the real primitive
PRE_MATERIALISATION_OK = {"statistics", "is_set", "set", "value", "max_value", "total_tokens", "borrowed_tokens", "available_tokens"}


def _params(fn) -> list[str]:
    a = fn.args
    return [x.arg for x in a.posonlyargs + a.args][1:] + [x.arg for x in a.kwonlyargs]


def _is_inner(e, inner: str, prop: str) -> bool:
    return isinstance(e, ast.Attribute) and isinstance(e.value, ast.Name) and e.value.id == "self" and e.attr in (inner, prop)


def check_adapter(ctx, rule: str, adapter: str, inner: str, prop: str, creator: str, stored: dict[str, str], value_members=(), pre_state: dict | None = None):
    """adapter: class name; inner: `_internal_x`; prop: `_x`; creator: backend factory method; stored: ctor param -> attribute it is kept in"""
    ms = ctx.repo.methods(adapter, SYNC)
    if prop not in ms:
        raise AnalysisError(f"{rule}: {adapter}.{prop} not found")
    pf = ms[prop]
    # materialisation
    mk = [n for n in own_walk(pf.node) if isinstance(n, ast.Call) and isinstance(n.func, ast.Attribute) and n.func.attr == creator]
    if ctx.need(rule, pf, f"materialisation through get_async_backend().{creator}(...)", len(mk), 1):
        c = mk[0]
        got = [ast.unparse(x) for x in c.args] + [f"{k.arg}={ast.unparse(k.value)}" for k in c.keywords]
        want_vals = {f"self.{v}" for v in stored.values()}
        have_vals = {ast.unparse(x) for x in c.args} | {ast.unparse(k.value) for k in c.keywords}
        ok = want_vals <= have_vals
        ctx.ob(rule, pf, f"{adapter} materialises the backend object with every stored constructor argument", ok, node=stmt_of(c),
               detail="" if ok else f"`{norm(stmt_of(c))}` passes {got}; the stored arguments are {sorted(want_vals)} (a dropped argument silently changes the primitive's configuration)",
               by=tuple(sorted(want_vals)))
        st = stmt_of(c)
        ctx.require_at(rule, pf, st, [[f"self.{inner} is None"]], instance=f"{adapter}: the backend object is created only once", what="materialisation")
        rets = [r for r in own_walk(pf.node) if isinstance(r, ast.Return)]
        def _is_inner_value(r):
            if r.value is None:
                return False
            if ast.unparse(r.value) == f"self.{inner}":
                return True
            # a local that is, on every path to this return, a snapshot of the field (`x = self._inner ... return x`)
            if isinstance(r.value, ast.Name):
                fa = ctx.facts_at(pf, r)
                return bool(fa) and all((f"__same__({r.value.id}, self.{inner})", True) in x for x in fa)
            return False

        okr = bool(rets) and all(_is_inner_value(r) for r in rets)
        ctx.ob(rule, pf, f"{adapter}.{prop} returns the materialised object", okr, detail="" if okr else f"{adapter}.{prop} does not `return self.{inner}`", by=(f"return self.{inner}",))
    init = ms.get("__init__")
    if init is not None:
        ip = _params(init.node)
        for pn, attr in stored.items():
            s = ctx.sites(init, f"self.{attr} = {pn}")
            okk = len(s) == 1 and pn in ip
            ctx.ob(rule, init, f"{adapter}.__init__ keeps `{pn}` for the later materialisation", okk, detail="" if okk else f"no `self.{attr} = {pn}` in {adapter}.__init__", by=(f"self.{attr} = {pn}",))
    # forwarding
    n = 0
    for name, f in sorted(ms.items()):
        base = name.split("@")[0]
        if base in ("__new__", "__init__", prop):
            continue
        n += 1
        fn = f.node
        params = _params(fn)
        is_setter = name.endswith("@setter")
        is_prop = any(isinstance(d, ast.Name) and d.id == "property" for d in fn.decorator_list)
        target = base
        fwd_nodes = []
        for x in own_walk(fn):
            if is_setter:
                if isinstance(x, ast.Assign) and len(x.targets) == 1 and isinstance(x.targets[0], ast.Attribute) and x.targets[0].attr == target \
                        and _is_inner(x.targets[0].value, inner, prop) and ast.unparse(x.value) == params[0]:
                    fwd_nodes.append(x)
            elif is_prop:
                if isinstance(x, ast.Attribute) and x.attr == target and _is_inner(x.value, inner, prop) and isinstance(x.ctx, ast.Load):
                    fwd_nodes.append(x)
            else:
                if isinstance(x, ast.Call) and isinstance(x.func, ast.Attribute) and x.func.attr == target and _is_inner(x.func.value, inner, prop):
                    args = [ast.unparse(a) for a in x.args] + [ast.unparse(k.value) for k in x.keywords]
                    if base == "__aexit__" and target == "__aexit__" or args == params:
                        fwd_nodes.append(x)
                    elif base in ("__aenter__", "__aexit__"):
                        pass
        # `async with` protocol methods may forward to acquire()/release() of the wrapped object instead
        alt = {"__aenter__": "acquire", "__aexit__": "release"}.get(base)
        if alt and not fwd_nodes:
            for x in own_walk(fn):
                if isinstance(x, ast.Call) and isinstance(x.func, ast.Attribute) and x.func.attr == alt and _is_inner(x.func.value, inner, prop) and not x.args:
                    fwd_nodes.append(x)
        if not fwd_nodes and is_prop and not is_setter:
            rets = [r for r in own_walk(fn) if isinstance(r, ast.Return) and r.value is not None]
            if rets and all(ast.unparse(r.value) in {f"self.{v}" for v in stored.values()} for r in rets):
                ctx.ob(rule, f, f"{adapter}.{name} reports the immutable constructor argument it stored", True, by=(ast.unparse(rets[0].value),))
                continue
        if not ctx.need(rule, f, f"{adapter}.{name} forwards to the wrapped object's `{target}` with its own arguments {params}", len(fwd_nodes), 1):
            continue
        ids = {id(stmt_of(x)) for x in fwd_nodes}
        called = {x.func.attr for x in fwd_nodes if isinstance(x, ast.Call)}
        if isinstance(fn, ast.AsyncFunctionDef) and any(isinstance(ms.get(c_).node if ms.get(c_) else None, ast.AsyncFunctionDef) for c_ in called):
            aw = all(isinstance(getattr(x, "_parent", None), ast.Await) for x in fwd_nodes)
            ctx.ob(rule, f, f"{adapter}.{name} awaits the forwarded operation", aw, detail="" if aw else "the coroutine of the wrapped operation is created but not awaited (the operation never happens)", by=("await",))

        def is_fwd(frag, node, ids=ids):
            return frag is not None and id(frag) in ids or (node.kind in ("stmt", "return") and id(node.node) in ids)

        def step(st, e, c):
            return True if not c.is_exc else st

        may_skip = base in PRE_MATERIALISATION_OK and not isinstance(fn, ast.AsyncFunctionDef) or base == "__aexit__"

        def at_exit(kind, st, facts, name=name, may_skip=may_skip):
            if kind == "return" and not st:
                if not may_skip:
                    return (f"{adapter}.{name} can return without forwarding to the wrapped object: an operation (acquire/release/wait/...) must reach the "
                            f"real primitive on every path - it checks ownership, cancellation and yields there")
                if (f"self.{inner} is None", True) not in facts:
                    return f"{adapter}.{name} returns without forwarding although the wrapped object exists"
            return None

        ctx.paths(rule, f, [("fwd", [is_fwd])], step, False, at_exit, instance=f"{adapter}.{name}: forwards on every path once materialised")
        if base in value_members or is_prop and not is_setter:
            rets = [r for r in own_walk(fn) if isinstance(r, ast.Return) and r.value is not None]
            okv = any(any(x is y for y in ast.walk(r.value)) for r in rets for x in fwd_nodes)
            ctx.ob(rule, f, f"{adapter}.{name} hands back the wrapped object's answer", okv, detail="" if okv else f"the value of the forwarded `{target}` is not what {adapter}.{name} returns", by=("return <forwarded>",))
        if pre_state and base in pre_state and (not is_prop or is_setter):
            want = pre_state[base]
            s = ctx.sites(f, want)
            okp = len(s) >= 1
            ctx.ob(rule, f, f"{adapter}.{name} before materialisation records the request (`{want}`)", okp, detail="" if okp else f"no `{want}`: an operation performed before the event loop exists is forgotten", by=(want,))
            for st_, _ in s:
                ctx.require_at(rule, f, st_, [[f"self.{inner} is None"]], instance=f"{adapter}.{name}: recorded locally only while nothing is materialised", what=want)
    ctx.floor(rule, f"forwarding members of {adapter}", n, 3)


def check_factory(ctx, rule: str, public: str, creator: str, adapter: str, adapter_args_may_drop=()):
    """`public.__new__` forwards every constructor argument to the backend factory and, without an event loop, to the adapter"""
    ms = ctx.repo.methods(public, SYNC)
    if "__new__" not in ms:
        raise AnalysisError(f"{rule}: {public}.__new__ not found")
    f = ms["__new__"]
    params = _params(f.node)
    mk = [n for n in own_walk(f.node) if isinstance(n, ast.Call) and isinstance(n.func, ast.Attribute) and n.func.attr == creator]
    ad = [n for n in own_walk(f.node) if isinstance(n, ast.Call) and getattr(n.func, "id", "") == adapter]
    if ctx.need(rule, f, f"`get_async_backend().{creator}(...)` and `{adapter}(...)` in {public}.__new__", min(len(mk), len(ad)), 1):
        for c, what, may_drop in ((mk[0], "the backend factory", ()), (ad[0], "the adapter", adapter_args_may_drop)):
            have = {ast.unparse(x) for x in c.args} | {ast.unparse(k.value) for k in c.keywords if k.arg == ast.unparse(k.value)}
            miss = [p for p in params if p not in have and p not in may_drop]
            ctx.ob(rule, f, f"{public}(...) forwards every constructor argument to {what}", not miss, node=stmt_of(c),
                   detail="" if not miss else f"`{norm(stmt_of(c))}` drops {miss}", by=tuple(params))
        h = [x for x in own_walk(f.node) if isinstance(x, ast.ExceptHandler)]
        okh = len(h) == 1 and h[0].type is not None and ast.unparse(h[0].type) == "NoEventLoopError" and any(ad[0] is y for s_ in h[0].body for y in ast.walk(s_))
        ctx.ob(rule, f, "the adapter is used exactly when no event loop is running", okh, detail="" if okh else "the adapter is not constructed in `except NoEventLoopError`", by=("except NoEventLoopError",))


def check_async_with(ctx, rule: str, cls: str):
    ms = ctx.repo.methods(cls, SYNC)
    ae, ax = ms.get("__aenter__"), ms.get("__aexit__")
    if ae is None or ax is None:
        raise AnalysisError(f"{rule}: {cls}.__aenter__/__aexit__ not found")
    dominates_all_exits(ctx, rule, ae, "await self.acquire()", f"{cls}.__aenter__ acquires on every path")
    dominates_all_exits(ctx, rule, ax, "self.release()", f"{cls}.__aexit__ releases on every path, whatever the block raised", count=1)
    # nothing can fail between a successful acquire and the block: `async with` runs __aexit__ only if __aenter__ returned, so an
    # exception raised by __aenter__ after the acquire (a second checkpoint, say) leaves the primitive held by a task that is gone

    def step(st, e, c):
        if e == "acq" and not c.is_exc:
            return True
        return st

    def at_exit(kind, st, facts):
        if st and kind != "return":
            return f"{cls}.__aenter__ can raise after acquire() succeeded: __aexit__ is never run, the primitive stays acquired"
        return None

    ctx.paths(rule, ae, [("acq", "await self.acquire()")], step, False, at_exit, native=True, instance=f"{cls}.__aenter__ cannot fail once it has acquired")
