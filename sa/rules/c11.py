"""C11 — Event and Condition: no early, spurious or lost wake-ups."""
from __future__ import annotations

import ast

from sa.engine.cfg import is_shield_with
from sa.engine.facts import Bad, F, atom
from sa.engine.pattern import P, u
from sa.engine.source import norm, own_walk, stmt_of
from .common import guarded_take, A, SYNC, writer_table, queue_ends, lexically_inside

EXPLANATION = ("Event: wait() awaits on both branches and really waits unless the event is set; the underlying event is only ever set, never "
               "cleared. Condition: the lock-holder check dominates every access to the waiter queue; the recorded owner is set after the lock "
               "was acquired and cleared after it was released; notify(n) dequeues at most n waiters from the head and sets each; wait() "
               "registers, releases, waits, on interruption removes itself or forwards an already received notification, always re-raises and "
               "always re-acquires the lock under a shield."
               " The ownership test rests on TaskInfo equality, which compares the task id and nothing that changes during a task's life.")
NOT_DECIDED = "Spurious wake-ups caused by the event loop, multi-party histories (queue automaton over observed histories is a run-time oracle)."


def check(ctx):
    # ================================================================ Event (asyncio backend)
    ew = ctx.fn("Event.wait", A)
    es = ctx.fn("Event.set", A)
    ei = ctx.fn("Event.is_set", A)

    def step(st, e, c):
        return True if not c.is_exc else st

    def at_exit(kind, st, facts):
        if kind == "return" and not st:
            return "Event.wait() returns without having awaited anything (no checkpoint, no wait)"
        return None

    ctx.paths("R11-a", ew, [("aw", ["await $X"])], step, False, at_exit, instance="Event.wait always awaits")
    real = ctx.sites(ew, "await self._event.wait()")
    if ctx.need("R11-a", ew, "`await self._event.wait()`", len(real), 1):
        pass

    isset = F("self.is_set()")
    isset2 = F("self._event.is_set()")

    def is_flag_test(frag, node):
        return node.kind == "test" and atom(node.node)[0] in (isset[0], isset2[0])

    def step2(st, e, c):
        if c.is_exc:
            return st
        if e == "flag":
            return st | ({"set"} if (isset in c.facts or isset2 in c.facts) else {"unset"})
        return st | {e}

    def at_exit2(kind, st, facts):
        if kind == "return" and "unset" in st and "real" not in st:
            return "Event.wait() returns although the event was found not set and was not waited for"
        if kind == "return" and "set" not in st and "real" not in st:
            return "Event.wait() returns without having looked at the flag or waited"
        return None

    ctx.paths("R11-a", ew, [("flag", [is_flag_test]), ("real", "await self._event.wait()"), ("cp", ["await $B.checkpoint()", "await checkpoint()"])],
              step2, frozenset(), at_exit2, instance="returns only if set (checked or waited for)")
    s = ctx.sites(es, "self._event.set()")
    ctx.ob("R11-a", es, "set() sets the underlying event", len(s) == 1, detail="" if s else "Event.set does not call self._event.set()", by=("self._event.set()",))
    s = ctx.sites(ei, "return self._event.is_set()")
    ctx.ob("R11-a", ei, "is_set() reads the underlying event", len(s) == 1, detail="" if s else "Event.is_set is not `return self._event.is_set()`", by=("is_set",))
    writer_table(ctx, "R11-a", "_event", {"Event.__init__": {"assign"}, "Event.set": {"call:set"}}, floor=2, modules=[A],
                 cls_filter=lambda fn: fn.cls == "Event")
    clears = [n for rel, tree in ctx.repo.non_trio_modules().items() if rel.endswith(A) for n in ctx.live_walk(tree)
              if isinstance(n, ast.Call) and isinstance(n.func, ast.Attribute) and n.func.attr == "clear"
              and isinstance(n.func.value, ast.Attribute) and n.func.value.attr == "_event"]
    ctx.ob("R11-a", es, "a set event stays set (no clear())", not clears, detail="" if not clears else "the underlying event is cleared somewhere",
           by=("no _event.clear()",))
    # EventAdapter forwards an early set() into the real event
    adp = ctx.fn("EventAdapter._event", SYNC)
    s = ctx.sites(adp, "self._internal_event.set()")
    ok = len(s) == 1
    if ok:
        fa = ctx.facts_at(adp, s[0][0])
        ok = bool(fa) and all(("self._is_set", True) in x for x in fa)
    ctx.ob("R11-a", adp, "an event set before the loop existed is set when materialised", ok, detail="" if ok else "EventAdapter._event loses an early set()",
           by=("self._is_set",))

    # ================================================================ Condition
    C = {k: ctx.fn(f"Condition.{k}", SYNC) for k in ("acquire", "acquire_nowait", "release", "notify", "notify_all", "wait",
                                                      "__aenter__", "__aexit__", "wait_for")}
    # ---- R11-b lock-holder checks (the guard helper is analysed inlined at its call sites, core.INLINE_ALWAYS: a maintainer writing
    # the test out in notify/notify_all/wait changes nothing)
    own = [["self._owner_task == get_current_task()"], ["self._owner_task is get_current_task()"]]
    OWN_KEYS = {F(d[0])[0] for d in own}

    def is_ownertest(frag, node):
        return node.kind == "test" and atom(node.node)[0] in OWN_KEYS

    for nm in ("wait", "notify", "notify_all"):
        f = C[nm]
        rs = [r_ for r_, _ in ctx.sites(f, "raise RuntimeError($*A)")]
        guards = [r_ for r_ in rs if ctx.facts_at(f, r_) and all(any((k, False) in fa for k in OWN_KEYS) for fa in ctx.facts_at(f, r_))]
        ctx.need("R11-b", f, f"`raise RuntimeError` for a non-holder in Condition.{nm}", len(guards), 1)

        def is_q(frag, node):
            if frag is None:
                return False
            return any(isinstance(x, ast.Attribute) and x.attr == "_waiters" for x in [frag] + list(own_walk(frag)))

        def step_b(st, e, c, nm=nm):
            if e == "chk":
                return st or (not c.is_exc and any((k, True) in c.facts for k in OWN_KEYS))
            if e == "q" and not st:
                return Bad(f"Condition.{nm} touches the waiter queue before checking that the caller holds the lock")
            return st

        def at_exit_b(kind, st, facts, nm=nm):
            if kind == "return" and not st:
                return f"Condition.{nm} completes without ever checking that the caller holds the lock"
            return None

        ctx.paths("R11-b", f, [("chk", [is_ownertest]), ("q", [is_q])], step_b, False, at_exit_b, instance=f"{nm}: holder check first")

    # ---- R11-c owner lifecycle
    writer_table(ctx, "R11-c", "_owner_task", {"Condition.__init__": {"assign"}, "Condition.acquire": {"assign"}, "Condition.acquire_nowait": {"assign"},
                                               "Condition.release": {"assign"}}, floor=3, modules=[SYNC], cls_filter=lambda fn: fn.cls == "Condition")
    for nm, lockcall in (("acquire", "await self._lock.acquire()"), ("acquire_nowait", "self._lock.acquire_nowait()")):
        f = C[nm]

        def step_c(st, e, c):
            if c.is_exc:
                return st
            if e == "lock":
                return st | {"lock"}
            if e == "own":
                if "lock" not in st:
                    return Bad("the caller is recorded as owner before the underlying lock was acquired")
                return st | {"own"}
            return st

        def at_exit_c(kind, st, facts, nm=nm):
            if kind == "return" and st != {"lock", "own"}:
                return f"Condition.{nm} returns without {sorted({'lock', 'own'} - set(st))}"
            if kind != "return" and "own" in st:
                return "ownership recorded on a failing acquire"
            return None

        ctx.paths("R11-c", f, [("lock", lockcall), ("own", "self._owner_task = get_current_task()")], step_c, frozenset(), at_exit_c,
                  instance=f"{nm}: acquire, then record the owner")
    rel = C["release"]

    def step_r(st, e, c):
        if c.is_exc:
            return st
        if e == "unlock":
            return st | {"unlock"}
        if e == "clear":
            if "unlock" not in st:
                return Bad("the recorded owner is cleared before the underlying lock was released (a failing release by a non-holder would wipe the real owner)")
            return st | {"clear"}
        return st

    def at_exit_r(kind, st, facts):
        if kind == "return" and st != {"unlock", "clear"}:
            miss = sorted({"unlock", "clear"} - set(st))
            return (f"Condition.release() returns without {miss}: the condition keeps reporting the previous holder as owner, so notify()/wait() are "
                    "accepted from a task that no longer holds the lock") if "clear" in miss else f"Condition.release() returns without {miss}"
        return None

    ctx.paths("R11-c", rel, [("unlock", "self._lock.release()"), ("clear", "self._owner_task = None")], step_r, frozenset(), at_exit_r,
              instance="release, then forget the owner")
    s = ctx.sites(C["__aexit__"], "self.release()")
    ctx.ob("R11-c", C["__aexit__"], "__aexit__ releases", len(s) == 1, detail="" if s else "Condition.__aexit__ does not call release()", by=("self.release()",))
    s = ctx.sites(C["__aenter__"], "await self.acquire()")
    ctx.ob("R11-c", C["__aenter__"], "__aenter__ acquires", len(s) == 1, detail="" if s else "Condition.__aenter__ does not await acquire()", by=("await self.acquire()",))

    # ---- R11-d notify
    # a wake is `e = self._waiters.popleft() ... e.set()` or, in one expression, `self._waiters.popleft().set()`
    def wakes(f, loop_ids, head_kinds, instance, empty_at_return=False):
        deq = ctx.sites(f, "$E = self._waiters.popleft()")
        both = ctx.sites(f, "self._waiters.popleft().set()")
        evs = sorted({u(e["E"]) for _, e in deq})

        def step_n(st, e, c):
            # st: None (nothing pending in this iteration) | "deq" (dequeued, not yet woken) | "woken"
            if e == "iter":
                if st == "deq":
                    return Bad("a dequeued waiter is not woken (its notification is lost)")
                return None
            if c.is_exc:
                return st
            if e in ("deq", "both"):
                if st == "deq":
                    return Bad("a dequeued waiter is not woken (its notification is lost)")
                if st == "woken":
                    return Bad("more than one waiter is dequeued per attempt")
                return "deq" if e == "deq" else "woken"
            if e == "set":
                if st != "deq":
                    return Bad("an event is set that was not dequeued in this iteration")
                return "woken"
            return st

        def at_exit_n(kind, st, facts):
            if st == "deq":
                return "leaves with a dequeued waiter that was never woken"
            if empty_at_return and kind == "return" and ("self._waiters", False) not in facts:
                return "notify_all can return with waiters still queued (not every listener is notified)"
            return None

        spec = [("iter", [lambda frag, node: node.kind in head_kinds and id(node.node) in loop_ids]),
                ("deq", [f"{ev} = self._waiters.popleft()" for ev in evs] or ["$E__none = self._waiters.popleft()"]),
                ("set", [f"{ev}.set()" for ev in evs] or ["$E__none.__never__()"]), ("both", "self._waiters.popleft().set()")]
        ctx.paths("R11-d", f, spec, step_n, None, at_exit_n, instance=instance)
        return deq, both

    def collect_then_wake(f, bound_texts, what):
        """two-phase spelling: up to `bound` waiters are dequeued into a fresh local list, then every element of that list is woken.
        Returns True if f has this shape and its obligations were emitted."""
        cols = ctx.sites(f, "$L.append(self._waiters.popleft())")
        cols = [(s_, e_) for s_, e_ in cols if isinstance(e_["L"], ast.Name)]
        if not cols or ctx.sites(f, "$E = self._waiters.popleft()") or ctx.sites(f, "self._waiters.popleft().set()"):
            return False
        L = cols[0][1]["L"].id
        names_ok = all(e_["L"].id == L for _, e_ in cols)
        inits = [n_ for n_ in own_walk(f.node) if isinstance(n_, (ast.Assign, ast.AnnAssign)) and getattr(n_, "value", None) is not None
                 and isinstance(n_.value, ast.List) and not n_.value.elts
                 and ((isinstance(n_, ast.Assign) and len(n_.targets) == 1 and getattr(n_.targets[0], "id", None) == L) or (isinstance(n_, ast.AnnAssign) and getattr(n_.target, "id", None) == L))]
        copies = {L} | {n_.targets[0].id for n_ in own_walk(f.node) if isinstance(n_, ast.Assign) and len(n_.targets) == 1 and isinstance(n_.targets[0], ast.Name)
                        and isinstance(n_.value, ast.Name) and n_.value.id == L}
        wl = [n_ for n_ in own_walk(f.node) if isinstance(n_, ast.For) and isinstance(n_.iter, ast.Name) and n_.iter.id in copies and isinstance(n_.target, ast.Name)
              and not n_.orelse and any(P(f"{n_.target.id}.set()").match(b_) is not None for b_ in n_.body)
              and not any(isinstance(x, (ast.Break, ast.Continue, ast.Return, ast.Raise)) for x in ast.walk(n_))]
        # every other use of the list would let an element escape the wake-up
        uses = [x for x in own_walk(f.node) if isinstance(x, ast.Name) and x.id in copies and isinstance(x.ctx, ast.Load)]
        legit = len(cols) + len(wl) + (len(copies) - 1)
        ok_shape = names_ok and len(inits) == 1 and len(wl) == 1 and len(uses) == legit
        ctx.ob("R11-d", f, f"{what}: the waiters dequeued into `{L}` are exactly the ones woken (fresh list, only appended to, iterated to the end)", ok_shape,
               detail="" if ok_shape else f"`{L}`: {len(inits)} fresh-list initialisation(s), {len(wl)} complete wake loop(s), {len(uses)} uses for {legit} accounted ones",
               by=("collect, then wake all",))
        if not ok_shape:
            return True
        cl = [n_ for n_ in own_walk(f.node) if isinstance(n_, ast.For) and any(x is cols[0][0] for x in ast.walk(n_))]
        okb = len(cl) == 1 and ast.unparse(cl[0].iter) in bound_texts and len(cols) == 1
        ctx.ob("R11-d", f, f"{what}: at most the requested number of waiters is dequeued, one per attempt", okb,
               detail="" if okb else f"the collecting loop is not `for _ in {bound_texts[0]}` with a single dequeue", by=(bound_texts[0],))
        guarded_take(ctx, "R11-d", f, cols[0][0], "self._waiters", f"{what}: a waiter is dequeued only from a non-empty queue")
        wl_ids = {id(wl[0])}

        def step_cw(st, e, c):
            if c.is_exc:
                return st
            if e == "collect":
                return "pending"
            if e == "wakeloop":
                return "waking"
            return st

        ctx.paths("R11-d", f, [("collect", f"{L}.append(self._waiters.popleft())"), ("wakeloop", [lambda frag, node: node.kind == "for_iter" and id(node.node) in wl_ids])],
                  step_cw, "", lambda k, st, fa: ("returns with dequeued waiters that are never woken" if k == "return" and st == "pending" else None),
                  instance=f"{what}: every dequeued waiter is woken before returning")
        return True

    nf = C["notify"]
    npar = nf.node.args.args[1].arg
    if collect_then_wake(nf, (f"range({npar})",), "notify"):
        nf_done = True
    else:
        nf_done = False
    loops = [n for n in own_walk(nf.node) if isinstance(n, ast.For)] if not nf_done else []
    from .common import origin_of
    ok = nf_done or (len(loops) == 1 and ast.unparse(origin_of(nf.node, loops[0].iter)) == f"range({npar})")      # (also `attempts = range(n)` first)
    ctx.ob("R11-d", nf, "notify(n) makes at most n attempts", ok, detail="" if ok else "the notify loop is not `for _ in range(n)`", by=(f"range({npar})",))
    deq, both = wakes(nf, {id(l) for l in loops}, ("for_iter",), "each dequeued waiter is woken, one per iteration") if loops else ([], [])
    sites_ = [s_ for s_, _ in deq] + [s_ for s_, _ in both]
    if not nf_done and ctx.need("R11-d", nf, "dequeue `self._waiters.popleft()` in notify", len(sites_), 1) and loops:
        inloop = all(any(x is s_ for x in ast.walk(loops[0])) for s_ in sites_)
        ctx.ob("R11-d", nf, "dequeue happens inside the bounded loop", inloop, by=("in loop",), detail="" if inloop else "popleft outside the range(n) loop")
        hs = [h for h in own_walk(nf.node) if isinstance(h, ast.ExceptHandler) and h.type is not None and ast.unparse(h.type) in ("IndexError", "LookupError")]
        if hs:
            # (the handler leaves the loop itself, or the `try` encloses the whole loop and the error carries control out of it)
            tr_ = getattr(hs[0], "_parent", None)
            okb = any(isinstance(b, (ast.Break, ast.Return)) for b in hs[0].body) or \
                (isinstance(tr_, ast.Try) and any(l_ is y for l_ in loops for s2 in tr_.body for y in ast.walk(s2))
                 and not any(isinstance(b, (ast.Continue, ast.While, ast.For)) for s2 in hs[0].body for b in ast.walk(s2)))
            ctx.ob("R11-d", nf, "notify stops when no waiter is left", okb, detail="" if okb else "an empty queue does not end notify()", by=("except IndexError: break",))
        else:
            for s_ in sites_:
                ctx.require_at("R11-d", nf, s_, [["self._waiters"]], instance="notify stops when no waiter is left (dequeue only from a non-empty queue)",
                               what="popleft")
    na = C["notify_all"]
    na_done = collect_then_wake(na, ("range(len(self._waiters))",), "notify_all")
    loops = [] if na_done else [n for n in own_walk(na.node) if isinstance(n, ast.For) and ast.unparse(n.iter) in ("self._waiters", "list(self._waiters)", "tuple(self._waiters)")
             and isinstance(n.target, ast.Name) and any(P(f"{n.target.id}.set()").match(b) is not None for b in n.body)]
    drains = [n for n in own_walk(na.node) if isinstance(n, ast.While)]
    # the snapshot form: `events = list(self._waiters); self._waiters.clear(); for event in events: event.set()` (snapshot, clear, wake)
    snapdefs = {u(e_["T"]): s_ for pat_ in ("$T = list(self._waiters)", "$T = tuple(self._waiters)") for s_, e_ in ctx.sites(na, pat_) if isinstance(e_["T"], ast.Name)}
    snaploops = [] if na_done else [n for n in own_walk(na.node) if isinstance(n, ast.For) and isinstance(n.iter, ast.Name) and n.iter.id in snapdefs
                                    and isinstance(n.target, ast.Name) and any(P(f"{n.target.id}.set()").match(b) is not None for b in n.body)
                                    and not any(isinstance(x, (ast.Break, ast.Return)) for x in ast.walk(n))]
    if na_done:
        pass
    elif loops or snaploops or not drains:
        ctx.ob("R11-d", na, "notify_all sets every queued event", len(loops) + len(snaploops) == 1, detail="" if (loops or snaploops) else "no loop setting every event of self._waiters",
               by=("for event in self._waiters: event.set()",))

        def step_a(st, e, c):
            if c.is_exc:
                return st
            if e == "clear" and "loop" not in st and "snap" not in st:
                return Bad("the waiter queue is cleared before its events were set (or remembered)")
            if e == "snaploop" and "snap" not in st:
                return Bad("the events that are set are not a snapshot of the waiter queue")
            if e == "snap" and "clear" in st:
                return Bad("the snapshot of the waiter queue is taken after the queue was cleared")
            return st | {"loop" if e == "snaploop" else e}

        ids2 = {id(l) for l in loops}
        ids3 = {id(l) for l in snaploops}
        sdef = {id(s_) for s_ in snapdefs.values()}
        ctx.paths("R11-d", na, [("loop", [lambda frag, node: node.kind == "for_iter" and id(node.node) in ids2]),
                                ("snaploop", [lambda frag, node: node.kind == "for_iter" and id(node.node) in ids3]),
                                ("snap", [lambda frag, node: frag is not None and id(frag) in sdef or id(getattr(node, "node", None)) in sdef]),
                                ("clear", "self._waiters.clear()")],
                  step_a, frozenset(), lambda k, st, f: (("notify_all leaves woken waiters in the queue" if "clear" not in st else
                                                          "notify_all returns without having set the queued events" if "loop" not in st else None) if k == "return" else None),
                  instance="set all, then clear")
    else:
        # draining form: `while self._waiters: self._waiters.popleft().set()` - every dequeued waiter is woken, and the only way out is an empty queue
        deq, both = wakes(na, {id(l) for l in drains}, ("loop_head",), "notify_all drains the queue, waking every dequeued waiter", empty_at_return=True)
        ctx.ob("R11-d", na, "notify_all sets every queued event", bool(deq or both), detail="" if (deq or both) else "no loop waking the queued waiters",
               by=("while self._waiters: popleft().set()",))
    queue_ends(ctx, "R11-d", "Condition", "_waiters", SYNC)

    # ---- R11-e wait protocol
    w = C["wait"]
    regs = ctx.sites(w, "self._waiters.append($E)")
    if not ctx.need("R11-e", w, "registration `self._waiters.append(event)`", len(regs), 1):
        return
    ev = u(regs[0][1]["E"])
    ORDER = ["chkc", "chk", "reg", "rel", "wait"]
    setk = F(f"{ev}.is_set()")
    nonempty = F("self._waiters")

    def step_e(st, e, c):
        seen, intr, undo = st
        if e in ORDER:
            if e == "wait" and c.is_exc:
                return (seen | {"wait"}, True, undo)
            if c.is_exc:
                return st
            idx = ORDER.index(e)
            missing = [x for x in ORDER[:idx] if x not in seen]
            if missing:
                return Bad(f"`{e}` happens before {missing}: the wait protocol is checkpoint-if-cancelled, holder check, enqueue, release, wait")
            return (seen | {e}, intr, undo)
        if c.is_exc:
            return st
        if e == "ftest":
            return (seen | ({"notified"} if setk in c.facts else {"unnotified"}), intr, undo)
        if e == "qtest":
            return (seen | ({"others"} if nonempty in c.facts else {"alone"}), intr, undo)
        if e == "rm":
            if setk in c.facts_before:
                return Bad("a waiter that was already notified removes itself (its notification is lost)")
            return (seen, intr, "rm")
        if e == "fwd":
            if (setk[0], False) in c.facts_before:
                return Bad("a waiter that was not notified wakes another waiter")
            return (seen, intr, "fwd")
        if e == "reacq":
            return (seen | {"reacq"}, intr, undo)
        return st

    def at_exit_e(kind, st, facts):
        seen, intr, undo = st
        if "rel" in seen and "reacq" not in seen:
            return f"Condition.wait() leaves ({kind}) without having re-acquired the lock it released"
        if intr and kind == "return":
            return "an interrupted wait returns normally (cancellation swallowed / spurious return)"
        if intr:
            if "unnotified" in seen and undo != "rm":
                return "a cancelled, un-notified waiter stays in the queue (it will swallow a later notification)"
            if "notified" in seen and "others" in seen and undo != "fwd":
                return "a waiter that was notified and then cancelled does not pass the notification on to the next waiter"
            if "notified" in seen and "others" not in seen and "alone" not in seen:
                return "a waiter that was notified and then cancelled does not look for another waiter to pass the notification to"
            if "notified" not in seen and "unnotified" not in seen:
                return "an interrupted wait does not check whether it had already been notified"
        if kind == "return" and not {"chkc", "chk", "reg", "rel", "wait", "reacq"} <= seen:
            return f"Condition.wait() returns without {sorted({'chkc', 'chk', 'reg', 'rel', 'wait', 'reacq'} - seen)}"
        return None

    ctx.paths("R11-e", w, [("chkc", ["await checkpoint_if_cancelled()", "await $B.checkpoint_if_cancelled()"]), ("chk", [lambda frag, node: node.kind == "test" and atom(node.node)[0] in OWN_KEYS]),
                           ("reg", f"self._waiters.append({ev})"), ("rel", "self.release()"), ("wait", f"await {ev}.wait()"),
                           ("rm", f"self._waiters.remove({ev})"), ("fwd", "self._waiters.popleft().set()"), ("reacq", "await self.acquire()"),
                           ("ftest", [lambda frag, node: node.kind == "test" and atom(node.node)[0] == setk[0]]),
                           ("qtest", [lambda frag, node: node.kind == "test" and atom(node.node)[0] == nonempty[0]])],
              step_e, (frozenset(), False, None), at_exit_e, instance="wait protocol")
    ra = ctx.sites(w, "await self.acquire()")
    for call, _ in ra:
        ok = lexically_inside(call, is_shield_with, stop=w.node)
        ctx.ob("R11-e", w, "the lock is re-acquired under a shield", ok,
               detail="" if ok else "`await self.acquire()` after the wait is not inside `with CancelScope(shield=True)`: a cancelled waiter would leave without the lock",
               node=call, by=("with CancelScope(shield=True)",))
    evdef = ctx.sites(w, f"{ev} = Event()")
    ctx.ob("R11-e", w, "every wait uses a fresh event", len(evdef) == 1, detail="" if evdef else "the waiter's event is not a fresh Event()", by=("Event()",))

    # ---- R11-f wait_for
    wf = C["wait_for"]
    loops = [n for n in own_walk(wf.node) if isinstance(n, ast.While)]
    ok = len(loops) == 1 and any(P("await self.wait()").match(b) is not None for b in loops[0].body)
    ctx.ob("R11-f", wf, "wait_for re-evaluates the predicate after every wake-up", ok, detail="" if ok else "wait_for does not loop over wait()", by=("while not predicate(): await self.wait()",))

    # ---- R11-f public Event, its adapter and Condition's `async with` ----------------------------------------------------------------
    from .adapters import check_adapter, check_factory, check_async_with
    check_adapter(ctx, "R11-f", "EventAdapter", "_internal_event", "_event", "create_event", {}, value_members=("is_set", "statistics"),
                  pre_state={"set": "self._is_set = True"})
    check_factory(ctx, "R11-f", "Event", "create_event", "EventAdapter")
    check_async_with(ctx, "R11-f", "Condition")

    # ---- R11-g the ownership test ("the current task holds the lock") compares TaskInfo snapshots taken at different times: their equality
    # must rest on what is constant over a task's life - its id - and on nothing that changes (parent_id is rewritten when a started task is
    # re-parented, names can be set), else the real holder is refused (or a stranger accepted)
    TEST = "_core/_testing.py"
    teq = ctx.fn("TaskInfo.__eq__", TEST)
    par = [a.arg for a in teq.node.args.args]
    rets = [r for r in own_walk(teq.node) if isinstance(r, ast.Return) and r.value is not None and norm(r.value) != "NotImplemented"]
    ctx.need("R11-g", teq, "verdict returns in TaskInfo.__eq__", len(rets), 1)
    idq = f"{par[0]}.id == {par[1]}.id" if len(par) > 1 else "self.id == other.id"
    for r in rets:
        if isinstance(r.value, ast.Constant) and isinstance(r.value.value, bool):
            # the written-out form `if self.id == other.id: return True ... return False`
            ctx.require_at("R11-g", teq, r, [[idq]] if r.value.value else [[f"not {idq}"]], instance="TaskInfo equality is equality of the task ids", what="verdict")
            continue
        attrs = {x.attr for x in ast.walk(r.value) if isinstance(x, ast.Attribute) and isinstance(x.value, ast.Name) and x.value.id in par}
        ok = attrs == {"id"} and isinstance(r.value, ast.Compare) and len(r.value.ops) == 1 and isinstance(r.value.ops[0], ast.Eq)
        ctx.ob("R11-g", teq, "TaskInfo equality is equality of the task ids", ok, node=r, by=("self.id == other.id",),
               detail="" if ok else f"`{norm(r)}` compares {sorted(attrs)}: fields other than `id` change during a task's life, so the task that holds the "
                                    "Condition stops being recognised as its owner")
    for cn, rel_, cd in [(k, r_, c_) for k, vs in ctx.repo.classes.items() for r_, c_ in vs]:
        if rel_.endswith("_trio.py") or cn == "TaskInfo":
            continue
        if any(norm(b).split(".")[-1] == "TaskInfo" for b in cd.bases):
            over = [m for m in cd.body if isinstance(m, (ast.FunctionDef, ast.AsyncFunctionDef)) and m.name in ("__eq__", "__ne__", "__hash__")]
            ctx.ob("R11-g", teq, f"{cn} keeps TaskInfo's equality", not over, node=over[0] if over else cd, by=("no override",),
                   detail="" if not over else f"{cn} overrides {over[0].name}")
    ati = ctx.fn("AsyncIOTaskInfo.__init__", A)
    tp = ati.node.args.args[1].arg
    s_ = ctx.sites(ati, f"super().__init__(id({tp}), $*R)")
    ctx.ob("R11-g", ati, "the id of a task snapshot is the identity of the task object", len(s_) == 1, by=("id(task)",),
           detail="" if s_ else f"AsyncIOTaskInfo.__init__ does not pass `id({tp})` as the id")
