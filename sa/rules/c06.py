"""C06 — Deadlines fire exactly when due; timeout helpers report them faithfully."""
from __future__ import annotations

import ast

from sa.engine.facts import Bad, F, atom
from sa.engine.pattern import P, u
from sa.engine.source import norm, own_walk, stmt_of
from .common import A, TASKS, writer_table, lexically_inside, resolve_value
from .walkers import loop_var

EXPLANATION = ("Deadlines: the timer callback re-checks the clock and cancels only when the deadline has been reached, otherwise re-arms "
               "itself at exactly the deadline; nothing is armed for an infinite deadline; exactly one live timer (writer table); assigning a "
               "deadline drops the old timer and re-arms iff the scope is active and not cancelled; fail_at raises TimeoutError outside the "
               "block exactly when the scope caught its own cancellation and the deadline has passed; fail_after/move_on_* compute now+delay "
               "(inf for None) and forward shield; the effective deadline accumulates min() before the cancelled test and is -inf once cancelled."
               " current_time() and the timer use the same clock (the running loop's)."
               " The cancellation classifier and the restart on joining an expired scope (task group child, coroutine run from a worker thread) hold.")
NOT_DECIDED = "Numeric exactness on a clock, timer resolution, the discrete-event behaviour over whole schedules (needs a virtual clock)."


def ifexp_matches(e, cond_text, then_text, else_text) -> bool:
    """e is `then if cond else else_` (or the negated orientation)"""
    if not isinstance(e, ast.IfExp):
        return False
    c = atom(e.test)
    want = F(cond_text)
    t, o = ast.unparse(e.body), ast.unparse(e.orelse)
    if c == want:
        return (t, o) == (then_text, else_text)
    if c == (want[0], not want[1]):
        return (o, t) == (then_text, else_text)
    return False


def now_plus_delay_or_inf(fn, e) -> bool:
    """`(<backend clock>() + delay) if delay is not None else math.inf` in either orientation; the clock may be read through a local"""
    if not isinstance(e, ast.IfExp):
        return False
    c = atom(e.test)
    want = F("delay is None")
    if c == want:
        inf, val = e.body, e.orelse
    elif c == (want[0], not want[1]):
        val, inf = e.body, e.orelse
    else:
        return False
    if ast.unparse(inf) != "math.inf":
        return False
    if not (isinstance(val, ast.BinOp) and isinstance(val.op, ast.Add)):
        return False
    l, r = val.left, val.right
    if isinstance(l, ast.Name) and l.id == "delay":
        l, r = r, l
    if not (isinstance(r, ast.Name) and r.id == "delay" and isinstance(l, ast.Call) and not l.args):
        return False
    return ast.unparse(resolve(fn, l.func)) == "get_async_backend().current_time"


def resolve(fn, e):
    """follow a local (single assignment, or the two arms of one `if`)"""
    return resolve_value(fn, e)


def deadline_setter_rearms(ctx, rule):
    """assigning a deadline to an active, un-cancelled scope stores it, drops the old timer and arms a new one on every path"""
    dset = ctx.fn("CancelScope.deadline@setter", A)
    val = dset.node.args.args[1].arg
    store = ctx.sites(dset, f"self._deadline = float({val})") + ctx.sites(dset, f"self._deadline = {val}")
    ctx.need(rule, dset, "the new deadline is stored", len(store), 1)
    handle = F("self._timeout_handle")

    def step_c(st, e, c):
        if c.is_exc:
            return st
        if e == "rearm" and "store" not in st:
            return Bad("the timer is re-armed before the new deadline was stored")
        if e == "rearm" and "thcancel" in st and "thnone" not in st:
            return Bad("re-armed while the old handle is still referenced")
        return st | {e}

    act, canc = F("self._active"), F("self._cancel_called")

    def at_exit_c(kind, st, facts):
        if kind != "return":
            return None
        if "store" not in st:
            return "the deadline setter returns without storing the deadline"
        if "thcancel" in st and "thnone" not in st:
            return "old timer cancelled but still referenced"
        if "rearm" not in st and (act[0], False) not in facts and (canc[0], True) not in facts:
            return ("the deadline setter can return without re-arming the timer although the scope may be active and not cancelled "
                    "(the new deadline never fires); only an inactive or already cancelled scope may skip the re-arm")
        return None

    def is_handle_test(frag, node):
        return node.kind == "test" and atom(node.node)[0] in ("self._timeout_handle", "self._timeout_handle is None")

    ctx.paths(rule, dset, [("store", [f"self._deadline = float({val})", f"self._deadline = {val}"]), ("thcancel", "self._timeout_handle.cancel()"),
                              ("thnone", "self._timeout_handle = None"), ("rearm", "self._timeout()"), ("htest", [is_handle_test])], step_c,
              frozenset(), at_exit_c, instance="deadline assignment re-arms")
    ra = ctx.sites(dset, "self._timeout()")
    if ctx.need(rule, dset, "`self._timeout()` in the setter", len(ra), 1):
        ctx.require_at(rule, dset, ra[0][0], [["self._active", "not self._cancel_called", "not self._timeout_handle"],
                                                ["self._active", "not self._cancel_called", "self._timeout_handle is None"]],
                       instance="re-arm only for an active, un-cancelled scope, after the old timer was dropped")
    tc = ctx.sites(dset, "self._timeout_handle.cancel()")
    ctx.need(rule, dset, "the old timer is cancelled", len(tc), 1)



def check(ctx):
    timeout = ctx.fn("CancelScope._timeout", A)
    enter = ctx.fn("CancelScope.__enter__", A)
    dset = ctx.fn("CancelScope.deadline@setter", A)

    # ---- R06-a arming ------------------------------------------------------------------------------------------------
    arms = ctx.sites(timeout, "self._timeout_handle = $L.call_at($T, $CB)")
    cans = ctx.sites(timeout, "self.cancel($*A)")
    finite = [["not self._deadline == math.inf"], ["not math.inf == self._deadline"]]
    if ctx.need("R06-a", timeout, "re-arm `self._timeout_handle = loop.call_at(self._deadline, self._timeout)`", len(arms), 1):
        st, env = arms[0]
        ok = u(env["T"]) == "self._deadline" and u(env["CB"]) == "self._timeout"
        ctx.ob("R06-a", timeout, "the timer fires at exactly the deadline and re-checks on firing", ok,
               detail="" if ok else f"`{norm(st)}`: the timer must be armed at self._deadline with self._timeout as callback (a direct cancel callback would fire even if the deadline was moved)",
               node=st, by=("call_at(self._deadline, self._timeout)",))
        lv = u(env["L"])
        ctx.require_at("R06-a", timeout, st, [[f"{lv}.time() < self._deadline", "not self._deadline == math.inf"]],
                       instance="armed only while the deadline lies ahead and is finite")
    if ctx.need("R06-a", timeout, "`self.cancel(...)` when the deadline has been reached", len(cans), 1):
        st = cans[0][0]
        fa = ctx.facts_at(timeout, st)
        ok = bool(fa) and all(any(k.endswith(".time() < self._deadline") and p is False for k, p in x) and
                              any(k in ("math.inf == self._deadline",) and p is False for k, p in x) for x in fa)
        ctx.ob("R06-a", timeout, "the scope is cancelled only once the clock has reached the (finite) deadline - never early", ok,
               detail="" if ok else "`self.cancel(...)` in _timeout is reachable without `loop.time() >= self._deadline` having been established",
               node=st, by=("not loop.time() < self._deadline",))

    def step_a(st, e, c):
        if c.is_exc:
            return st
        return st | {e}

    def at_exit_a(kind, st, facts):
        if kind != "return":
            return None
        fin = F("self._deadline == math.inf")
        if fin not in facts and len(set(st) & {"arm", "cancel"}) != 1:
            return f"with a finite deadline _timeout() performs {sorted(st)}: exactly one of cancel / re-arm is required (a missed branch loses the timeout)"
        if fin in facts and st:
            return "something is armed or cancelled for an infinite deadline"
        return None

    ctx.paths("R06-a", timeout, [("arm", "self._timeout_handle = $L.call_at($T, $CB)"), ("cancel", "self.cancel($*A)")], step_a, frozenset(),
              at_exit_a, instance="cancel xor re-arm for a finite deadline")
    from .common import dominates_all_exits
    dominates_all_exits(ctx, "R06-a", enter, "self._timeout()", "__enter__ arms the deadline", exits=("return",), count=1)

    # ---- R06-b one live timer -------------------------------------------------------------------------------------------
    writer_table(ctx, "R06-b", "_timeout_handle", {
        "CancelScope.__init__": {"assign"}, "CancelScope._timeout": {"assign"}, "CancelScope.__exit__": {"assign", "call:cancel"},
        "CancelScope.cancel": {"assign", "call:cancel"}, "CancelScope.deadline@setter": {"assign", "call:cancel"},
    }, floor=5, modules=[A])
    for f, rel, st, kind, val, n in ctx.writers("_timeout_handle", [A]):
        if kind == "assign" and f is not None and f.qual != "CancelScope._timeout":
            ok = isinstance(val, ast.Constant) and val.value is None
            ctx.ob("R06-b", f, "outside _timeout the handle is only ever cleared", ok, detail="" if ok else f"`{norm(st)}` stores a timer outside _timeout", node=st,
                   by=("= None",))

    # ---- R06-c re-arm on assignment ----------------------------------------------------------------------------------------
    deadline_setter_rearms(ctx, "R06-c")

    # ---- R06-d fail_at / fail_after / move_on_* -----------------------------------------------------------------------------------
    fail_at = ctx.fn("fail_at", TASKS)
    fail_after = ctx.fn("fail_after", TASKS)
    move_at = ctx.fn("move_on_at", TASKS)
    move_after = ctx.fn("move_on_after", TASKS)
    withs = [n for n in own_walk(fail_at.node) if isinstance(n, ast.With)]
    sc = None
    if ctx.need("R06-d", fail_at, "`with create_cancel_scope(...) as cancel_scope` in fail_at", len(withs), 1):
        it = withs[0].items[0]
        sc = it.optional_vars.id if isinstance(it.optional_vars, ast.Name) else None
        m = P("$B.create_cancel_scope(deadline=$D, shield=shield)").match(it.context_expr)
        ok = m is not None and ifexp_matches(resolve(fail_at.node, m["D"]), "deadline is None", "math.inf", "deadline")
        ctx.ob("R06-d", fail_at, "fail_at's scope gets the given deadline (inf for None) and the shield flag", ok,
               detail="" if ok else f"`{norm(it.context_expr)}`: deadline / shield are not forwarded faithfully", node=withs[0], by=("deadline, shield",))
        ys = [n for n in ast.walk(withs[0]) if isinstance(n, ast.Yield)]
        ok = len(ys) == 1 and ys[0].value is not None and ast.unparse(ys[0].value) == sc
        ctx.ob("R06-d", fail_at, "the block runs inside that scope and receives it", ok, detail="" if ok else "fail_at does not yield its own scope inside the with block",
               by=("yield cancel_scope",))
    rs = [n for n in own_walk(fail_at.node) if isinstance(n, ast.Raise) and n.exc is not None and "TimeoutError" in ast.unparse(n.exc)]
    if ctx.need("R06-d", fail_at, "`raise TimeoutError`", len(rs), 1) and sc:
        r = rs[0]
        inside = lexically_inside(r, lambda n: isinstance(n, ast.With), stop=fail_at.node)
        ctx.ob("R06-d", fail_at, "TimeoutError is raised after the scope was left (not inside the with block)", not inside,
               detail="" if not inside else "TimeoutError raised inside the scope would be swallowed / mis-attributed", node=r, by=("outside with",))
        fa = ctx.facts_at(fail_at, r)
        ok = bool(fa) and all((f"{sc}.cancelled_caught", True) in x and any(k.endswith(f"() < {sc}.deadline") and p is False for k, p in x) for x in fa)
        ctx.ob("R06-d", fail_at, "TimeoutError exactly when the scope caught its own cancellation and the deadline has passed", ok,
               detail="" if ok else "`raise TimeoutError` reachable without `cancel_scope.cancelled_caught and current_time() >= cancel_scope.deadline`",
               node=r, by=("cancelled_caught", "not now < deadline"))
        clock = [e for s, e in ctx.sites(fail_at, "$C = get_async_backend().current_time")]
        ctx.ob("R06-d", fail_at, "the clock consulted is the backend's event-loop clock", len(clock) == 1, by=("get_async_backend().current_time",),
               detail="" if clock else "fail_at does not read the backend clock")
    # fail_after
    w2 = [n for n in own_walk(fail_after.node) if isinstance(n, ast.With)]
    if ctx.need("R06-d", fail_after, "`with fail_at(...)` in fail_after", len(w2), 1):
        it = w2[0].items[0]
        m = P("fail_at($D, shield=shield, reason=reason)").match(it.context_expr)
        d = resolve(fail_after.node, m["D"]) if m else None
        ok = m is not None and now_plus_delay_or_inf(fail_after.node, d)
        ctx.ob("R06-d", fail_after, "fail_after = fail_at(now + delay) (inf for None), shield and reason forwarded", ok,
               detail="" if ok else f"`{norm(it.context_expr)}` with deadline `{norm(d) if d is not None else '?'}`", node=w2[0], by=("now + delay",))
        sv = it.optional_vars.id if isinstance(it.optional_vars, ast.Name) else None
        ys = [n for n in ast.walk(w2[0]) if isinstance(n, ast.Yield)]
        ok = len(ys) == 1 and ys[0].value is not None and ast.unparse(ys[0].value) == sv
        ctx.ob("R06-d", fail_after, "fail_after yields fail_at's scope", ok, by=("yield scope",), detail="" if ok else "fail_after does not yield the inner scope")
    # move_on_at / move_on_after
    rets = [n for n in own_walk(move_at.node) if isinstance(n, ast.Return)]
    ok = False
    if len(rets) == 1:
        m = P("$B.create_cancel_scope(deadline=$D, shield=shield)").match(rets[0].value)
        ok = m is not None and ifexp_matches(resolve(move_at.node, m["D"]), "deadline is not None", "deadline", "math.inf")
    ctx.ob("R06-d", move_at, "move_on_at returns a scope with the given deadline (inf for None) and shield", ok,
           detail="" if ok else "move_on_at does not forward deadline/shield faithfully", by=("deadline, shield",))
    rets = [n for n in own_walk(move_after.node) if isinstance(n, ast.Return)]
    ok = False
    if len(rets) == 1:
        m = P("$B.create_cancel_scope(deadline=$D, shield=shield)").match(rets[0].value)
        d = resolve(move_after.node, m["D"]) if m else None
        ok = m is not None and now_plus_delay_or_inf(move_after.node, d)
    ctx.ob("R06-d", move_after, "move_on_after returns a scope with deadline now + delay (inf for None) and shield", ok,
           detail="" if ok else "move_on_after does not compute now + delay / forward shield", by=("now + delay",))
    ccs = ctx.fn("AsyncIOBackend.create_cancel_scope", A)
    s = ctx.sites(ccs, "return CancelScope(deadline=deadline, shield=shield)")
    ctx.ob("R06-d", ccs, "the backend factory forwards deadline and shield", len(s) == 1, detail="" if s else "create_cancel_scope drops an argument",
           by=("CancelScope(deadline=deadline, shield=shield)",))
    init = ctx.fn("CancelScope.__init__", A)
    ok = len(ctx.sites(init, "self._deadline = deadline")) == 1 and len(ctx.sites(init, "self._shield = shield")) == 1
    ctx.ob("R06-d", init, "the scope stores the deadline and shield it was given", ok, detail="" if ok else "CancelScope.__init__ does not store deadline/shield",
           by=("self._deadline = deadline",))
    for nm, fld in (("deadline", "_deadline"), ("cancelled_caught", "_cancelled_caught"), ("cancel_called", "_cancel_called"), ("shield", "_shield")):
        g = ctx.fn(f"CancelScope.{nm}", A)
        s = ctx.sites(g, f"return self.{fld}")
        ctx.ob("R06-d", g, f"{nm} reports the state field", len(s) == 1 and len([n for n in own_walk(g.node) if isinstance(n, ast.Return)]) == 1,
               detail="" if s else f"CancelScope.{nm} is not `return self.{fld}`", by=(f"return self.{fld}",))

    # ---- R06-e effective deadline ----------------------------------------------------------------------------------------------
    eff = ctx.fn("AsyncIOBackend.current_effective_deadline", A)
    v, adv = loop_var(eff)
    # (the scope's deadline read through the property or its backing attribute)
    mins = (ctx.sites(eff, f"$D = min($D, {v}.deadline)") + ctx.sites(eff, f"$D = min({v}.deadline, $D)")
            + ctx.sites(eff, f"$D = min($D, {v}._deadline)") + ctx.sites(eff, f"$D = min({v}._deadline, $D)")) if v else []
    if ctx.need("R06-e", eff, "accumulation `deadline = min(deadline, cancel_scope.deadline)`", len(mins), 1):
        d = u(mins[0][1]["D"])
        loops = [n for n in own_walk(eff.node) if isinstance(n, ast.While) and any(x is adv for x in ast.walk(n))]
        ids = {id(l) for l in loops}
        ck = {f"{v}._cancel_called", f"{v}.cancel_called"}
        gone = {(v, False), (f"{v} is None", True)}

        def cancelled(facts):
            return any((k, True) in facts for k in ck)

        # state: (this scope's deadline accumulated in the current iteration, the result has been forced to -inf)
        def step_e(st, e, c):
            acc, neg = st
            if e == "head":
                return (False, neg)
            if c.is_exc:
                return st
            if e == "min":
                return (True, neg)
            if e == "neg":
                if not cancelled(c.facts_before):
                    return Bad("the effective deadline is forced to -inf without a cancelled scope on the chain")
                return (acc, True)
            if e == "advance" and not acc:
                return Bad("the walk moves on to the parent without having taken this scope's own deadline into account")
            if e == "ret_neg" and not cancelled(c.facts_before):
                return Bad("-inf is returned without a cancelled scope on the chain")
            if e == "ret_d":
                if cancelled(c.facts_before) and not neg:
                    return Bad("a cancelled scope was found but the accumulated deadline is returned instead of -inf")
                if not acc and not neg and not (gone & set(c.facts_before)):
                    return Bad("the walk ends at a scope (shield) whose own deadline was not taken into account (a shielded scope's deadline "
                               "would be ignored)")
            return st

        ctx.paths("R06-e", eff, [("head", [lambda frag, node: node.kind == "loop_head" and id(node.node) in ids]),
                                 ("min", [f"{d} = min({d}, {v}.deadline)", f"{d} = min({v}.deadline, {d})", f"{d} = min({d}, {v}._deadline)", f"{d} = min({v}._deadline, {d})"]),
                                 ("neg", [f"{d} = -math.inf"]), ("advance", [f"{v} = {v}._parent_scope"]),
                                 ("ret_neg", ["return -math.inf"]), ("ret_d", [f"return {d}"])],
                  step_e, (False, False), lambda k, s, f: None,
                  instance="every visited scope's deadline is accumulated before the walk leaves it; -inf exactly for a cancelled scope")
        negs = ctx.sites(eff, f"{d} = -math.inf") + ctx.sites(eff, "return -math.inf")
        ctx.need("R06-e", eff, "`-math.inf` once cancelled (assigned or returned)", len(negs), 1)
        rets = [n for n in own_walk(eff.node) if isinstance(n, ast.Return)]
        ok = any(r.value is not None and ast.unparse(r.value) == d for r in rets) and all(
            r.value is not None and ast.unparse(r.value) in (d, "math.inf", "-math.inf") for r in rets)
        ctx.ob("R06-e", eff, "the accumulated value is what is returned", ok, detail="" if ok else f"returns {[norm(r) for r in rets]}", by=(f"return {d}",))
        ini = ctx.sites(eff, f"{d} = math.inf")
        ctx.ob("R06-e", eff, "accumulation starts at +inf", len(ini) == 1, detail="" if ini else "not initialised to math.inf", by=(f"{d} = math.inf",))
    pub = ctx.fn("current_effective_deadline", TASKS)
    s = ctx.sites(pub, "return get_async_backend().current_effective_deadline()")
    ctx.ob("R06-e", pub, "the public function delegates to the backend", len(s) == 1, detail="" if s else "no delegation", by=("delegation",))

    # ---- R06-f a deadline that fires is not missed: its cancellation is delivered like any other (the level-triggered delivery loop,
    # and the restart that finds a cancelled scope even if that scope is itself shielded) - shared with C03
    from .c03 import delivery_loop
    from .walkers import restart_walker
    delivery_loop(ctx, "R06-f")
    restart_walker(ctx, "R06-f")

    # ---- R06-g one clock: deadlines are armed with `loop.call_at` against `loop.time()`, so what the timeout helpers and
    # anyio.current_time() read must be that same event-loop clock (a loop with its own time base - virtual time, a loop factory -
    # would otherwise fire every helper-made deadline at the wrong moment)
    ct = ctx.fn("AsyncIOBackend.current_time", A)
    rets_ = [n_ for n_ in own_walk(ct.node) if isinstance(n_, ast.Return)]
    okc = bool(rets_) and all(r_.value is not None and ast.unparse(r_.value) in ("get_running_loop().time()", "asyncio.get_running_loop().time()") for r_ in rets_)
    ctx.ob("R06-g", ct, "the backend's current_time() is the running event loop's clock", okc, node=rets_[0] if rets_ else None,
           detail="" if okc else "AsyncIOBackend.current_time does not `return get_running_loop().time()`", by=("get_running_loop().time()",))
    tnow = ctx.sites(timeout, "$L.time()")
    arm_ = ctx.sites(timeout, "self._timeout_handle = $L.call_at($T, $CB)")
    oks = bool(tnow) and bool(arm_) and all(u(e_["L"]) == u(arm_[0][1]["L"]) for _, e_ in tnow) and bool(ctx.sites(timeout, f"{u(arm_[0][1]['L'])} = get_running_loop()"))
    ctx.ob("R06-g", timeout, "the deadline is compared with and armed on the clock of the running loop", oks,
           detail="" if oks else "CancelScope._timeout does not use one `loop = get_running_loop()` for both `loop.time()` and `loop.call_at`", by=("loop.time() / loop.call_at",))

    # ---- R06-h "the timeout helpers report faithfully": whether a timed-out scope catches its cancellation (cancelled_caught, hence
    # TimeoutError from fail_after) is decided by the classifier that recognises AnyIO's cancellations, also behind a re-raised
    # CancelledError (shared with C01/R01-h)
    from .common import classifier_total
    classifier_total(ctx, "R06-h")

    # ---- R06-i "a timeout is never missed": a task that joins a scope whose deadline has already expired (a task group child, a
    # coroutine run from a worker thread) is reached by that cancellation - delivery is restarted for the scope it joins, the scope
    # itself included (shared with C03/R03-i)
    from .walkers import join_restarts
    join_restarts(ctx, "R06-i", ("TaskGroup._spawn", "AsyncIOBackend.run_async_from_thread.task_wrapper"), 2)
