"""C09 — Lock: mutual exclusion, FIFO hand-off, cancel-safe waiters (asyncio backend)."""
from __future__ import annotations

import ast

from sa.engine.facts import Bad, F
from sa.engine.pattern import P, find_all, u
from sa.engine.source import norm
from .common import A, checkpoint_typestate, is_current_task, queue_ends

EXPLANATION = ("Lock (asyncio backend): guarded ownership writes (no barging, mutual exclusion on the fast path), direct hand-off "
               "in release(), FIFO queue ends, cancel-safe waiter protocol, misuse errors."
               " A dequeued waiter is dropped un-woken only if its own future is cancelled; `async with` cannot fail once it has acquired.")
NOT_DECIDED = ("The emergent behaviour over whole histories (that these per-site rules imply a FIFO mutex) is a paper argument; "
               "schedules, uvloop/eager configurations are not explored.")

OWNER_FREE = [["self._owner_task is None", "not self._waiters"]]


def check(ctx):
    acq = ctx.fn("Lock.acquire", A)
    nowait = ctx.fn("Lock.acquire_nowait", A)
    rel = ctx.fn("Lock.release", A)

    # ---- R09-a: ownership taken by the caller only if unowned and nobody queues -------------
    n_sites = 0
    for f in (acq, nowait):
        r = ctx.explore(f)
        for st, env in ctx.sites(f, "self._owner_task = $T"):
            if is_current_task(env["T"], r.aliases):
                n_sites += 1
                ctx.require_at("R09-a", f, st, OWNER_FREE, instance="owner := current task",
                               what="fast-path ownership write")
    ctx.need("R09-a", acq, "fast-path ownership writes in Lock.acquire/acquire_nowait", n_sites, 2)

    # ---- R09-b: hand-off in release() ------------------------------------------------------------
    r = ctx.explore(rel)
    handoff = []
    clear = []
    for st, env in ctx.sites(rel, "self._owner_task = $T"):
        if isinstance(env["T"], ast.Constant) and env["T"].value is None:
            clear.append(st)
        else:
            handoff.append((st, env))
    ctx.need("R09-b", rel, "hand-off write `self._owner_task = <dequeued task>` in Lock.release", len(handoff), 1)
    ctx.need("R09-b", rel, "`self._owner_task = None` in Lock.release", len(clear), 1)
    owner_ok = [["self._owner_task == current_task()"], ["self._owner_task is current_task()"]]
    for st, env in handoff:
        # the new owner is dequeued together with its future
        deq = [(s, e) for s, e in ctx.sites(rel, "$T, $F = self._waiters.popleft()", env={"T": env["T"]})]
        if not deq:
            # the dequeued pair may travel through locals (`item = q.popleft() ... pair = item ... task, fut = pair`)
            from .common import origin_of
            deq = [(s, e) for s, e in ctx.sites(rel, "$T, $F = $V", env={"T": env["T"]})
                   if P("self._waiters.popleft()").match(origin_of(rel.node, e["V"])) is not None]
        if not deq:
            ctx.ob("R09-b", rel, "hand-off target", False,
                   detail=f"`{norm(st)}`: the new owner is not the task dequeued from the head of _waiters", node=st)
            continue
        fut = u(deq[0][1]["F"])
        # liveness is required where the pair (ownership, wake-up) begins - whichever of the two statements comes first in this
        # synchronous section (waking the future first is equivalent: set_result only schedules the waiter's resumption)
        wk = ctx.sites(rel, f"{fut}.set_result($*A)")
        first = min([st] + [w for w, _ in wk], key=lambda n: (n.lineno, n.col_offset))
        ctx.require_at("R09-b", rel, first, [[f"not {fut}.cancelled()"]], instance="hand-off only to a live waiter", what="hand-off / wake-up")
        ctx.require_at("R09-b", rel, st, owner_ok, instance="hand-off only by the owner", what="hand-off")
    for st in clear:
        ctx.require_at("R09-b", rel, st, [["not self._waiters"] + d for d in owner_ok], instance="owner := None only with an empty queue",
                       what="unlock")

    # exactly one of {hand-off + wake, unlock} on every normal path, nothing on the error path
    def step(st, e, c):
        own, wake = st
        if c.is_exc:
            return st
        if e == "own":
            return (own + 1, wake)
        if e == "none":
            return (own + 10, wake)
        if e == "wake":
            if own >= 10:
                return Bad("a waiter is woken although the lock was marked free")
            return (own, wake + 1)
        return st

    def at_exit(kind, st, facts):
        own, wake = st
        if kind == "return":
            if (own, wake) not in ((1, 1), (10, 0)):
                return f"release() returns after {own % 10} hand-off(s), {own // 10} unlock(s), {wake} wake-up(s): needs exactly one hand-off+wake or one unlock"
        elif (own, wake) != (0, 0):
            return "release() raises after having changed ownership"
        return None

    hand_pats = [f"self._owner_task = {u(env['T'])}" for _, env in handoff]
    ctx.paths("R09-b", rel, [("own", hand_pats), ("none", "self._owner_task = None"), ("wake", "$F.set_result($*A)")],
              step, (0, 0), at_exit, instance="release outcome")

    # a queued waiter leaves the queue un-woken only if its own wait was cancelled (its future is cancelled): anything else - a pending
    # cancellation *request* on its task, say, which a shield may make it ignore - discards a live waiter, which then blocks for ever
    deq_ids, futs = set(), set()
    for st, env in handoff:
        dq = [(s, e) for s, e in ctx.sites(rel, "$T, $F = $V", env={"T": env["T"]})]
        for s, e in dq:
            deq_ids.add(id(s))
            futs.add(u(e["F"]))
    if len(futs) == 1:
        fut1 = next(iter(futs))
        dead = (F(f"{fut1}.cancelled()")[0], True)

        def step_d(st, e, c):
            if c.is_exc:
                # (an EAFP take that raised dequeued nothing; what was dequeued before is judged by what is known at this point)
                return False if e == "deq" and st and dead in c.facts_before else st
            if e == "deq":
                if st and dead not in c.facts_before:
                    return Bad("a dequeued waiter is discarded (neither woken nor made owner) although its wait was not cancelled")
                return True
            if e == "wake":
                return False
            return st

        def exit_d(kind, st, facts):
            if st and dead not in facts:
                return "release() ends having dequeued a waiter it neither woke nor found cancelled"
            return None

        ctx.paths("R09-b", rel, [("deq", lambda frag, node: frag is not None and id(frag) in deq_ids), ("wake", f"{fut1}.set_result($*A)")],
                  step_d, False, exit_d, instance="only a waiter whose wait was cancelled is dropped from the queue")
    else:
        ctx.ob("R09-b", rel, "one dequeue form in release()", False, detail=f"dequeued futures go by {sorted(futs)}")

    # the non-owner guard dominates everything: first statement raises RuntimeError unless owner
    raises = ctx.sites(rel, "raise RuntimeError($*A)")
    ok = False
    for st, _ in raises:
        fa = ctx.facts_at(rel, st)
        if fa and all((F("self._owner_task == current_task()")[0], False) in f for f in fa):
            ok = True
            ctx.ob("R09-b", rel, "non-owner release is an error", True, node=st, by=("not self._owner_task == current_task()",))
    if not ok:
        ctx.ob("R09-b", rel, "non-owner release is an error", False,
               detail="no `raise RuntimeError` reached exactly when the caller is not the owner")

    # ---- R09-c FIFO --------------------------------------------------------------------------------
    queue_ends(ctx, "R09-c", "Lock", "_waiters", A)

    # ---- R09-d / R09-f / R08-a instance: cancel-safe waiter, fast-path undo -----------------------
    waits = ctx.sites(acq, "await $F")
    futs = [e["F"] for s, e in waits if isinstance(e["F"], ast.Name)]
    if not ctx.need("R09-d", acq, "wait on the waiter future in Lock.acquire", len(futs), 1):
        return
    block = [f"await {u(x)}" for x in futs]
    for assume, nm in (({"self._fast_acquire": False}, "fast_acquire=False"), ({"self._fast_acquire": True}, "fast_acquire=True")):
        checkpoint_typestate(
            ctx, "R09-d", acq,
            effects=["self._owner_task = $T"],
            regs=["self._waiters.append($I)"],
            undos=["self.release()", "self._waiters.remove($I)"],
            blocks=block, assume=assume, instance=f"Lock.acquire [{nm}]", native=True,
            require_yield=not assume["self._fast_acquire"],
        )
    # the handler distinguishes "still queued" from "already handed the lock"
    for st, env in ctx.sites(acq, "self._waiters.remove($I)"):
        ctx.require_at("R09-d", acq, st, [[f"{u(futs[0])}.cancelled()"]], instance="dequeue only if never woken")
    rels = [s for s, _ in ctx.sites(acq, "self.release()")]
    for st in rels:
        fa = ctx.facts_at(acq, st, native=True)
        # two release sites: fast-path undo (owner just set) and handed-over-then-cancelled (fut not cancelled)
    slow_rel = [s for s in rels if any((F(f"{u(futs[0])}.cancelled()")[0], False) in f for f in ctx.facts_at(acq, s, native=True))]
    ctx.ob("R09-d", acq, "a cancelled waiter that was already handed the lock releases it", bool(slow_rel),
           detail="" if slow_rel else "no `self.release()` on the path where the waiter's future completed (not cancelled) before the cancellation was delivered",
           by=("not fut.cancelled()",))

    # ---- R09-e misuse errors ----------------------------------------------------------------------
    for st, env in ctx.sites(acq, "self._waiters.append($I)"):
        ctx.require_at("R09-e", acq, st, [["not self._owner_task == current_task()"], ["not self._owner_task is current_task()"]],
                       instance="re-acquire by the owner is rejected before queueing")
    for f in (acq, nowait):
        hit = False
        for st, _ in ctx.sites(f, "raise RuntimeError($*A)"):
            fa = ctx.facts_at(f, st)
            if fa and all(F("self._owner_task == current_task()") in x or F("self._owner_task is current_task()") in x for x in fa):
                hit = True
        ctx.ob("R09-e", f, "re-acquire raises RuntimeError", hit,
               detail="" if hit else "no RuntimeError raised when the owner calls acquire again", by=("owner == current",))
    wb = ctx.sites(nowait, "raise WouldBlock") + ctx.sites(nowait, "raise WouldBlock($*A)")
    ctx.ob("R09-e", nowait, "acquire_nowait raises WouldBlock when it cannot take the lock", bool(wb),
           detail="" if wb else "no `raise WouldBlock` in acquire_nowait", by=("raise WouldBlock",))
    # acquire_nowait never falls off the end without the lock
    def step2(st, e, c):
        return st + (0 if c.is_exc else 1)

    def at_exit2(kind, st, facts):
        if kind == "return" and st != 1:
            return f"acquire_nowait returns normally after {st} ownership writes"
        if kind != "return" and st:
            return "acquire_nowait raises after taking the lock"
    ctx.paths("R09-e", nowait, [("own", "self._owner_task = $T")], step2, 0, at_exit2, instance="acquire_nowait outcome")

    # ---- R09-g the public class, its adapter and `async with` agree with the backend lock ------------------------------------------
    from .adapters import check_adapter, check_factory, check_async_with
    check_adapter(ctx, "R09-g", "LockAdapter", "_internal_lock", "_lock", "create_lock", {"fast_acquire": "_fast_acquire"}, value_members=("locked", "statistics"))
    check_factory(ctx, "R09-g", "Lock", "create_lock", "LockAdapter")
    check_async_with(ctx, "R09-g", "Lock")

    # ---- R09-h the summary the guarded-write rules rest on (A3): checkpoint_if_cancelled() never yields and then returns normally --------
    # (a task that could be suspended between the "is it free?" test and the write would let two tasks pass the test in one cycle)
    from .walkers import check_cic, check_walker
    check_cic(ctx, "R09-h")
    check_walker(ctx, "R09-h", ctx.fn("AsyncIOBackend.checkpoint_if_cancelled", A))
