"""C16 — Buffered and text stream wrappers are transparent to chunking."""
from __future__ import annotations

import ast

from sa.engine.cfg import call_name
from sa.engine.facts import Bad, F, atom
from sa.engine.pattern import u, find_all, strip_cast
from sa.engine.source import norm, own_walk, stmt_of, AnalysisError
from .common import lexically_inside, enclosing, writer_table, dominates_all_exits, block_head, validated_first

EXPLANATION = ("Buffered byte streams: conservation of bytes by value flow - every removal from the buffer is a prefix removal paired, in the "
               "same suspension-free block, with a read of the same prefix that is what the call returns (difference of the two bounds exactly "
               "0, or exactly len(delimiter) in receive_until); every chunk received from the wrapped stream reaches `return` or the tail of "
               "the buffer on every path (complementary slices when split); no path to a raise has removed anything; slice bounds and the size "
               "forwarded to the wrapped byte stream are the caller's max_bytes / the missing byte count; the delimiter search offset is "
               "computed from the buffer length in the same atomic section as the search that preceded it, is clamped at 0 and leaves a "
               "window of len(delimiter)-1 bytes; the size limit is tested after the search. Text streams: one incremental decoder and one "
               "incremental encoder per stream, created once, fed every chunk exactly once without final=True, only non-empty decodes are "
               "returned, the encoded bytes are sent whole, both halves of TextStream share the encoding."
               " All classes of streams/text.py declare the same default encoding and error policy."
               " The codec is looked up by the constructor's own `encoding` argument; the buffered wrapper keeps exactly the stream it was given.")
NOT_DECIDED = ("Codec behaviour (trusted), values of the arithmetic beyond the linear obligations, the byte order between feed_data() called "
               "while receive() is suspended and the chunk it is waiting for (ambiguous in the statement).")

BUF = "streams/buffered.py"
TXT = "streams/text.py"


# ----------------------------------------------------------------------------- linear forms
def linear(e, defs=None, depth=0):
    """coefficient map {atom: int} (atom '' = constant) of an integer expression, or None"""
    defs = defs or {}
    e = strip_cast(e)
    if isinstance(e, ast.Constant) and isinstance(e.value, int) and not isinstance(e.value, bool):
        return {"": e.value}
    if isinstance(e, ast.Name):
        if e.id in defs and depth < 4:
            return linear(defs[e.id], defs, depth + 1)
        return {e.id: 1}
    if isinstance(e, ast.Call) and call_name(e) == "len" and len(e.args) == 1:
        return {f"len({ast.unparse(e.args[0])})": 1}
    if isinstance(e, ast.UnaryOp) and isinstance(e.op, ast.USub):
        a = linear(e.operand, defs, depth)
        return None if a is None else {k: -v for k, v in a.items()}
    if isinstance(e, ast.BinOp) and isinstance(e.op, (ast.Add, ast.Sub)):
        a, b = linear(e.left, defs, depth), linear(e.right, defs, depth)
        if a is None or b is None:
            return None
        out = dict(a)
        sg = 1 if isinstance(e.op, ast.Add) else -1
        for k, v in b.items():
            out[k] = out.get(k, 0) + sg * v
        return {k: v for k, v in out.items() if v != 0 or k == ""}
    if isinstance(e, ast.BinOp) and isinstance(e.op, ast.Mult):
        a, b = linear(e.left, defs, depth), linear(e.right, defs, depth)
        for x, y in ((a, b), (b, a)):
            if x is not None and y is not None and set(x) <= {""}:
                c = x.get("", 0)
                return {k: c * v for k, v in y.items()}
    return None


def lin_diff(a, b):
    if a is None or b is None:
        return None
    out = dict(a)
    for k, v in b.items():
        out[k] = out.get(k, 0) - v
    return {k: v for k, v in out.items() if v != 0}


def simple_defs(fn):
    """single-assignment locals bound to len(<name>) or an int expression over names (aliases like delimiter_size)"""
    counts, rhs = {}, {}
    for n in own_walk(fn):
        if isinstance(n, (ast.Assign, ast.AnnAssign)):
            tg = n.targets if isinstance(n, ast.Assign) else [n.target]
            for t in tg:
                for x in ast.walk(t):
                    if isinstance(x, ast.Name):
                        counts[x.id] = counts.get(x.id, 0) + 1
                        rhs[x.id] = n.value if (isinstance(t, ast.Name) and len(tg) == 1) else None
        elif isinstance(n, (ast.AugAssign, ast.NamedExpr)):
            t = n.target
            if isinstance(t, ast.Name):
                counts[t.id] = counts.get(t.id, 0) + 2
        elif isinstance(n, (ast.For, ast.AsyncFor)):
            for x in ast.walk(n.target):
                if isinstance(x, ast.Name):
                    counts[x.id] = counts.get(x.id, 0) + 2
    out = {}
    for k, c in counts.items():
        v = rhs.get(k)
        if c == 1 and v is not None and isinstance(v, ast.Call) and call_name(v) == "len" and len(v.args) == 1 and isinstance(v.args[0], ast.Name):
            out[k] = v
    return out


def is_buf(e) -> bool:
    e = strip_cast(e)
    return isinstance(e, ast.Attribute) and e.attr == "_buffer" and isinstance(e.value, ast.Name) and e.value.id == "self"


def unwrap_bytes(e):
    e = strip_cast(e)
    while isinstance(e, ast.Call) and call_name(e) in ("bytes", "bytearray", "memoryview") and len(e.args) == 1 and not e.keywords:
        e = strip_cast(e.args[0])
    return e


def buf_slice(e):
    """self._buffer[lo:hi] -> (lo, hi, step) or None"""
    e = unwrap_bytes(e)
    if isinstance(e, ast.Subscript) and is_buf(e.value) and isinstance(e.slice, ast.Slice):
        return e.slice.lower, e.slice.upper, e.slice.step
    return None


def sibling_block(st):
    par = getattr(st, "_parent", None)
    for fld in ("body", "orelse", "finalbody"):
        blk = getattr(par, fld, None)
        if isinstance(blk, list) and st in blk:
            return blk
    return [st]


def has_await(n) -> bool:
    return any(isinstance(x, (ast.Await, ast.Yield, ast.YieldFrom)) for x in [n] + list(own_walk(n)))


def check(ctx):
    R = {k: ctx.fn(f"BufferedByteReceiveStream.{k}", BUF) for k in ("receive", "receive_exactly", "receive_until", "feed_data")}
    expected_diff = {"receive": {}, "receive_exactly": {}, "receive_until": None}   # receive_until: len(<delimiter param>)
    delim = R["receive_until"].node.args.args[1].arg
    maxb_u = R["receive_until"].node.args.args[2].arg
    expected_diff["receive_until"] = {f"len({delim})": 1}

    # ---- R16-a conservation ---------------------------------------------------------------------------------------------------------------
    writer_table(ctx, "R16-a", "_buffer", {
        "BufferedByteReceiveStream.feed_data": {"call:extend"},
        "BufferedByteReceiveStream.receive": {"subscript", "call:extend"},
        "BufferedByteReceiveStream.receive_exactly": {"subscript", "call:extend"},
        "BufferedByteReceiveStream.receive_until": {"subscript", "call:extend"},
    }, floor=4, modules=[BUF])
    stores = [w for w in ctx.writers("_buffer", modules=[BUF]) if w[3] == "subscript" and not isinstance(w[2], ast.Delete)]
    ctx.ob("R16-a", R["receive"], "the buffer is only ever extended at the tail or cut at the head (no slice assignment)", not stores,
           detail="" if not stores else f"`{norm(stores[0][2])}` assigns into the buffer", by=("no subscript store",))
    n_pairs = 0
    for name in ("receive", "receive_exactly", "receive_until"):
        f = R[name]
        fn = f.node
        defs = simple_defs(fn)
        dels = []
        for n in own_walk(fn):
            if isinstance(n, ast.Delete):
                for t in n.targets:
                    if isinstance(t, ast.Subscript) and is_buf(t.value):
                        dels.append((n, t))
        ctx.need("R16-a", f, "a removal `del self._buffer[:n]` (consumed bytes leave the buffer)", len(dels), 1)
        used_reads = set()
        for st, t in dels:
            sl = t.slice
            okp = isinstance(sl, ast.Slice) and sl.lower is None and sl.upper is not None and (sl.step is None)
            ctx.ob("R16-a", f, "removal is a prefix of the buffer", okp, node=st,
                   detail="" if okp else f"`{norm(st)}` does not remove a prefix `[:n]` of the buffer (bytes would be dropped from the middle/end or reordered)", by=("del self._buffer[:n]",))
            if not okp:
                continue
            blk = sibling_block(st)
            i = blk.index(st)
            # the read: an earlier sibling `v = [bytes(]self._buffer[:E'][)]` with no suspension and no other buffer write in between
            read = None
            for j in range(i - 1, -1, -1):
                s = blk[j]
                if has_await(s):
                    break
                if isinstance(s, (ast.Assign, ast.AnnAssign)) and s.value is not None:
                    bs = buf_slice(s.value)
                    tg = s.targets[0] if isinstance(s, ast.Assign) else s.target
                    if bs is not None and isinstance(tg, ast.Name):
                        read = (s, tg.id, bs)
                        break
            # the return: a later sibling `return [bytes(]v[)]`
            ret = None
            for j in range(i + 1, len(blk)):
                s = blk[j]
                if has_await(s):
                    break
                if isinstance(s, ast.Return):
                    ret = s
                    break
                if not isinstance(s, (ast.Pass, ast.Expr, ast.Assign, ast.AnnAssign)):
                    break
            okr = read is not None and ret is not None and ret.value is not None and isinstance(unwrap_bytes(ret.value), ast.Name) \
                and unwrap_bytes(ret.value).id == read[1]
            ctx.ob("R16-a", f, "the removed prefix was read just before and is what the call returns (same suspension-free block)", okr, node=st,
                   detail="" if okr else f"`{norm(st)}` is not bracketed by `v = self._buffer[:n]` ... `return v` in one block without a suspension: "
                                         f"removed bytes are not (all) handed to the caller, or another task could change the buffer in between",
                   by=("read; del; return",))
            if not okr:
                continue
            used_reads.add(id(read[0]))
            n_pairs += 1
            lo, hi, step = read[2]
            okl = lo is None and step is None and hi is not None
            ctx.ob("R16-a", f, "what is returned is a prefix of the buffer", okl, node=read[0],
                   detail="" if okl else f"`{norm(read[0])}` does not read a prefix (bytes out of order)", by=("self._buffer[:n]",))
            if okl:
                d = lin_diff(linear(sl.upper, defs), linear(hi, defs))
                exp = expected_diff[name]
                ok = d is not None and d == exp
                ctx.ob("R16-a", f, f"bytes removed minus bytes returned is exactly {'len(delimiter)' if exp else '0'}", ok, node=st,
                       detail="" if ok else f"removed `[:{u(sl.upper)}]`, returned `[:{u(hi)}]`: difference {d} (expected {exp}) - bytes are dropped or duplicated",
                       by=(f"linear({u(sl.upper)}) - linear({u(hi)}) = {d}",))
        # every return of buffer-derived data has its removal (no duplication)
        for n in own_walk(fn):
            if isinstance(n, (ast.Assign, ast.AnnAssign)) and n.value is not None and buf_slice(n.value) is not None and id(n) not in used_reads:
                tg = n.targets[0] if isinstance(n, ast.Assign) else n.target
                if isinstance(tg, ast.Name):
                    rets = [r for r in own_walk(fn) if isinstance(r, ast.Return) and r.value is not None and
                            tg.id in {x.id for x in ast.walk(r.value) if isinstance(x, ast.Name)}]
                    ctx.ob("R16-a", f, "buffer data that is returned is also removed", not rets, node=n,
                           detail="" if not rets else f"`{norm(n)}` flows to a return but no paired removal follows: the same bytes would be delivered again", by=("no unpaired read",))
            if isinstance(n, ast.Return) and n.value is not None and buf_slice(n.value) is not None:
                ctx.ob("R16-a", f, "buffer data is returned through the read/del/return idiom", False, node=n,
                       detail=f"`{norm(n)}` returns a buffer slice directly; the matching removal cannot be paired with it")

        # (ii) every received chunk reaches return or the buffer tail, on every path, before anything else happens to it
        recvs = [e for e in ctx.sites(f, "$X = await self.receive_stream.receive($*A)") if isinstance(e[1]["X"], ast.Name)]
        direct = [n for n in own_walk(fn) if isinstance(n, ast.Return) and isinstance(n.value, ast.Await) and "self.receive_stream.receive" in ast.unparse(n.value)]
        ctx.need("R16-a", f, "receives from the wrapped stream", len(recvs) + len(direct), 1)
        cvars = sorted({e[1]["X"].id for e in recvs})
        for cv in cvars:
            def step(st, e, c, cv=cv):
                if e == "recv":
                    if c.is_exc:
                        return st
                    if st == "pending":
                        return Bad(f"a second chunk is received into `{cv}` while the previous one was neither returned nor buffered (bytes dropped)")
                    return "pending"
                if c.is_exc:
                    return st
                if e in ("extend_all", "ret_all"):
                    return "" if st == "pending" else st
                if e == "extend_tail":
                    return "tail" if st == "pending" else ("" if st == "head" else st)
                if e == "ret_head":
                    return "" if st == "tail" else ("head" if st == "pending" else st)
                return st

            def at_exit(kind, st, facts, cv=cv):
                if st == "pending":
                    return f"the chunk received into `{cv}` is neither returned nor appended to the buffer on a path leaving by {kind} (bytes dropped)"
                if st == "tail":
                    return f"the tail of `{cv}` was buffered but its head is not returned on a path leaving by {kind}"
                if st == "head":
                    return f"the head of `{cv}` is returned but its tail was not buffered (surplus bytes dropped)"
                return None

            def is_ret(kindname, cv=cv):
                def p(frag, node):
                    if node.kind != "return" or frag is None or frag.value is None:
                        return False
                    v = unwrap_bytes(frag.value)
                    if kindname == "all":
                        return isinstance(v, ast.Name) and v.id == cv
                    return isinstance(v, ast.Subscript) and isinstance(v.value, ast.Name) and v.value.id == cv and isinstance(v.slice, ast.Slice) \
                        and v.slice.lower is None and v.slice.upper is not None
                return p

            ctx.paths("R16-a", f, [("recv", f"{cv} = await self.receive_stream.receive($*A)"), ("extend_all", f"self._buffer.extend({cv})"),
                                   ("extend_tail", f"self._buffer.extend({cv}[$N:])"), ("ret_all", [is_ret("all")]), ("ret_head", [is_ret("head")])],
                      step, "", at_exit, instance=f"{name}: every received chunk `{cv}` is returned or buffered")
            # complementary slices
            tails = ctx.sites(f, f"self._buffer.extend({cv}[$N:])")
            heads = [r for r in own_walk(fn) if isinstance(r, ast.Return) and r.value is not None and isinstance(unwrap_bytes(r.value), ast.Subscript)
                     and getattr(unwrap_bytes(r.value).value, "id", None) == cv]
            for st_, env in tails:
                okc = bool(heads) and all(isinstance(unwrap_bytes(h.value).slice, ast.Slice) and unwrap_bytes(h.value).slice.lower is None and
                                          lin_diff(linear(unwrap_bytes(h.value).slice.upper, defs), linear(env["N"], defs)) == {} for h in heads)
                ctx.ob("R16-a", f, "a split chunk is divided by complementary slices x[:n] / x[n:]", okc, node=st_,
                       detail="" if okc else f"`{norm(st_)}` and the returned head do not split `{cv}` at the same index (a byte lost or duplicated at the seam)", by=("x[:n] returned, x[n:] buffered",))
        # (iv) a failing call consumes nothing

        def step_r(st, e, c):
            if c.is_exc:
                return st
            return True

        def at_exit_r(kind, st, facts):
            if kind.startswith("raise:") and st:
                return f"the call fails ({kind[6:]}) after having removed bytes from the buffer (a failing call must consume nothing)"
            return None

        ctx.paths("R16-a", f, [("del", "del self._buffer[$S]")], step_r, False, at_exit_r, instance=f"{name}: no removal on a path to a raise")
    if all(o.ok for o in ctx.obs if o.rule == "R16-a"):
        # only a guard against passing vacuously: a missing triple has already been reported as a violation above
        ctx.floor("R16-a", "read/del/return triples", n_pairs, 3)
    fd = R["feed_data"]
    p0 = (fd.node.args.posonlyargs + fd.node.args.args)[1].arg
    s = ctx.sites(fd, f"self._buffer.extend({p0})")
    ctx.ob("R16-a", fd, "feed_data appends its argument at the tail of the buffer", len(s) == 1, detail="" if s else "feed_data does not `self._buffer.extend(data)`", by=("extend(data)",))

    # ---- R16-b bounds -------------------------------------------------------------------------------------------------------------------------
    rc = R["receive"]
    mb = rc.node.args.args[1].arg
    validated_first(ctx, "R16-b", rc, f"{mb} < 1", "max_bytes < 1 is rejected before anything else")
    for n in own_walk(rc.node):
        bs = buf_slice(n) if isinstance(n, ast.expr) and isinstance(getattr(n, "ctx", None), ast.Load) else None
        if bs is not None and isinstance(n, ast.Subscript):
            ok = bs[1] is not None and ast.unparse(bs[1]) == mb
            ctx.ob("R16-b", rc, "the buffer prefix handed out is bounded by max_bytes itself", ok, node=stmt_of(n), detail="" if ok else f"`{norm(stmt_of(n))}` uses another bound than {mb}",
                   by=(f"[:{mb}]",))
    fw = ctx.sites(rc, "await self.receive_stream.receive($N)")
    ctx.need("R16-b", rc, "forwarding `receive(max_bytes)` to a wrapped byte stream", len(fw), 1)
    for st_, env in fw:
        ok = ast.unparse(env["N"]) == mb
        ctx.ob("R16-b", rc, "the wrapped byte stream is asked for at most max_bytes", ok, node=stmt_of(st_), detail="" if ok else f"`{norm(stmt_of(st_))}` forwards another size", by=(mb,))
        ctx.require_at("R16-b", rc, stmt_of(st_), [["isinstance(self.receive_stream, ByteReceiveStream)", "not self._buffer"]],
                       instance="max_bytes is forwarded only to a byte stream, and only when the buffer is empty (buffered bytes go first)", what="forwarded receive")
    spl = ctx.sites(rc, "self._buffer.extend($C[$N:])")
    for st_, env in spl:
        c = u(env["C"])
        ctx.require_at("R16-b", rc, stmt_of(st_), [[f"{mb} < len({c})"]], instance="a chunk is split only when it is longer than max_bytes", what="split")
        ok = ast.unparse(env["N"]) == mb
        ctx.ob("R16-b", rc, "an oversized chunk is split at max_bytes", ok, node=stmt_of(st_), detail="" if ok else f"`{norm(stmt_of(st_))}` splits elsewhere", by=(f"[{mb}:]",))
    for r in [x for x in own_walk(rc.node) if isinstance(x, ast.Return) and x.value is not None and isinstance(unwrap_bytes(x.value), ast.Name)]:
        nm = unwrap_bytes(r.value).id
        rsts = [e[0] for e in ctx.sites(rc, "$X = await self.receive_stream.receive($*A)") if isinstance(e[1]["X"], ast.Name) and e[1]["X"].id == nm]
        if any(r.lineno > rs_.lineno and any(x is r for s_ in sibling_block(rs_) for x in ast.walk(s_)) for rs_ in rsts):
            ctx.require_at("R16-b", rc, r, [[f"not {mb} < len({nm})"]], instance="a whole chunk is returned only if it fits max_bytes", what="return of a whole chunk")
    # closed check
    cl = ctx.sites(rc, "raise ClosedResourceError")
    if ctx.need("R16-b", rc, "`raise ClosedResourceError`", len(cl), 1):
        ctx.require_at("R16-b", rc, cl[0][0], [["self._closed"]], instance="ClosedResourceError only on a closed stream")
    rx = R["receive_exactly"]
    nb = rx.node.args.args[1].arg
    fwx = ctx.sites(rx, "await self.receive_stream.receive($N)")
    defsx = {}
    for n in own_walk(rx.node):
        if isinstance(n, ast.Assign) and len(n.targets) == 1 and isinstance(n.targets[0], ast.Name):
            defsx.setdefault(n.targets[0].id, []).append(n.value)
    defsx = {k: v[0] for k, v in defsx.items() if len(v) == 1}
    ctx.need("R16-b", rx, "sized receive from a wrapped byte stream in receive_exactly", len(fwx), 1)
    for st_, env in fwx:
        d = lin_diff(linear(env["N"], defsx), {nb: 1, "len(self._buffer)": -1})
        ok = d == {}
        ctx.ob("R16-b", rx, "a wrapped byte stream is asked for exactly the missing byte count", ok, node=stmt_of(st_),
               detail="" if ok else f"`{norm(stmt_of(st_))}` asks for {u(env['N'])} = {linear(env['N'], defsx)}; required {nb} - len(self._buffer) (asking for more would over-read, "
                                    f"asking for a stale count after a suspension would too)", by=(f"{nb} - len(self._buffer)",))
    # the missing count is computed in the same atomic section as the request
    rem = [n for n in own_walk(rx.node) if isinstance(n, ast.Assign) and "len(self._buffer)" in ast.unparse(n.value)]
    for n in rem:
        v = n.targets[0].id if isinstance(n.targets[0], ast.Name) else None
        if v:
            def step_m(st, e, c):
                if e == "calc" and not c.is_exc:
                    return "fresh"
                if e == "use":
                    if st != "fresh":
                        return Bad("the missing byte count is used for a request after a suspension without being recomputed")
                    return "stale"
                if e == "susp" and not c.is_exc:
                    return "stale"
                return st

            ctx.paths("R16-b", rx, [("calc", f"{v} = $E"), ("use", f"await self.receive_stream.receive({v})"), ("susp", "await self.receive_stream.receive()")],
                      step_m, "", None, instance="missing byte count is fresh when used", allow_no_exit=True)
    # receive_exactly hands out the *head of the buffer* and nothing else: a chunk that has just arrived is appended first (returned
    # directly it would overtake older bytes still in the buffer - a wrapped object stream ignores the size asked for)
    from .common import origin_of
    for r_ in [x for x in own_walk(rx.node) if isinstance(x, ast.Return)]:
        v_ = unwrap_bytes(r_.value) if r_.value is not None else None
        v_ = unwrap_bytes(origin_of(rx.node, v_)) if v_ is not None else None
        okb = v_ is not None and buf_slice(v_) is not None
        ctx.ob("R16-b", rx, "receive_exactly returns bytes taken from the head of the buffer", okb, node=r_,
               detail="" if okb else f"`{norm(r_)}` does not return a slice of the buffer (bytes that bypass the buffer overtake the ones stored in it)",
               by=("self._buffer[:nbytes]",))
    reads_x = [x for x in own_walk(rx.node) if isinstance(x, (ast.Assign, ast.AnnAssign)) and x.value is not None and buf_slice(x.value) is not None]
    # checked where the bytes are read out of the buffer (the removal that follows kills facts about the buffer before the return)
    for r in reads_x or [x for x in own_walk(rx.node) if isinstance(x, ast.Return)]:
        ctx.require_at("R16-b", rx, r, [[f"not len(self._buffer) < {nb}"], [f"not 0 < {nb} - len(self._buffer)"]] +
                       [[f"not 0 < {k}"] for k, v in defsx.items() if lin_diff(linear(v), {nb: 1, "len(self._buffer)": -1}) == {}],
                       instance="receive_exactly returns only when the buffer holds at least nbytes", what="return")
    for n in own_walk(rx.node):
        bs = buf_slice(n) if isinstance(n, ast.expr) and isinstance(getattr(n, "ctx", None), ast.Load) else None
        if bs is not None and isinstance(n, ast.Subscript):
            ok = bs[1] is not None and ast.unparse(bs[1]) == nb
            ctx.ob("R16-b", rx, "receive_exactly hands out exactly nbytes", ok, node=stmt_of(n), detail="" if ok else f"`{norm(stmt_of(n))}` uses another bound than {nb}", by=(f"[:{nb}]",))
    ir = ctx.sites(rx, "raise IncompleteRead from $E") + ctx.sites(rx, "raise IncompleteRead")
    if ctx.need("R16-b", rx, "`raise IncompleteRead` at end of stream", len(ir), 1):
        h = enclosing(ir[0][0], (ast.ExceptHandler,), stop=rx.node)
        ok = h is not None and h.type is not None and ast.unparse(h.type) == "EndOfStream"
        ctx.ob("R16-b", rx, "IncompleteRead is raised exactly when the wrapped stream ended", ok, node=ir[0][0], detail="" if ok else "IncompleteRead is not raised from `except EndOfStream`",
               by=("except EndOfStream",))

    # ---- R16-c search offset -------------------------------------------------------------------------------------------------------------------
    ru = R["receive_until"]
    defsu = simple_defs(ru.node)
    finds = ctx.sites(ru, "$I = self._buffer.find($D, $O)")
    if ctx.need("R16-c", ru, "`index = self._buffer.find(delimiter, offset)`", len(finds), 1):
        fs, fenv = finds[0]
        idx = u(fenv["I"])
        # a search may start at the literal 0 (the whole buffer) or at an offset variable; there may be one search site (loop) or two
        # (initial search + re-search after new data)
        offnames = sorted({u(e["O"]) for _, e in finds if isinstance(e["O"], ast.Name)})
        lit_ok = all(isinstance(e["O"], ast.Name) or (isinstance(e["O"], ast.Constant) and e["O"].value == 0) for _, e in finds)
        ctx.ob("R16-c", ru, "every search starts at 0 or at the tracked offset", lit_ok and len(offnames) <= 1 and len({u(e["I"]) for _, e in finds}) == 1,
               detail="" if lit_ok else "a search starts at some other position", by=("find(delimiter, 0 | offset)",))
        off = offnames[0] if offnames else "_no_offset_variable_"
        okd = all(ast.unparse(e["D"]) == delim for _, e in finds)
        ctx.ob("R16-c", ru, "the search looks for the caller's delimiter", okd, node=fs, detail="" if okd else f"`{norm(fs)}` searches for something else", by=(delim,))
        offs = [n for n in own_walk(ru.node) if isinstance(n, ast.Assign) and len(n.targets) == 1 and getattr(n.targets[0], "id", None) == off]
        init = [n for n in offs if isinstance(n.value, ast.Constant) and n.value.value == 0]
        upd = [n for n in offs if n not in init]
        first_from_zero = (len(init) == 1 and not lexically_inside(init[0], lambda x: isinstance(x, ast.While), stop=ru.node)) or \
            any(isinstance(e["O"], ast.Constant) and not lexically_inside(s_, lambda x: isinstance(x, ast.While), stop=ru.node) for s_, e in finds)
        ctx.ob("R16-c", ru, "the search starts at the beginning of the buffer", first_from_zero,
               detail="" if first_from_zero else f"neither `{off} = 0` before the loop nor an initial `find(delimiter, 0)`", by=("first search from 0",))
        ctx.need("R16-c", ru, "the offset update after an unsuccessful search", len(upd), 1)
        for n in upd:
            v = n.value
            okm = isinstance(v, ast.Call) and call_name(v) == "max" and len(v.args) == 2
            inner = None
            if okm:
                consts = [a for a in v.args if isinstance(a, ast.Constant) and a.value == 0]
                others = [a for a in v.args if a not in consts]
                okm = len(consts) == 1 and len(others) == 1
                inner = others[0] if okm else None
            ctx.ob("R16-c", ru, "the new offset is clamped at 0 (a negative offset would search from the end)", okm, node=n,
                   detail="" if okm else f"`{norm(n)}` is not of the form max(<expr>, 0)", by=("max(..., 0)",))
            if inner is not None:
                d = lin_diff(linear(inner, defsu), {"len(self._buffer)": 1, f"len({delim})": -1})
                ok = d is not None and set(d) <= {""} and d.get("", 0) <= 1
                ctx.ob("R16-c", ru, "the new offset leaves a window of at least len(delimiter)-1 bytes before the new data", ok, node=n,
                       detail="" if ok else f"offset = {u(inner)}: relative to len(self._buffer) - len({delim}) the form is {d}; required a constant <= 1 "
                                            f"(otherwise a delimiter straddling the chunk boundary is skipped)", by=(f"len(buffer) - len({delim}) + c, c <= 1",))

        # the offset is derived from the buffer as it was when last searched: find -> (no suspension) -> offset update; extend after the update
        def step_o(st, e, c):
            if e == "find" and not c.is_exc:
                return "searched"
            if e == "susp" and not c.is_exc:
                return "suspended" if st in ("searched", "suspended") else st
            if e == "upd" and not c.is_exc:
                if st == "suspended":
                    return Bad("the search offset is computed after a suspension point: bytes appended to the buffer meanwhile (feed_data) are never searched")
                if st == "extended":
                    return Bad("the search offset is computed after the new data was appended: the new data is never searched")
                return "updated"
            if e == "ext" and not c.is_exc:
                if st == "searched" or st == "suspended":
                    return Bad("new data is appended before the next search offset was fixed")
                return "extended" if st != "updated" else "ready"
            return st

        ctx.paths("R16-c", ru, [("find", f"$I = self._buffer.find($D, $O)"), ("susp", "await $X"), ("upd", f"{off} = max($*A)"),
                                ("ext", "self._buffer.extend($X)")], step_o, "", None, instance="search, fix the offset, then wait and append", allow_no_exit=True)
        # the size limit is tested after the search, and DelimiterNotFound only when the search failed on a full buffer
        dn = ctx.sites(ru, "raise DelimiterNotFound($*A)")
        if ctx.need("R16-c", ru, "`raise DelimiterNotFound`", len(dn), 1):
            ctx.require_at("R16-c", ru, dn[0][0], [[f"{idx} < 0", f"not len(self._buffer) < {maxb_u}"]],
                           instance="DelimiterNotFound only after an unsuccessful search of a buffer that reached max_bytes", what="raise DelimiterNotFound")
        rets = [x for x in own_walk(ru.node) if isinstance(x, ast.Return)]
        for r in rets:
            ctx.require_at("R16-c", ru, r, [[f"not {idx} < 0"]], instance="receive_until returns only when the delimiter was found", what="return")
        for n in own_walk(ru.node):
            bs = buf_slice(n) if isinstance(n, ast.expr) and isinstance(getattr(n, "ctx", None), ast.Load) else None
            if bs is not None and isinstance(n, ast.Subscript):
                ok = bs[1] is not None and ast.unparse(bs[1]) == idx
                ctx.ob("R16-c", ru, "what is returned ends right before the delimiter", ok, node=stmt_of(n), detail="" if ok else f"`{norm(stmt_of(n))}` is not `self._buffer[:{idx}]`", by=(f"[:{idx}]",))
        ir = ctx.sites(ru, "raise IncompleteRead from $E") + ctx.sites(ru, "raise IncompleteRead")
        if ctx.need("R16-c", ru, "`raise IncompleteRead` at end of stream", len(ir), 1):
            h = enclosing(ir[0][0], (ast.ExceptHandler,), stop=ru.node)
            ok = h is not None and h.type is not None and ast.unparse(h.type) == "EndOfStream"
            ctx.ob("R16-c", ru, "IncompleteRead is raised exactly when the wrapped stream ended", ok, node=ir[0][0], detail="" if ok else "not from `except EndOfStream`", by=("except EndOfStream",))

    # ---- R16-d text ------------------------------------------------------------------------------------------------------------------------------
    tr = ctx.fn("TextReceiveStream.receive", TXT)
    tpi = ctx.fn("TextReceiveStream.__post_init__", TXT)
    enc_p, err_p = tpi.node.args.args[1].arg, tpi.node.args.args[2].arg
    mk = ctx.sites(tpi, f"$K = codecs.getincrementaldecoder({enc_p})")
    mk2 = ctx.sites(tpi, f"self._decoder = $K(errors={err_p})") + ctx.sites(tpi, f"self._decoder = codecs.getincrementaldecoder({enc_p})(errors={err_p})")
    ctx.ob("R16-d", tpi, "one incremental decoder for the configured encoding and error policy is created per stream", len(mk2) >= 1 and (len(mk) == 1 or "getincrementaldecoder" in ast.unparse(mk2[0][0])),
           detail="" if mk2 else "TextReceiveStream.__post_init__ does not create `codecs.getincrementaldecoder(encoding)(errors=errors)`", by=("getincrementaldecoder",))
    # (whatever shape the creation has, the codec looked up is the one given to *this* constructor: `encoding` is an init-only variable,
    # an attribute of that name on the instance is just the class default)
    for f_c, par_c, fn_c in ((tpi, enc_p, "getincrementaldecoder"), (ctx.fn("TextSendStream.__post_init__", TXT), None, "getincrementalencoder")):
        par_c = par_c or f_c.node.args.args[1].arg
        lk = [x for x in own_walk(f_c.node) if isinstance(x, ast.Call) and call_name(x) == fn_c]
        okl = len(lk) == 1 and len(lk[0].args) == 1 and norm(lk[0].args[0]) == par_c
        ctx.ob("R16-d", f_c, f"the codec is looked up by the `{par_c}` argument of the constructor", okl, node=stmt_of(lk[0]) if lk else f_c.node, by=(f"{fn_c}({par_c})",),
               detail="" if okl else f"`codecs.{fn_c}(...)` is not called with the constructor's `{par_c}` argument: the stream decodes/encodes with another codec than the one it was given")
    wd = [w for w in ctx.writers("_decoder", modules=[TXT]) if w[3] == "assign" and w[0] is not None]
    okw = all(w[0].qual == "TextReceiveStream.__post_init__" for w in wd) and len(wd) == 1
    ctx.ob("R16-d", tpi, "the decoder is never replaced (its state carries split characters across chunks)", okw, detail="" if okw else f"_decoder assigned in {[w[0].qual for w in wd]}", by=("writer table",))
    rcv = ctx.sites(tr, "$C = await self.transport_stream.receive()")
    if ctx.need("R16-d", tr, "`chunk = await self.transport_stream.receive()`", len(rcv), 1):
        cv = u(rcv[0][1]["C"])
        dec = ctx.sites(tr, f"$D = self._decoder.decode({cv})")
        fin = [n for n in own_walk(tr.node) if isinstance(n, ast.Call) and call_name(n) == "decode" and (len(n.args) > 1 or n.keywords)]
        ctx.ob("R16-d", tr, "a chunk is decoded incrementally, never as final", len(dec) == 1 and not fin,
               detail="" if dec and not fin else "decode() is called with final=True (a split multi-byte character would raise or be replaced) or the chunk is not decoded", by=("self._decoder.decode(chunk)",))
        if dec:
            dv = u(dec[0][1]["D"])

            def step_t(st, e, c):
                if c.is_exc:
                    return st
                r, d = st
                if e == "recv":
                    if r > d:
                        return Bad("a chunk is received while the previous one was never passed to the decoder (bytes dropped)")
                    return (min(r + 1, 2), d) if r == d else st
                if e == "dec":
                    if d >= r:
                        return Bad("the decoder is fed more often than chunks were received (a chunk decoded twice)")
                    return (r, d + 1)
                if e == "head":
                    return (0, 0) if r == d else st
                return st

            def at_exit_t(kind, st, facts):
                r, d = st
                if kind == "return":
                    if r != d:
                        return "a received chunk is not decoded before returning"
                    if (dv, True) not in facts:
                        return "an empty string can be returned (only a non-empty decode may be handed out; '' means the chunk ended inside a character)"
                return None

            ctx.paths("R16-d", tr, [("recv", f"{cv} = await self.transport_stream.receive()"), ("dec", f"{dv} = self._decoder.decode({cv})"),
                                    ("head", [lambda frag, node: node.kind == "loop_head"])], step_t, (0, 0), at_exit_t,
                      instance="every chunk decoded exactly once; only non-empty text returned")
            rets = [x for x in own_walk(tr.node) if isinstance(x, ast.Return)]
            okr = all(r.value is not None and ast.unparse(r.value) == dv for r in rets) and len(rets) >= 1
            ctx.ob("R16-d", tr, "what is returned is the decoded text", okr, detail="" if okr else "TextReceiveStream.receive returns something else than the decoder's output", by=(dv,))
    ts = ctx.fn("TextSendStream.send", TXT)
    tsp = ctx.fn("TextSendStream.__post_init__", TXT)
    item = ts.node.args.args[1].arg
    enc_s = tsp.node.args.args[1].arg
    mk = ctx.sites(tsp, f"self._encoder = codecs.getincrementalencoder({enc_s})($*A)")
    if not mk:
        # (the codec class bound to a local first)
        from .common import origin_of
        mk = [(s_, e_) for s_, e_ in ctx.sites(tsp, "self._encoder = $K($*A)")
              if norm(origin_of(tsp.node, e_["K"])) == f"codecs.getincrementalencoder({enc_s})"]
    ctx.ob("R16-d", tsp, "the send side uses one incremental encoder per stream, like the receive side's incremental decoder (a stateless encoder repeats "
           "the byte order mark of utf-16/utf-32 in every item, which the peer decodes as U+FEFF)", len(mk) == 1,
           detail="" if mk else "TextSendStream.__post_init__ does not create `codecs.getincrementalencoder(encoding)(...)`", by=("getincrementalencoder",))
    we = [w for w in ctx.writers("_encoder", modules=[TXT]) if w[3] == "assign" and w[0] is not None]
    okw = all(w[0].qual == "TextSendStream.__post_init__" for w in we) and len(we) == 1
    ctx.ob("R16-d", tsp, "the encoder is never replaced", okw, detail="" if okw else f"_encoder assigned in {[w[0].qual for w in we]}", by=("writer table",))
    # the codec objects are only ever fed: resetting or re-creating them in mid-stream forgets the byte order mark already sent / a
    # partially received character
    for cls_, fld, okcalls, okfuncs in (("TextSendStream", "_encoder", {"encode"}, None), ("TextReceiveStream", "_decoder", {"decode"}, {"reset": "TextReceiveStream.aclose"})):
        for f_ in ctx.repo.methods(cls_, TXT).values():
            for n_ in own_walk(f_.node):
                if isinstance(n_, ast.Call) and isinstance(n_.func, ast.Attribute) and ast.unparse(n_.func.value) == f"self.{fld}":
                    m_ = n_.func.attr
                    ok_ = m_ in okcalls or (okfuncs and okfuncs.get(m_) == f_.qual)
                    ctx.ob("R16-d", f_, f"the only operations on {cls_}.{fld} are feeding it" + (" (and the reset when the stream is closed)" if okfuncs else ""), bool(ok_), node=stmt_of(n_),
                           detail="" if ok_ else f"`{norm(stmt_of(n_))}` changes the codec state in mid-stream", by=(f"{fld}.{m_}",))
    encs = ctx.sites(ts, f"$E = self._encoder.encode({item})")
    folded = ctx.sites(ts, f"await self.transport_stream.send(self._encoder.encode({item}))")      # canonical form when the temporary is single-use
    if ctx.need("R16-d", ts, "`encoded = self._encoder.encode(item)`", len(encs) + len(folded), 1):
        ev = u(encs[0][1]["E"]) if encs else f"self._encoder.encode({item})"
        snd = ctx.sites(ts, f"await self.transport_stream.send({ev})")
        ctx.ob("R16-d", ts, "the whole encoded item is sent", len(snd) == 1, detail="" if snd else f"`{ev}` is not passed unchanged to transport_stream.send", by=("send(encoded)",))
        dominates_all_exits(ctx, "R16-d", ts, f"await self.transport_stream.send({ev})", "every send() forwards its item")
        er = ctx.sites(ts, "self._encoder.errors = self.errors")
        ctx.ob("R16-d", ts, "the configured error policy is applied to every item", len(er) == 1 or bool(ctx.sites(ts, f"self._encoder.encode({item}, $*A)")),
               detail="" if er else "the public `errors` attribute is not applied when encoding", by=("self._encoder.errors = self.errors",))
    tsi = ctx.fn("TextStream.__post_init__", TXT)
    e1, e2 = tsi.node.args.args[1].arg, tsi.node.args.args[2].arg
    a = ctx.sites(tsi, f"self._receive_stream = TextReceiveStream(self.transport_stream, encoding={e1}, errors={e2})") + \
        ctx.sites(tsi, f"self._receive_stream = TextReceiveStream(transport_stream=self.transport_stream, encoding={e1}, errors={e2})")
    b = ctx.sites(tsi, f"self._send_stream = TextSendStream(self.transport_stream, encoding={e1}, errors={e2})") + \
        ctx.sites(tsi, f"self._send_stream = TextSendStream(transport_stream=self.transport_stream, encoding={e1}, errors={e2})")
    ctx.ob("R16-d", tsi, "both halves of a TextStream wrap the same transport with the same encoding and error policy", len(a) == 1 and len(b) == 1,
           detail="" if a and b else "TextStream does not construct both halves with (transport_stream, encoding=encoding, errors=errors)", by=("same encoding",))
    for q, pat in (("TextStream.receive", "return await self._receive_stream.receive()"), ("TextStream.send", f"await self._send_stream.send({ctx.fn('TextStream.send', TXT).node.args.args[1].arg})")):
        f = ctx.fn(q, TXT)
        s = ctx.sites(f, pat)
        ctx.ob("R16-d", f, f"{q} delegates to its half", len(s) == 1, detail="" if s else f"{q} is not `{pat}`", by=("delegation",))

    # ---- R16-e sibling agreement of the defaults: "sending strings through TextSendStream into TextReceiveStream is the identity" and "the
    # concatenation equals the decoding of the whole input" are stated for streams built with the same codec - in particular both built
    # with none given.  Every class of the module declares the same default `encoding` (and `errors`), and it is a plain codec: a
    # signature-stripping variant on one side ("utf-8-sig") decodes a leading U+FEFF away
    decl = {}
    for cn, vs in ctx.repo.classes.items():
        for rel_, cd in vs:
            if not rel_.endswith(TXT):
                continue
            for x in cd.body:
                if isinstance(x, ast.AnnAssign) and isinstance(x.target, ast.Name) and x.target.id in ("encoding", "errors") and x.value is not None:
                    decl.setdefault(x.target.id, []).append((cn, x))
    for fld, want_n in (("encoding", 3), ("errors", 3)):
        ds = decl.get(fld, [])
        ctx.floor("R16-e", f"classes in streams/text.py declaring a default `{fld}`", len(ds), want_n)
        vals = {cn: (x.value.value if isinstance(x.value, ast.Constant) else norm(x.value)) for cn, x in ds}
        ref = vals.get("TextSendStream")
        for cn, x in ds:
            ok = vals[cn] == ref
            ctx.ob("R16-e", tsi, f"{cn}.{fld} has the same default as TextSendStream.{fld}", ok, node=x, by=(repr(vals[cn]),),
                   detail="" if ok else f"{cn} defaults to {fld}={vals[cn]!r} but TextSendStream to {ref!r}: default-constructed send and receive sides no longer "
                                        "compose to the identity (utf-8-sig, for one, drops a leading U+FEFF)")

    # ---- R16-f the buffered wrapper reads from, and writes to, exactly the stream it was given: its constructor hands the unmodified
    # argument to the receive side (whose buffer is the only one involved) and keeps the same object for the send side.  Unwrapping an
    # argument that is itself buffered would strand the bytes in *its* buffer.
    bi = ctx.fn("BufferedByteStream.__init__", BUF)
    sp_ = bi.node.args.args[1].arg
    rebound = [x for x in ast.walk(bi.node) if isinstance(x, ast.Name) and x.id == sp_ and isinstance(x.ctx, (ast.Store, ast.Del))]
    ctx.ob("R16-f", bi, "the stream argument is not replaced inside the constructor", not rebound, node=stmt_of(rebound[0]) if rebound else bi.node, by=("parameter not rebound",),
           detail="" if not rebound else f"`{norm(stmt_of(rebound[0]))}` rebinds the stream argument: the wrapper no longer reads from the object it was given")
    dominates_all_exits(ctx, "R16-f", bi, f"super().__init__({sp_})", "the receive side wraps the given stream")
    dominates_all_exits(ctx, "R16-f", bi, f"self._stream = {sp_}", "the send side writes to the given stream")
