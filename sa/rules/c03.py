"""C03 — Level-triggered cancellation: nothing stays blocked in a cancelled scope."""
from __future__ import annotations

import ast

from sa.engine.facts import Bad, F
from sa.engine.pattern import P, u
from sa.engine.source import norm, own_walk, stmt_of
from .common import A
from .walkers import check_walker, loop_var, restart_walker, join_restarts

EXPLANATION = ("Level-triggered cancellation: every link of the re-delivery chain is present on every path: cancel() marks then delivers, a "
               "scope cancelled before entry delivers on entry, the delivery loop schedules a retry for every live member it could not finish "
               "with, recurses into eligible child scopes and re-arms itself with the same origin, delivery is restarted on scope exit, on "
               "un-shielding and whenever a task joins a scope, checkpoint_if_cancelled spins until the cancellation lands, scope membership "
               "is written only at the enumerated sites."
               " A deadline is a cancellation source: the timer rules and the helpers' deadline forwarding of C06 hold (0, past and -inf deadlines are deadlines).")
NOT_DECIDED = ("The bound on event-loop cycles, fairness of call_soon, tasks that swallow CancelledError, uvloop/eager configurations: "
               "liveness is not decided, only the presence of each necessary link.")


def delivery_loop(ctx, rule):
    """the re-delivery loop of a cancelled scope: (i) every live member keeps it alive, (iv) every eligible member is cancelled,
    (ii) child scopes are recursed into with the same origin, (iii) the origin re-arms itself or clears its handle"""
    deliver = ctx.fn("CancelScope._deliver_cancellation", A)
    rvs = [u(e["R"]) for s, e in ctx.sites(deliver, "return $R") if isinstance(e["R"], ast.Name)]
    ctx.need(rule, deliver, "`return should_retry`", len(rvs), 1)
    SR = rvs[0] if rvs else "should_retry"
    tl =[n for n in own_walk(deliver.node) if isinstance(n, ast.For) and ast.unparse(n.iter) == "self._tasks" and isinstance(n.target, ast.Name)]
    if ctx.need(rule, deliver, "`for task in self._tasks`", len(tl), 1):
        t = tl[0].target.id
        tl_ids = {id(tl[0])}
        done_f = (F(f"{t}.done()")[0], False)
        cur = ctx.sites(deliver, "$C = current_task()")
        # (i) retry scheduled for every live member
        def step_i(st, e, c):
            if e == "iter":
                fb = c.facts_before
                if done_f in fb and (SR, True) not in fb:
                    return Bad("a member task that is still running is passed over without `should_retry = True`: if it cannot be cancelled in this cycle the delivery dies down and the task stays blocked")
            return st

        ctx.paths(rule, deliver, [("iter", [lambda frag, node: node.kind == "for_iter" and id(node.node) in tl_ids])], step_i, 0,
                  lambda k, s, f: None, instance="(i) every live member keeps the delivery alive")
        # (iv) an eligible task is cancelled
        calls = ctx.sites(deliver, f"{t}.cancel($*A)")
        if ctx.need(rule, deliver, "`task.cancel(...)`", len(calls), 1):
            ctx.require_at(rule, deliver, calls[0][0], [[f"not {t}.done()", f"not {t}._must_cancel", f"not {t} is current_task()"]],
                           instance="(iv) only live, not-yet-cancelling, other tasks are cancelled")

            def step_iv(st, e, c):
                if e == "iter":
                    fb = c.facts_before
                    keys = {k: p for k, p in fb}
                    elig = keys.get(f"{t}.done()") is False and keys.get(f"{t}._must_cancel") is False and keys.get(F(f"{t} is current_task()")[0]) is False \
                        and (keys.get(F(f"{t} is self._host_task")[0]) is True or keys.get(f"_task_started({t})") is True) \
                        and any((k.startswith("isinstance(") and k.endswith(", asyncio.Future)") and p is False) or (k.endswith(".done()") and k != f"{t}.done()" and p is False)
                                for k, p in fb)
                    if elig:
                        return Bad("a task that is eligible for cancellation (started, not current, waiter not done) is not cancelled by the delivery loop")
                    live = keys.get(f"{t}.done()") is False and keys.get(f"{t}._must_cancel") is False and keys.get(F(f"{t} is current_task()")[0]) is False
                    if live:
                        reason = keys.get(f"_task_started({t})") is False or any(
                            k.endswith(".done()") and k != f"{t}.done()" and p is True for k, p in fb)
                        if not reason:
                            return Bad("a live member task (not done, not already cancelling, not the current task) is left un-cancelled although "
                                       "neither `not _task_started(task)` nor `waiter already done` was established: started non-host members are never cancelled")
                return st

            ctx.paths(rule, deliver, [("iter", [lambda frag, node: node.kind == "for_iter" and id(node.node) in tl_ids])], step_iv, 0,
                      lambda k, s, f: None, instance="(iv) every eligible member is cancelled")
    # (ii) recursion result is OR-ed in, the recursive call is evaluated first
    rec = [(s, e) for s, e in ctx.sites(deliver, "$S._deliver_cancellation($O)") if u(e["S"]) != "self"]
    if ctx.need(rule, deliver, "recursive delivery into child scopes", len(rec), 1):
        call, env = rec[0]
        st = stmt_of(call)
        s_ = u(env["S"])
        ok = any(P(p).match(st) is not None for p in (f"{SR} = {s_}._deliver_cancellation($O) or {SR}",
                                                      f"{SR} |= {s_}._deliver_cancellation($O)"))
        if not ok and isinstance(st, ast.If):
            ok = P(f"{s_}._deliver_cancellation($O)").match(st.test) is not None and any(P(f"{SR} = True").match(b) is not None for b in st.body)
        ctx.ob(rule, deliver, "(ii) a child scope that needs a retry keeps the origin's delivery alive (call evaluated before the OR)", ok,
               detail="" if ok else f"`{norm(st)}`: the recursive result is not OR-ed into should_retry with the call evaluated first "
               "(`should_retry or scope._deliver...` would skip child scopes once any member needs a retry)", node=st, by=("call or should_retry",))
        oo = u(env["O"])
        ctx.ob(rule, deliver, "(ii) the recursion passes the same origin", oo == "origin", detail=f"recursive call passes `{oo}`", node=st, by=("origin",))
    # (iii) re-arm with the same bound method and origin
    arm = ctx.sites(deliver, "self._cancel_handle = $L.call_soon(self._deliver_cancellation, origin)")
    clr = ctx.sites(deliver, "self._cancel_handle = None")
    if ctx.need(rule, deliver, "(iii) re-arm `self._cancel_handle = loop.call_soon(self._deliver_cancellation, origin)`", len(arm), 1):
        ctx.require_at(rule, deliver, arm[0][0], [["origin is self", SR]], instance="(iii) re-armed iff something is left to retry, by the origin only")
    if ctx.need(rule, deliver, "(iii) `self._cancel_handle = None` when nothing is left", len(clr), 1):
        ctx.require_at(rule, deliver, clr[0][0], [["origin is self", f"not {SR}"]], instance="(iii) handle cleared only when nothing is left to retry")

    def step_iii(st, e, c):
        if c.is_exc:
            return st
        return st | {e}

    def at_exit_iii(kind, st, facts):
        if kind != "return":
            return None
        if (F("origin is self")[0], False) not in facts and not ({"arm", "clear"} & set(st)):
            return "the origin scope leaves a delivery round without either re-arming the callback or clearing its handle"
        if "ret" not in st:
            return "the delivery round does not report whether a retry is needed"
        return None

    ctx.paths(rule, deliver, [("arm", "self._cancel_handle = $L.call_soon(self._deliver_cancellation, origin)"),
                                 ("clear", "self._cancel_handle = None"), ("ret", f"return {SR}")], step_iii, frozenset(), at_exit_iii,
              instance="(iii) every origin round ends re-armed or cleared")



# the canonical (inlined, see core.INLINE_ALWAYS) form of "restart delivery in the enclosing scope"
RESTART = "self._parent_scope._restart_cancellation()"


def check(ctx):
    cancel = ctx.fn("CancelScope.cancel", A)
    enter = ctx.fn("CancelScope.__enter__", A)
    exit_ = ctx.fn("CancelScope.__exit__", A)
    deliver = ctx.fn("CancelScope._deliver_cancellation", A)
    shield_set = ctx.fn("CancelScope.shield@setter", A)

    # ---- R03-a cancel() marks then delivers --------------------------------------------------------------------------
    marks = ctx.sites(cancel, "self._cancel_called = True")
    if ctx.need("R03-a", cancel, "`self._cancel_called = True`", len(marks), 1):
        ctx.require_at("R03-a", cancel, marks[0][0], [["not self._cancel_called"]], instance="cancel() is idempotent (guarded by not cancel_called)")

    def step_a(st, e, c):
        mk, dl = st
        if c.is_exc:
            return st
        if e == "mark":
            return (True, dl)
        if e == "deliver":
            if not mk:
                return Bad("cancellation is delivered before the scope is marked as cancelled (delivery tests the flag of the origin)")
            return (mk, True)
        return st

    host_none = F("self._host_task is None")

    def at_exit_a(kind, st, facts):
        mk, dl = st
        if kind == "return" and mk and not dl and (host_none[0], False) in facts:
            return "cancel() marks an entered scope (host task set) as cancelled but never starts delivery"
        if kind == "return" and mk and not dl and host_none not in facts:
            return "cancel() marks the scope as cancelled and returns without delivering or having found the scope not entered"
        return None

    ctx.paths("R03-a", cancel, [("mark", "self._cancel_called = True"), ("deliver", "self._deliver_cancellation(self)")], step_a,
              (False, False), at_exit_a, instance="mark, then deliver if entered")

    # ---- R03-b delivered on entry -----------------------------------------------------------------------------------------
    cc = F("self._cancel_called")

    def step_b(st, e, c):
        add, act, dl = st
        if c.is_exc:
            return st
        if e == "add":
            return (True, act, dl)
        if e == "active":
            return (add, True, dl)
        if e == "deliver":
            if not (add and act):
                return Bad("delivery on entry happens before the host task is a member of the scope and the scope is active")
            return (add, act, True)
        return st

    def at_exit_b(kind, st, facts):
        add, act, dl = st
        if kind == "return":
            if not (add and act):
                return "__enter__ returns without the host task being a member of the (active) scope"
            if cc in facts and not dl:
                return "a scope that was cancelled before entry is entered without starting delivery: the block runs un-cancelled"
            if cc not in facts and (cc[0], False) not in facts and not dl:
                return "__enter__ returns without having looked at the cancelled flag"
        return None

    ctx.paths("R03-b", enter, [("add", "self._tasks.add($H)"), ("active", "self._active = True"), ("deliver", "self._deliver_cancellation(self)")],
              step_b, (False, False, False), at_exit_b, instance="scope cancelled before entry delivers on entry")

    # ---- R03-c delivery loop ----------------------------------------------------------------------------------------------
    delivery_loop(ctx, "R03-c")

    # ---- R03-d restart on exit / un-shield ---------------------------------------------------------------------------------
    def step_d(st, e, c):
        ptr, rs = st
        if c.is_exc:
            return st
        if e == "ptr":
            return (True, rs)
        if e == "restart":
            if not ptr:
                return Bad("delivery is restarted in the parent before the task's scope pointer was moved back to the parent")
            return (ptr, True)
        return st

    NOPARENT = F("self._parent_scope is None")

    def at_exit_d(kind, st, facts):
        ptr, rs = st
        if kind in ("return",) or kind.startswith("raise:BaseExceptionGroup") or kind == "raise:?":
            if not rs and NOPARENT not in facts:      # (a root scope has no enclosing scope to restart)
                return f"__exit__ leaves ({kind}) without restarting cancellation delivery in a cancelled enclosing scope (the task would run on un-cancelled)"
        return None

    ctx.paths("R03-d", exit_, [("ptr", "$S.cancel_scope = self._parent_scope"), ("restart", RESTART)], step_d,
              (False, False), at_exit_d, instance="exit restarts delivery in the parent")
    val = shield_set.node.args.args[1].arg
    rs = ctx.sites(shield_set, RESTART)
    if ctx.need("R03-d", shield_set, "un-shielding restarts delivery in the parent", len(rs), 1):
        ctx.require_at("R03-d", shield_set, rs[0][0], [[f"not {val}"]], instance="restart when the shield is dropped")

    def at_exit_s(kind, st, facts):
        if kind == "return" and not st and (val, True) not in facts and (F(f"self._shield == {val}")[0], True) not in facts and NOPARENT not in facts:
            return "dropping the shield does not restart delivery of a visible outer cancellation"
        return None

    ctx.paths("R03-d", shield_set, [("restart", RESTART)], lambda st, e, c: True if not c.is_exc else st, False,
              at_exit_s, instance="un-shield path reaches the restart")
    # the restart helper(s)
    restart_walker(ctx, "R03-d")

    # ---- R03-g checkpoint_if_cancelled spins -----------------------------------------------------------------------------------
    cic = ctx.fn("AsyncIOBackend.checkpoint_if_cancelled", A)
    v2, adv = loop_var(cic)
    if ctx.need("R03-g", cic, "ancestor walk in checkpoint_if_cancelled", 1 if v2 else 0, 1):
        loops = [n for n in own_walk(cic.node) if isinstance(n, ast.While) and any(x is adv for x in ast.walk(n))]
        loop_ids = {id(l) for l in loops}
        ck = {f"{v2}.cancel_called", f"{v2}._cancel_called"}

        def step_g(st, e, c):
            # st: None | "cancelled" (a cancelled scope was seen in this iteration) | "slept"
            if e == "head":
                if st == "cancelled":
                    return Bad("a cancelled scope is seen but the loop goes on without yielding (await sleep(0)): busy loop / no cancellation point")
                return None
            if e == "ctest" and not c.is_exc:
                return "cancelled" if any((k, True) in c.facts for k in ck) else st
            if e == "sleep":
                return "slept" if not c.is_exc else st
            if e == "advance" and st is not None:
                return Bad("checkpoint_if_cancelled walks on after having seen a cancelled scope")
            return st

        def at_exit_g(kind, st, facts):
            if kind == "return" and st is not None:
                return "checkpoint_if_cancelled returns normally although the current scope is effectively cancelled (the operation would proceed with its effect)"
            return None

        def is_ctest(frag, node):
            if node.kind != "test":
                return False
            from sa.engine.facts import atom
            return atom(node.node)[0] in ck

        ctx.paths("R03-g", cic, [("head", [lambda frag, node: node.kind == "loop_head" and id(node.node) in loop_ids]), ("ctest", [is_ctest]),
                                 ("sleep", "await sleep(0)"), ("advance", f"{v2} = {v2}._parent_scope")], step_g, None, at_exit_g,
                  instance="spins (yielding) until the cancellation is thrown; never returns in a cancelled scope")
        # summary A3: no suspension on a normal-return path
        def step_s(st, e, c):
            return True if not c.is_exc else st

        def at_exit_s2(kind, st, facts):
            if kind == "return" and st:
                return "checkpoint_if_cancelled suspends on a path that returns normally (summary A3 of the analysis would be wrong)"
            return None

        ctx.paths("R03-g", cic, [("susp", "await $X")], step_s, False, at_exit_s2, instance="A3: no suspension on the normal-return path")

    # ---- R03-h members are reachable by delivery: writer table of scope membership --------------------------------------------------
    allow = {"CancelScope.__init__": {"assign"}, "CancelScope.__enter__": {"call:add", "call:discard"}, "CancelScope.__exit__": {"call:remove", "call:add"},
             "TaskGroup._spawn": {"call:add"}, "TaskGroup._spawn.task_done": {"call:remove"},
             "AsyncIOBackend.run_async_from_thread.task_wrapper": {"call:add", "call:discard"}}
    ws = []
    for f, rel, st, kind, val_, n in ctx.writers("_tasks", [A]):
        recv = ast.unparse(n.value)
        if f is not None and f.cls == "TaskGroup" and recv == "self":
            continue  # the group's own live-set (C01)
        if f is not None and f.cls == "TestRunner":
            continue
        ws.append((f, rel, st, kind, n))
    ctx.floor("R03-h", "writers of CancelScope._tasks", len(ws), 8)
    for f, rel, st, kind, n in ws:
        q = f.qual if f else "<module>"
        ok = kind in allow.get(q, ())
        ctx.ob("R03-h", f if f else f"src/anyio/{rel}:{st.lineno} <module>", f"scope membership writer {q} {kind}", ok,
               detail="" if ok else f"`{norm(st)}` changes a scope's member set outside the enumerated sites (a member the delivery cannot see, or a stale one)",
               node=st, by=(f"{q}:{kind}",))

    # ---- R03-i joining a possibly-cancelled scope restarts delivery ---------------------------------------------------------------
    join_restarts(ctx, "R03-i", ("TaskGroup._spawn", "AsyncIOBackend.run_async_from_thread.task_wrapper"), 2)

    # ---- R03-j cancellation by deadline: a deadline given to an already active scope is armed (shared with C06/R06-c)
    from .c06 import deadline_setter_rearms
    deadline_setter_rearms(ctx, "R03-j")
    # ---- R03-k a caller queued for a worker-thread token is still cancellable (shared with C14/R14-b)
    from .c14 import token_wait_interruptible
    token_wait_interruptible(ctx, "R03-k")

    # ---- R03-l (shared with C07/R07-f, C12/R12-g)
    from .common import waiter_guard
    waiter_guard(ctx, "R03-l", "the delivery loop asks `.done()` only of a waiter that is an asyncio.Future (delivery must not raise on other awaitables)")

    # ---- R03-m an abandonable thread call is really abandonable: the deprecated `cancellable=` spelling reaches the backend (else the
    # caller stays blocked in its cancelled scope until the thread returns) (shared with C14/R14-e)
    from .c14 import cancellable_alias
    cancellable_alias(ctx, "R03-m")


def _deadline_rules(ctx):
    # ---- R03-n / R03-o a deadline is a cancellation source like cancel(): "nothing stays blocked in a cancelled scope" covers a scope
    # whose deadline has passed - a past, zero or -inf deadline included - so the timer is armed / the scope cancelled for every deadline
    # that is not +inf, and the timeout helpers hand the caller's deadline to the scope unchanged (shared with C06/R06-a, R06-d)
    from .common import shared_rules
    shared_rules(ctx, "c06", {"R06-a": "R03-n", "R06-d": "R03-o"})


_check_core = check


def check(ctx):
    _check_core(ctx)
    _deadline_rules(ctx)
