"""C04 — Cancellation containment: shields hold and the right scope absorbs."""
from __future__ import annotations

import ast

from sa.engine.facts import F
from sa.engine.pattern import P, u
from sa.engine.source import norm, own_walk
from .common import A, writer_table, classifier_total
from .scope_exit import scope_exit_filter
from .walkers import all_walkers

EXPLANATION = ("Cancellation containment: the five walkers of the scope ancestor chain agree (cancelled tested before shield, shield stops the "
               "walk), delivery never recurses into a shielded or separately cancelled child scope, __exit__ absorbs iff the scope was itself "
               "cancelled and no outer cancellation is visible and the exception is an AnyIO cancellation, the cancel-message prefix written by "
               "cancel()/check_cancelled() is the one is_anyio_cancellation() matches, visibility is the conjunction of its three conjuncts, "
               "the cancelled flags are monotone."
               " A scope that splits its own cancellation out of an exception group sets cancelled_caught on the re-raising path as well."
               " In TaskGroup.__aexit__ a native cancellation caught after the group's own replaces the stored one (both directions of the replacement rule).")
NOT_DECIDED = "Comparison with a reference semantics over observed histories (a run-time oracle); shields toggled concurrently with delivery."


def fstring_head(node) -> str | None:
    if isinstance(node, ast.JoinedStr) and node.values and isinstance(node.values[0], ast.Constant):
        return node.values[0].value
    if isinstance(node, ast.Constant) and isinstance(node.value, str):
        return node.value
    return None


def check(ctx):
    # ---- R04-a ---------------------------------------------------------------------------------------------------
    all_walkers(ctx, "R04-a")

    # ---- R04-b delivery does not cross shields ------------------------------------------------------------------
    deliver = ctx.fn("CancelScope._deliver_cancellation", A)
    rec = ctx.sites(deliver, "$S._deliver_cancellation($O)")
    rec = [(s, e) for s, e in rec if u(e["S"]) != "self"]
    if ctx.need("R04-b", deliver, "recursive delivery into child scopes", len(rec), 1):
        for call, env in rec:
            s = u(env["S"])
            ctx.require_at("R04-b", deliver, call, [[f"not {s}._shield", f"not {s}.cancel_called"], [f"not {s}._shield", f"not {s}._cancel_called"],
                                                    [f"not {s}.shield", f"not {s}.cancel_called"], [f"not {s}.shield", f"not {s}._cancel_called"]],
                           instance="delivery recurses only into unshielded children that are not cancelled themselves", what="recursive delivery")
            loop = call
            while loop is not None and not isinstance(loop, ast.For):
                loop = getattr(loop, "_parent", None)
            ok = loop is not None and ast.unparse(loop.iter) == "self._child_scopes" and isinstance(loop.target, ast.Name) and loop.target.id == s
            ctx.ob("R04-b", deliver, "the recursion ranges over this scope's child scopes", ok,
                   detail="" if ok else f"`{norm(call)}` is not inside `for {s} in self._child_scopes`", node=call, by=("for scope in self._child_scopes",))
    # tasks cancelled are members of this scope only
    for call, env in ctx.sites(deliver, "$T.cancel($*A)"):
        t = u(env["T"])
        loop = call
        while loop is not None and not isinstance(loop, ast.For):
            loop = getattr(loop, "_parent", None)
        ok = loop is not None and ast.unparse(loop.iter) == "self._tasks" and isinstance(loop.target, ast.Name) and loop.target.id == t
        ctx.ob("R04-b", deliver, "only member tasks of the scope are cancelled", ok,
               detail="" if ok else f"`{norm(call)}` cancels something else than a member of self._tasks", node=call, by=("for task in self._tasks",))

    # ---- R04-c absorb iff own and not visible from outside --------------------------------------------------------
    scope_exit_filter(ctx, "R04-c")

    # ---- R04-d message table agreement -------------------------------------------------------------------------------
    isa = ctx.fn("is_anyio_cancellation", A)
    heads = [e["P"] for s, e in ctx.sites(isa, "$X.startswith($P)")]
    prefixes = [h.value for h in heads if isinstance(h, ast.Constant) and isinstance(h.value, str)]
    ctx.floor("R04-d", "prefix test in is_anyio_cancellation", len(prefixes), 1)
    prefix = prefixes[0]
    cancel = ctx.fn("CancelScope.cancel", A)
    chk = ctx.fn("AsyncIOBackend.check_cancelled", A)
    writers = []
    for st, env in ctx.sites(cancel, "self._cancel_reason = $V"):
        writers.append((cancel, st, fstring_head(env["V"])))
    for st, env in ctx.sites(chk, "raise CancelledError($V)"):
        writers.append((chk, st, fstring_head(env["V"])))
    ctx.floor("R04-d", "writers of the cancel message (cancel(), check_cancelled())", len(writers), 2)
    for f, st, head in writers:
        ok = head is not None and head.startswith(prefix)
        ctx.ob("R04-d", f, "the cancel message starts with the prefix is_anyio_cancellation() looks for", ok,
               detail="" if ok else f"`{norm(st)}`: message head {head!r} does not start with {prefix!r}; the scope would not recognise its own cancellation",
               node=st, by=(repr(prefix),))
    # the reason is what is passed to task.cancel()
    cs = ctx.sites(deliver, "$T.cancel(origin._cancel_reason)")
    ctx.ob("R04-d", deliver, "tasks are cancelled with the origin scope's tagged message", len(cs) == 1,
           detail="" if cs else "task.cancel() in _deliver_cancellation does not pass origin._cancel_reason", by=("origin._cancel_reason",))
    # the reader also follows the __context__ chain
    ok = bool(ctx.sites(isa, "$X = $X.__context__")) and bool(ctx.sites(isa, "return True")) and bool(ctx.sites(isa, "return False"))
    ctx.ob("R04-d", isa, "is_anyio_cancellation follows __context__ and returns both verdicts", ok, by=("exc = exc.__context__",))
    for r, _ in ctx.sites(isa, "return True"):
        fa = ctx.facts_at(isa, r)
        ok = bool(fa) and all(any(k.endswith(f".startswith({prefix!r})") and p for k, p in x) for x in fa)
        ctx.ob("R04-d", isa, "the verdict True requires the prefix match", ok,
               detail="" if ok else "`return True` reachable without the prefix test having succeeded", node=r, by=("startswith fact",))

    classifier_total(ctx, "R04-d")

    # ---- R04-e visibility definition ---------------------------------------------------------------------------------
    if not ctx.repo.has_func("CancelScope._parent_cancellation_is_visible_to_us", A):
        # the property was inlined by hand: its definition is then the conjunction spelled out at the use sites, which the fact
        # domain maps back to the predicate (facts.DEFINED); the rules on the use sites (R04-c, R05-b, R02-e) are unchanged
        ctx.ob("R04-e", ctx.fn("CancelScope.__exit__", A), "visible parent cancellation = has parent and not shielded and parent effectively cancelled",
               True, by=("inlined at its use sites (facts.DEFINED)",))
        vis = None
    else:
        vis = ctx.fn("CancelScope._parent_cancellation_is_visible_to_us", A)
    from .common import truth_table
    if vis is not None:
        truth_table(ctx, "R04-e", vis, {"parent": ["self._parent_scope is not None"], "shield": ["self.shield", "self._shield"],
                                    "parent_cancelled": ["self._parent_scope._effectively_cancelled"]},
                # without a parent the third atom cannot even be evaluated: the answer must be False whatever it is
                lambda v: v["parent"] and not v["shield"] and v["parent_cancelled"],
                "visible parent cancellation = has parent and not shielded and parent effectively cancelled")
    eff = ctx.fn("CancelScope._effectively_cancelled", A)
    starts = ctx.sites(eff, "$V = self")
    ctx.ob("R04-e", eff, "effective cancellation starts at the scope itself", len(starts) == 1, detail="" if starts else "the walk does not start at self",
           by=("cancel_scope = self",))
    for r in [n for n in own_walk(eff.node) if isinstance(n, ast.Return)]:
        v = r.value
        if isinstance(v, ast.Constant) and v.value is True:
            fa = ctx.facts_at(eff, r)
            ok = bool(fa) and all(any(k.endswith("._cancel_called") and p for k, p in x) for x in fa)
            ctx.ob("R04-e", eff, "effectively cancelled only via a cancelled scope on the chain", ok, node=r, by=("_cancel_called",),
                   detail="" if ok else "`return True` reachable without a cancelled scope on the chain")

    # ---- R04-f monotone flags ------------------------------------------------------------------------------------------
    ws = writer_table(ctx, "R04-f", "_cancel_called", {"CancelScope.__init__": {"assign"}, "CancelScope.cancel": {"assign"}}, floor=2, modules=[A])
    for f, rel, st, kind, val, n in ws:
        if f is not None and f.qual == "CancelScope.cancel":
            ok = isinstance(val, ast.Constant) and val.value is True
            ctx.ob("R04-f", f, "cancel_called only ever becomes True", ok, detail="" if ok else f"`{norm(st)}` resets the cancelled flag", node=st,
                   by=("= True",))
    # the shield flag has exactly the constructor and the setter as writers
    writer_table(ctx, "R04-f", "_shield", {"CancelScope.__init__": {"assign"}, "CancelScope.shield@setter": {"assign"}}, floor=2, modules=[A])

    # ---- R04-g a declared shield reaches the scope that is entered ---------------------------------------------------------------------
    from .common import shield_chain
    shield_chain(ctx, "R04-g")

    # ---- R04-h a worker thread is never attached to a scope outside the caller's own shields (shared with C14/R14-c)
    from .c14 import worker_scope
    worker_scope(ctx, "R04-h")

    # ---- R04-i a restarted delivery runs in the name of the cancelled scope it found (origin = that scope): its cancel reason marks the
    # CancelledError as AnyIO's and its uncancel count is the one the absorbing scope settles (shared with C03/R03-d)
    from .walkers import restart_walker
    restart_walker(ctx, "R04-i")

    # ---- R04-j the shielded checkpoint is shielded whenever it yields (shared with C08/R08-0)
    from .common import shielded_checkpoint_is_shielded
    shielded_checkpoint_is_shielded(ctx, "R04-j")

    # ---- R04-k "the right scope absorbs": a task group's scope must not absorb its own (stored) cancellation when a *native* cancel request
    # interrupted the join afterwards - the native one has to propagate (shared with C05/R05-h)
    from .common import shared_rules
    shared_rules(ctx, "c05", {"R05-h": "R04-k"})
