"""C13 — Memory object streams: closing wakes everyone and errors tell the truth."""
from __future__ import annotations

import ast

from sa.engine.cfg import exc_name, handler_names
from sa.engine.facts import Bad, F
from sa.engine.pattern import P, u, dump, find_all
from sa.engine.source import norm, own_walk, stmt_of
from .common import MEM, writer_table

EXPLANATION = ("Memory object streams: clone counters written only by __post_init__ (+1) and an idempotent close (-1 exactly with the "
               "closed mark), last close wakes every waiter of the other side, raise-site fact table for ClosedResourceError / EndOfStream / "
               "BrokenResourceError / WouldBlock, every other exit is reached only on a handle that is not closed."
               " Blocked receivers (senders) are taken out of their queue, or have their events set, only by the peer's hand-over, their own clean-up and the close of the last send (receive) clone."
               " Only close()/aclose()/leaving the with-block give a handle's share of the clone count back (the finaliser only warns); a receiver is skipped only on a verdict about its own task.")
NOT_DECIDED = "Histories of clone()/close() over many handles (the counters' run-time values); only the per-site discipline is decided."

SIDES = {
    "MemoryObjectSendStream": ("open_send_channels", "waiting_receivers", True),
    "MemoryObjectReceiveStream": ("open_receive_channels", "waiting_senders", False),
}


def _keys_of(expr, fn, dname) -> bool:
    """expr iterates the keys of self._state.<dname> (directly or through a single-assignment local snapshot)"""
    e = expr
    if isinstance(e, ast.Name):
        defs = [n for n in own_walk(fn) if (isinstance(n, ast.Assign) and len(n.targets) == 1 and isinstance(n.targets[0], ast.Name) and n.targets[0].id == e.id)
                or (isinstance(n, ast.AnnAssign) and n.value is not None and isinstance(n.target, ast.Name) and n.target.id == e.id)]
        if len(defs) != 1:
            return False
        e = defs[0].value
    for pat in (f"list(self._state.{dname}.keys())", f"list(self._state.{dname})", f"self._state.{dname}.keys()",
                f"tuple(self._state.{dname})", f"tuple(self._state.{dname}.keys())", f"self._state.{dname}"):
        if P(pat).match(e) is not None:
            return True
    return False


def check(ctx):
    # ---- R13-a clone counters -----------------------------------------------------------------------------------
    for cls, (ctr, other_q, clears) in SIDES.items():
        post = ctx.fn(f"{cls}.__post_init__", MEM)
        close = ctx.fn(f"{cls}.close", MEM)
        clone = ctx.fn(f"{cls}.clone", MEM)
        writer_table(ctx, "R13-a", ctr, {f"{cls}.__post_init__": {"aug"}, f"{cls}.close": {"aug"}}, floor=2)
        inc = ctx.sites(post, f"self._state.{ctr} += 1")
        ctx.ob("R13-a", post, f"{ctr} += 1 exactly once per new handle", len(inc) == 1 and len(ctx.writers(ctr)) == 2,
               detail="" if len(inc) == 1 else f"__post_init__ does not contain exactly one `self._state.{ctr} += 1`", by=(f"{ctr} += 1",))

        def step(st, e, c):
            mark, dec = st
            if c.is_exc:
                return st
            if e == "mark":
                return (min(mark + 1, 3), dec)
            if e == "dec":
                return (mark, min(dec + 1, 3))
            return st

        def at_exit(kind, st, facts):
            mark, dec = st
            if dec > 1:
                return f"the clone counter is decremented {dec} times in one close()"
            if mark != dec:
                return f"closed mark set {mark} time(s) but counter decremented {dec} time(s): close() is not idempotent / leaks a count"
            return None

        ctx.paths("R13-a", close, [("mark", "self._closed = True"), ("dec", f"self._state.{ctr} -= 1")], step, (0, 0), at_exit,
                  instance=f"{cls}.close: one decrement exactly with the closed mark")
        marks = ctx.sites(close, "self._closed = True")
        ctx.need("R13-a", close, "`self._closed = True`", len(marks), 1)
        for st, _ in marks:
            ctx.require_at("R13-a", close, st, [["not self._closed"]], instance="only a handle that is still open is closed (idempotent)")
        decs = ctx.sites(close, f"self._state.{ctr} -= 1")
        ctx.need("R13-a", close, f"`self._state.{ctr} -= 1`", len(decs), 1)
        # clone
        rs = ctx.sites(clone, f"return {cls}(_state=self._state)") + ctx.sites(clone, f"return {cls}(self._state)")
        ctx.ob("R13-a", clone, "clone constructs a handle on the same state", len(rs) == 1,
               detail="" if rs else f"{cls}.clone does not return {cls}(_state=self._state)", by=("same _state",))
        for st, _ in rs:
            ctx.require_at("R13-a", clone, st, [["not self._closed"]], instance="clone refuses on a closed handle")
        # delegation of aclose / __exit__
        for m in ("aclose", "__exit__"):
            f = ctx.fn(f"{cls}.{m}", MEM)
            s = ctx.sites(f, "self.close()")
            ctx.ob("R13-b", f, f"{m} delegates to close()", len(s) == 1, detail="" if s else f"{cls}.{m} does not call self.close()", by=("self.close()",))
            # ... on every exit, the cancellation of an await placed before it included: leaving `async with stream` while cancelled
            # must still close the handle, or the other side is never woken

            def step_cl(st, e, c):
                return True

            def at_exit_cl(kind, st, facts, m=m):
                if not st:
                    return f"{cls}.{m} can leave ({kind}) without having closed the handle (e.g. a checkpoint before close() raises the pending cancellation)"
                return None

            ctx.paths("R13-b", f, [("close", "self.close()")], step_cl, False, at_exit_cl, instance=f"{cls}.{m}: the handle is closed on every exit", native=True)

        # ---- R13-b last close wakes the other side -------------------------------------------------------------
        loops = [n for n in own_walk(close.node) if isinstance(n, ast.For) and isinstance(n.target, ast.Name)
                 and any(P(f"{n.target.id}.set()").match(b) is not None for b in n.body)
                 and _keys_of(n.iter, close.node, other_q)]
        # the draining spelling: `while q: ev, _ = q.popitem(last=False); ev.set()` - wakes every entry and leaves the queue empty
        drains = []
        for n in own_walk(close.node):
            if isinstance(n, ast.While) and not n.orelse and F(ast.unparse(n.test)) == F(f"self._state.{other_q}") \
                    and not any(isinstance(x, (ast.Break, ast.Return, ast.Continue)) for x in ast.walk(n)):
                takes = find_all(f"$E, $V = self._state.{other_q}.popitem($*A)", n)
                if len(takes) == 1 and isinstance(takes[0][1]["E"], ast.Name) and find_all(f"{takes[0][1]['E'].id}.set()", n):
                    drains.append(n)
        if not loops and drains and clears:
            loops = drains
        ctx.need("R13-b", close, f"loop setting the event of every entry of {other_q}", len(loops), 1)
        zero = [F(f"self._state.{ctr} == 0"), F(f"not self._state.{ctr}")]
        lp_ids = {id(l) for l in loops}

        def step1(st, e, c):
            # the first arrival at the wake-all loop (later arrivals are its own back edges)
            if e == "wakeall" and not st:
                if not any(z in c.facts_before for z in zero):
                    return Bad(f"the wake-all loop is reachable while {ctr} may be non-zero")
                return True
            return st

        ctx.paths("R13-b", close, [("wakeall", [lambda frag, node, ids=lp_ids: node.kind in ("for_iter", "loop_head") and id(node.node) in ids])],
                  step1, False, None, instance="waiters are woken only by the last close")

        def step2(st, e, c):
            if e == "wakeall":
                return True
            return st

        def at_exit2(kind, st, facts):
            if kind == "return" and any(z in facts for z in zero) and not st:
                return f"close() of the last clone ({ctr} == 0) returns without waking the tasks blocked on the other side"
            return None

        ctx.paths("R13-b", close, [("wakeall", [lambda frag, node, ids=lp_ids: node.kind in ("for_iter", "loop_head") and id(node.node) in ids])],
                  step2, False, at_exit2, instance=f"{cls}.close wakes all of {other_q} when the last clone closes")
        zkeys = {z[0] for z in zero}
        tests = [n for n in own_walk(close.node) if isinstance(n, ast.If) and F(ast.unparse(n.test))[0] in zkeys]      # either orientation
        # (or the comparison bound to a flag that is tested afterwards - the automata above follow it through the path facts)
        tests += [n for n in own_walk(close.node) if isinstance(n, ast.Assign) and isinstance(n.value, ast.Compare) and F(ast.unparse(n.value))[0] in zkeys]
        ctx.need("R13-b", close, f"test for the last clone (`{ctr} == 0`)", len(tests), 1)
        if clears:
            cl = ctx.sites(close, f"self._state.{other_q}.clear()") or [(d, {}) for d in drains]
            ctx.ob("R13-b", close, "released receivers are removed from the queue", len(cl) == 1,
                   detail="" if cl else "waiting_receivers is not cleared when the last sender closes (a later send_nowait would hand an item to a released receiver)",
                   by=("clear()",))

    # statistics: wherever the statistics record is built, every field reports the state field of the same meaning (positional or
    # keyword arguments; in the state class itself or, when that helper was inlined, in the streams' own statistics())
    rel_, scls = ctx.repo.cls("MemoryObjectStreamStatistics", MEM)
    fields_ = [x.target.id for x in scls.body if isinstance(x, ast.AnnAssign) and isinstance(x.target, ast.Name)]
    # by field *name* (the record's public meaning), not by position: swapping two declarations of the record must not go unnoticed
    want_ = {"current_buffer_used": "len({S}.buffer)", "max_buffer_size": "{S}.max_buffer_size", "open_send_streams": "{S}.open_send_channels",
             "open_receive_streams": "{S}.open_receive_channels", "tasks_waiting_send": "len({S}.waiting_senders)",
             "tasks_waiting_receive": "len({S}.waiting_receivers)"}
    builds = []
    for f_ in ctx.repo.funcs_in(MEM):
        for n_ in own_walk(f_.node):
            if isinstance(n_, ast.Call) and isinstance(n_.func, ast.Name) and n_.func.id == "MemoryObjectStreamStatistics":
                builds.append((f_, n_))
    ctx.need("R13-a", ctx.fn("MemoryObjectReceiveStream.statistics", MEM), "construction of the statistics record", len(builds), 1)
    for f_, c_ in builds:
        vals = {}
        for i_, a_ in enumerate(c_.args):
            if i_ < len(fields_):
                vals[fields_[i_]] = a_
        for k_ in c_.keywords:
            if k_.arg:
                vals[k_.arg] = k_.value
        S = "self" if f_.cls == "_MemoryObjectStreamState" else "self._state"
        ok = set(fields_) == set(want_) and all(fl in vals and ast.unparse(vals[fl]) == w.format(S=S) for fl, w in want_.items())
        ctx.ob("R13-a", f_, "statistics() reports the state fields themselves", ok, node=stmt_of(c_),
               detail="" if ok else "the statistics record is not (len(buffer), max_buffer_size, open_send_channels, open_receive_channels, "
               "len(waiting_senders), len(waiting_receivers)) field for field", by=("field-for-field",))
    for q_ in ("MemoryObjectReceiveStream.statistics", "MemoryObjectSendStream.statistics"):
        f_ = ctx.fn(q_, MEM)
        ok = bool(ctx.sites(f_, "return self._state.statistics()")) or any(bf is f_ for bf, _ in builds)
        ctx.ob("R13-a", f_, f"{q_} reports the shared state", ok, detail="" if ok else "neither delegates to the state's statistics() nor builds the record itself", by=("delegation / construction",))

    # ---- R13-c error table ------------------------------------------------------------------------------------------
    rn = ctx.fn("MemoryObjectReceiveStream.receive_nowait", MEM)
    rv = ctx.fn("MemoryObjectReceiveStream.receive", MEM)
    sn = ctx.fn("MemoryObjectSendStream.send_nowait", MEM)
    sd = ctx.fn("MemoryObjectSendStream.send", MEM)
    rc = ctx.fn("MemoryObjectReceiveStream.clone", MEM)
    sc = ctx.fn("MemoryObjectSendStream.clone", MEM)
    table = {
        (rn.qual, "ClosedResourceError"): [["self._closed"]],
        (sn.qual, "ClosedResourceError"): [["self._closed"]],
        (rc.qual, "ClosedResourceError"): [["self._closed"]],
        (sc.qual, "ClosedResourceError"): [["self._closed"]],
        (rn.qual, "EndOfStream"): [["not self._state.buffer", "not self._state.open_send_channels", "not self._state.waiting_senders", "not self._closed"],
                                   ["not self._state.buffer", "self._state.open_send_channels == 0", "not self._state.waiting_senders", "not self._closed"]],
        (rn.qual, "WouldBlock"): [["not self._state.buffer", "self._state.open_send_channels", "not self._closed"],
                                  ["not self._state.buffer", "not self._state.open_send_channels == 0", "not self._closed"]],
        (rv.qual, "EndOfStream"): [[("@exc", "AttributeError")]],
        (sn.qual, "BrokenResourceError"): [["not self._state.open_receive_channels", "not self._closed"],
                                           ["self._state.open_receive_channels == 0", "not self._closed"]],
        (sn.qual, "WouldBlock"): [["not len(self._state.buffer) < self._state.max_buffer_size", "not self._state.waiting_receivers",
                                   "self._state.open_receive_channels", "not self._closed"]],
        (sd.qual, "BrokenResourceError"): "still-registered",
    }
    seen = set()
    for f in (rn, rv, sn, sd, rc, sc):
        for n in own_walk(f.node):
            if not isinstance(n, ast.Raise) or n.exc is None:
                continue
            cls = exc_name(n.exc)
            if cls not in ("ClosedResourceError", "EndOfStream", "BrokenResourceError", "WouldBlock"):
                continue
            key = (f.qual, cls)
            if ctx.reachable(f, n):
                seen.add(key)
            spec = table.get(key)
            if spec is None:
                ctx.ob("R13-c", f, f"raise {cls} fits the error table", False,
                       detail=f"`{norm(n)}` in {f.qual}: this error class has no entry for this function in the error table", node=n)
            elif spec == "still-registered":
                # on every path to this raise the sender has, since its last suspension, found its own registration still present
                # (path automaton rather than a fact at the raise: the deregistration that precedes the raise kills the fact)
                from sa.engine.facts import atom as _atom

                def is_reg_test(frag, node):
                    return node.kind == "test" and _atom(node.node)[0].endswith(" in self._state.waiting_senders")

                def is_this_raise(frag, node, n=n):
                    return node.kind == "raise" and node.node is n

                def is_reg_del(frag, node):
                    # EAFP spelling of the same test: `try: del q[ev] except KeyError: ... else: raise` - the deletion succeeded, so the
                    # registration was still there
                    if frag is None or not find_all("del self._state.waiting_senders[$E]", frag):
                        return False
                    cur = getattr(frag, "_parent", None)
                    prev = frag
                    while cur is not None and cur is not f.node:
                        if isinstance(cur, ast.Try) and prev in cur.body and any(
                                set(handler_names(h)) & {"KeyError", "LookupError"} for h in cur.handlers):
                            return True
                        prev, cur = cur, getattr(cur, "_parent", None)
                    return False

                def step_sr(st, e, c):
                    if e == "regdel":
                        return True if not c.is_exc else st
                    if e == "susp":
                        return False if not c.is_exc else st
                    if e == "regtest" and not c.is_exc:
                        k = _atom(c.node.node)[0]
                        return True if (k, True) in c.facts else st
                    if e == "raise_here" and not st:
                        return Bad("send raises BrokenResourceError without having found its own registration still present after the wake-up")
                    return st

                ctx.paths("R13-c", f, [("susp", "await $X"), ("regtest", [is_reg_test]), ("regdel", [is_reg_del]), ("raise_here", [is_this_raise])], step_sr, False, None,
                          instance="BrokenResourceError from send only if the woken sender is still registered")
            else:
                ctx.require_at("R13-c", f, n, spec, instance=f"raise {cls} tells the truth", what=f"raise {cls}")
    for key in table:
        ok = key in seen
        ctx.ob("R13-c", key[0] if False else ctx.fn(key[0], MEM), f"{key[1]} is raised by {key[0]}", ok,
               detail="" if ok else f"{key[0]} no longer raises {key[1]} (callers would block or get a wrong error instead)", by=("raise site present",))
    # converse: everything else these operations do happens on an open handle, with the peer side open where required
    for f, extra in ((rn, []), (sn, ["self._state.open_receive_channels"])):
        for n in own_walk(f.node):
            if isinstance(n, ast.Return):
                alts = [["not self._closed"] + extra]
                if extra:
                    alts.append(["not self._closed", "not self._state.open_receive_channels == 0"])
                ctx.require_at("R13-c", f, n, alts, instance="normal completion only on an open handle" + (" with an open peer side" if extra else ""))
    for st, _ in ctx.sites(sn, "self._state.buffer.append($X)") + ctx.sites(sn, "$R.item = $X"):
        ctx.require_at("R13-c", sn, st, [["not self._closed", "self._state.open_receive_channels"],
                                        ["not self._closed", "not self._state.open_receive_channels == 0"]],
                       instance="an item is accepted only while a receive handle is open")

    # ---- R13-d `async for` ends exactly on EndOfStream (a closed own handle is an error, not a clean end) -----------------------------
    from .common import iteration_protocol
    iteration_protocol(ctx, "R13-d", "UnreliableObjectReceiveStream")

    # ---- R13-e "about to be cancelled" (the test by which send_nowait skips a receiver, whose wake-up then never comes) is computed by a
    # correct walk of the scope chain: a receiver waiting in a plain scope inside a shield inside a cancelled scope is *not* about to be
    # cancelled (shared with C04/R04-a)
    from .walkers import check_walker
    from .common import A as _A
    check_walker(ctx, "R13-e", ctx.fn("CancelScope._effectively_cancelled", _A))

    # ---- R13-f a blocked receive() ends with EndOfStream exactly when it is released without an item: the only code that may take a
    # receiver out of waiting_receivers is send_nowait (which fills its slot first), the receiver's own clean-up, and the close of the
    # *last send clone*; symmetrically for blocked senders and the last receive clone (shared with C12/R12-e)
    S_, R_ = "MemoryObjectSendStream", "MemoryObjectReceiveStream"
    writer_table(ctx, "R13-f", "waiting_receivers", {f"{S_}.send_nowait": {"call:popitem"}, f"{S_}.close": {"call:clear", "call:popitem"},
                                                     f"{R_}.receive": {"subscript", "call:pop"}}, floor=4, modules=[MEM])
    writer_table(ctx, "R13-f", "waiting_senders", {f"{R_}.receive_nowait": {"call:popitem"}, f"{R_}.close": {"call:clear"},
                                                   f"{S_}.send": {"subscript", "call:pop"}}, floor=4, modules=[MEM])
    # (reading the queue to wake its events is a release as well: an `.set()` on events taken from a queue occurs only in those functions)
    for cls_, q_, allowed in ((R_, "waiting_receivers", {f"{S_}.send_nowait", f"{S_}.close"}), (S_, "waiting_senders", {f"{R_}.receive_nowait", f"{R_}.close"})):
        for f_ in ctx.repo.funcs_in(MEM):
            reads = [n_ for n_ in own_walk(f_.node) if isinstance(n_, ast.Attribute) and n_.attr == q_]
            sets_ = [n_ for n_ in own_walk(f_.node) if isinstance(n_, ast.Call) and isinstance(n_.func, ast.Attribute) and n_.func.attr == "set"]
            if reads and sets_:
                ok = f_.qual in allowed
                ctx.ob("R13-f", f_, f"events of {q_} are set only by the peer's hand-over and the last close of the other side", ok, node=sets_[0],
                       by=(f_.qual,), detail="" if ok else f"{f_.qual} reads {q_} and sets events: tasks blocked there are released although the "
                                                          "other side still has open handles")

    # ---- R13-g a receiver is skipped by send_nowait only if *it* is about to be cancelled (the verdict is about the snapshot's own task and
    # scope): a healthy receiver that is dropped is never woken, not even by the close of the last sender (shared with C12/R12-h)
    from .common import shared_rules
    shared_rules(ctx, "c12", {"R12-h": "R13-g"})

    # ---- R13-h a handle's share of the clone count is given back only by an explicit close (`close()`, `aclose()`, leaving the `with`
    # block): nothing else in the module - a finaliser in particular, which also runs for objects that were never counted (copies) - calls
    # `self.close()`; the finaliser only warns
    n_cl = 0
    for cls_ in ("MemoryObjectReceiveStream", "MemoryObjectSendStream"):
        for nm_, f_ in ctx.repo.methods(cls_, MEM).items():
            calls_ = [x for x in own_walk(f_.node) if isinstance(x, ast.Call) and norm(x.func) in ("self.close", "self.aclose")]
            if not calls_:
                continue
            n_cl += 1
            ok = nm_ in ("aclose", "__exit__", "__aexit__")
            ctx.ob("R13-h", f_, f"{cls_}.{nm_} may close the handle", ok, node=calls_[0], by=(nm_,),
                   detail="" if ok else f"{cls_}.{nm_} calls `{norm(calls_[0])}`: the clone count changes although nobody closed the handle "
                                        "(a garbage-collected copy would end the stream for the live handles)")
    ctx.floor("R13-h", "methods that close their own handle", n_cl, 4)
