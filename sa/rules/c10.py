"""C10 — Semaphore and CapacityLimiter: permits are conserved and never over-granted."""
from __future__ import annotations

import ast

from sa.engine.facts import Bad, F
from sa.engine.pattern import P, find_all, u, dump
from sa.engine.source import norm, own_walk
from .common import A, checkpoint_typestate, is_current_task, queue_ends, writer_table, dominates_all_exits

EXPLANATION = ("Semaphore / CapacityLimiter (asyncio backend): every grant site is guarded by a free-capacity fact that survives to the "
               "write, FIFO queue ends, cancel-safe waiter protocol, undo symmetry, release outcome, reported numbers, writer tables."
               " The over-release guard covers the hand-over to a waiter as well as the increment; a dequeued waiter is dropped only if its wait was cancelled; the shared constructor rejects a negative initial value and a max_value below it on every path and both concrete classes construct through it; `async with` cannot fail once it has acquired."
               " An undo gives back only a token this call was granted (the acquire's own errors are not undone); a stored total is a non-negative int or +inf (never NaN).")
NOT_DECIDED = ("Conservation over whole histories follows from the per-site rules only by a paper argument; real-valued totals other "
               "than the inf case, schedules and loop configurations are not explored.")

CAP_FREE = "len(self._borrowers) < self._total_tokens"


def limiter_methods(ctx):
    return {k: ctx.fn(f"CapacityLimiter.{k}", A) for k in
            ("total_tokens@setter", "acquire_on_behalf_of_nowait", "acquire_on_behalf_of",
             "release_on_behalf_of", "release", "__aexit__", "__aenter__", "acquire", "acquire_nowait", "borrowed_tokens",
             "available_tokens", "total_tokens", "statistics")}


def grants_capacity_guarded(ctx, rule, L=None):
    """every site that makes somebody a borrower is reached only while a token is free (borrowers < total)"""
    L = L or limiter_methods(ctx)
    grants = []
    for nm, f in L.items():
        for st, env in ctx.sites(f, "self._borrowers.add($X)"):
            grants.append((nm, f, st, env))
    ctx.floor(rule, "grant sites `_borrowers.add` of CapacityLimiter", len(grants), 3)
    for nm, f, st, env in grants:
        x = u(env["X"])
        if nm == "acquire_on_behalf_of_nowait":
            dnf = [[CAP_FREE, "not self._wait_queue", f"not {x} in self._borrowers"]]
            what = "direct grant (free token, nobody queued, not already a borrower)"
        else:
            dnf = [[CAP_FREE]]
            what = "grant to a queued waiter only while a token is free"
        ctx.require_at(rule, f, st, dnf, instance=what, what="grant")
        if nm != "acquire_on_behalf_of_nowait":
            # the granted borrower is the one dequeued from the head, and its event is set
            deq = ctx.sites(f, "$B, $E = self._wait_queue.popitem(last=False)", env={"B": env["X"]})
            ok = bool(deq)
            ev = u(deq[0][1]["E"]) if ok else "?"
            sets = ctx.sites(f, f"{ev}.set()") if ok else []
            ctx.ob(rule, f, "woken waiter is the granted borrower", ok and bool(sets),
                   detail="" if ok and sets else f"`{norm(st)}`: the borrower granted a token is not the (borrower, event) pair dequeued from the head of _wait_queue with its event set",
                   node=st, by=("popitem(last=False)", "event.set()"))



def check(ctx):
    # ================================================================== CapacityLimiter
    L = {k: ctx.fn(f"CapacityLimiter.{k}", A) for k in
         ("total_tokens@setter", "acquire_on_behalf_of_nowait", "acquire_on_behalf_of",
          "release_on_behalf_of", "release", "__aexit__", "__aenter__", "acquire", "acquire_nowait", "borrowed_tokens",
          "available_tokens", "total_tokens", "statistics")}

    # ---- R10-a every grant is capacity-guarded
    grants_capacity_guarded(ctx, "R10-a", L)

    # the double-borrow and WouldBlock guards of the direct path
    f = L["acquire_on_behalf_of_nowait"]
    rt = ctx.sites(f, "raise RuntimeError($*A)")
    ok = any(all(F("borrower in self._borrowers")[0] == k and p for (k, p) in [next(((k, p) for (k, p) in fa if "in self._borrowers" in k), ("", False))])
             for st, _ in rt for fa in ctx.facts_at(f, st))
    ctx.ob("R10-a", f, "a borrower cannot hold two tokens", ok,
           detail="" if ok else "no RuntimeError raised under `borrower in self._borrowers`", by=("borrower in self._borrowers",))

    # ---- R10-c FIFO
    queue_ends(ctx, "R10-c", "CapacityLimiter", "_wait_queue", A)
    queue_ends(ctx, "R10-c", "Semaphore", "_waiters", A)

    # ---- R10-d / R10-e cancel-safe limiter waiter, undo symmetry
    f = L["acquire_on_behalf_of"]
    eff = ctx.sites(f, "self.acquire_on_behalf_of_nowait($B)")
    if ctx.need("R10-d", f, "direct attempt `self.acquire_on_behalf_of_nowait(borrower)`", len(eff), 1):
        b = eff[0][1]["B"]
        bt = u(b)
        params = [a.arg for a in f.node.args.args]
        ctx.ob("R10-e", f, "the token is acquired for the `borrower` argument", isinstance(b, ast.Name) and b.id in params[1:2],
               detail=f"acquire_on_behalf_of_nowait is called with `{bt}`, not with the borrower parameter", node=eff[0][0],
               by=("argument identity",))
        waits = [e for s, e in ctx.sites(f, "await $E.wait()")]
        regs = ctx.sites(f, f"self._wait_queue[{bt}] = $E")
        ctx.need("R10-d", f, "registration `self._wait_queue[borrower] = event`", len(regs), 1)
        checkpoint_typestate(
            ctx, "R10-d", f,
            effects=[f"self.acquire_on_behalf_of_nowait({bt})"],
            regs=[f"self._wait_queue[{bt}] = $E"],
            undos=[f"self.release_on_behalf_of({bt})", f"self._wait_queue.pop({bt}, None)", "self.release()"],
            blocks=["await $E.wait()"], instance="CapacityLimiter.acquire_on_behalf_of", native=True)
        # R10-e: an undo gives back only a token that *this call* was granted: the direct attempt can also fail with the errors the
        # non-blocking acquire raises itself (a borrower that already holds a token gets RuntimeError) - a handler that releases on
        # those gives away the token the borrower legitimately holds
        nw = L["acquire_on_behalf_of_nowait"]
        own_raises = {ast.unparse(r.exc.func if isinstance(r.exc, ast.Call) else r.exc) for r in own_walk(nw.node) if isinstance(r, ast.Raise) and r.exc is not None}

        def raises_of(stmt, own_raises=own_raises, bt=bt):
            return set(own_raises) if any(isinstance(x, ast.Call) and norm(x) == f"self.acquire_on_behalf_of_nowait({bt})" for x in ast.walk(stmt)) else set()

        def step_g(st, e, c):
            if e == "grant":
                return st if c.is_exc else True
            if e == "woken":
                return st if c.is_exc else True       # (a completed wait means a releaser made us a borrower)
            if e == "undo" and not st:
                return Bad("a token is released for the borrower although this call was never granted one (the failure came from the acquire itself): "
                           "a borrower that already held a token loses it")
            return st

        ctx.paths("R10-e", f, [("grant", f"self.acquire_on_behalf_of_nowait({bt})"), ("woken", "await $E.wait()"),
                               ("undo", [f"self.release_on_behalf_of({bt})", "self.release()"])],
                  step_g, False, None, native=True, extra_raises=raises_of, instance="an undo gives back only what this call acquired")
        # R10-e: the undo of the fast path releases the same borrower
        undo_sites = ctx.sites(f, "self.release()") + ctx.sites(f, "self.release_on_behalf_of($X)")
        ctx.need("R10-e", f, "undo of an interrupted fast-path acquire", len(undo_sites), 1)
        for st, env in undo_sites:
            x = env.get("X")
            ok = x is not None and dump(x) == dump(b)
            ctx.ob("R10-e", f, "undo releases the borrower that was granted the token", ok,
                   detail="" if ok else f"`{norm(st)}` releases on behalf of the *current task*, but the token was acquired for `{bt}` "
                   f"(acquire_on_behalf_of_nowait({bt})): with a foreign borrower the token leaks and a RuntimeError masks the cancellation",
                   node=st, by=(f"same argument {bt}",))

        # woken-then-cancelled waiter gives the token back and passes it on
        def step(st, e, c):
            disc, noti, intr = st
            if e == "wait" and c.is_exc:
                return (disc, noti, True)
            if c.is_exc:
                return st
            if e == "discard":
                return (True, noti, intr)
            if e == "notify":
                if not disc:
                    return Bad("next waiter notified before the cancelled waiter's token was returned")
                return (disc, True, intr)
            return st

        def nothing_to_grant(facts):
            # passing the token on = granting it to the head waiter; nothing to do if nobody queues or no token is free
            return ("self._wait_queue", False) in facts or (F(CAP_FREE)[0], not F(CAP_FREE)[1]) in facts

        evname = u(waits[0]["E"]) if waits else "event"
        setk = F(f"{evname}.is_set()")

        def at_exit(kind, st, facts):
            disc, noti, intr = st
            if intr and kind == "return":
                return "interrupted wait does not re-raise"
            if intr and setk in facts and not (disc and (noti or nothing_to_grant(facts))):
                return "a waiter that was already granted a token leaves without returning it and notifying the next waiter"
            if intr and (setk[0], False) in facts and (disc or noti):
                return "a waiter that was never granted a token gives one back"
            if intr and setk not in facts and (setk[0], False) not in facts:
                return "an interrupted waiter leaves without checking whether it had already been granted a token (event set)"
            return None

        ctx.paths("R10-d", f, [("wait", "await $E.wait()"), ("discard", f"self._borrowers.discard({bt})"),
                               ("notify", "self._borrowers.add($X)")], step, (False, False, False), at_exit,
                  instance="granted-then-cancelled waiter", native=True)

    # ---- R10-f release
    f = L["release_on_behalf_of"]
    rm = ctx.sites(f, "self._borrowers.remove($B)")
    ctx.need("R10-f", f, "`self._borrowers.remove(borrower)`", len(rm), 1)

    def step(st, e, c):
        rem, noti = st
        if e == "remove":
            return (rem + (0 if c.is_exc else 1), noti)
        if e == "notify" and not c.is_exc:
            if rem != 1:
                return Bad("next waiter notified although no token was returned")
            return (rem, noti + 1)
        return st

    def at_exit(kind, st, facts):
        rem, noti = st
        nothing = ("self._wait_queue", False) in facts or (F(CAP_FREE)[0], not F(CAP_FREE)[1]) in facts
        if kind == "return" and not (rem == 1 and (noti == 1 or (noti == 0 and nothing))):
            return f"release returns after {rem} removal(s) and {noti} grant(s) to the next waiter (required: one removal, then the freed token goes to the head waiter if one queues)"
        if kind != "return" and (rem or noti):
            return "release raises after having returned the token"
        if kind not in ("return", "raise:RuntimeError"):
            return f"release by a non-borrower surfaces as {kind}, not RuntimeError"
        return None

    ctx.paths("R10-f", f, [("remove", "self._borrowers.remove($B)"), ("notify", "self._borrowers.add($X)")], step, (0, 0),
              at_exit, instance="release_on_behalf_of outcome")
    dominates_all_exits(ctx, "R10-f", L["__aexit__"], "self.release()", "CapacityLimiter.__aexit__ releases unconditionally",
                        exits=("return",), count=1)
    for nm, callee in (("release", "self.release_on_behalf_of(current_task())"), ("acquire_nowait", "self.acquire_on_behalf_of_nowait(current_task())"),
                       ("acquire", "await self.acquire_on_behalf_of(current_task())"), ("__aenter__", "await self.acquire()")):
        s = ctx.sites(L[nm], callee)
        ctx.ob("R10-f", L[nm], f"delegation {nm} -> {callee}", len(s) == 1,
               detail="" if len(s) == 1 else f"CapacityLimiter.{nm} does not delegate to `{callee}`", by=(callee,))

    # ---- R10-g reported numbers and writer tables
    for nm, expr in (("borrowed_tokens", "return len(self._borrowers)"), ("available_tokens", "return self._total_tokens - len(self._borrowers)"),
                     ("total_tokens", "return self._total_tokens")):
        s = ctx.sites(L[nm], expr)
        only = [n for n in ast.walk(L[nm].node) if isinstance(n, ast.Return)]
        ok = len(s) == 1 and len(only) == 1
        ctx.ob("R10-g", L[nm], f"{nm} reports the state fields", ok,
               detail="" if ok else f"CapacityLimiter.{nm} is not `{expr}`", by=(expr,))
    st_sites = ctx.sites(L["statistics"], "CapacityLimiterStatistics(self.borrowed_tokens, self.total_tokens, tuple(self._borrowers), len(self._wait_queue))")
    ctx.ob("R10-g", L["statistics"], "statistics() reports the state fields", len(st_sites) == 1,
           detail="" if st_sites else "CapacityLimiter.statistics() does not report (borrowed_tokens, total_tokens, borrowers, len(_wait_queue))",
           by=("CapacityLimiterStatistics(...)",))
    in_cls = lambda names: (lambda fn: fn.cls in names and fn.module.endswith(A))
    writer_table(ctx, "R10-g", "_borrowers", {
        "CapacityLimiter.__init__": {"assign"},
        "CapacityLimiter.total_tokens@setter": {"call:add"},
        # (the hand-over to the next waiter is analysed inlined at its call sites, core.INLINE_ALWAYS; every `add` is capacity-guarded, R10-a)
        "CapacityLimiter.acquire_on_behalf_of_nowait": {"call:add"},
        "CapacityLimiter.acquire_on_behalf_of": {"call:discard", "call:add"},
        "CapacityLimiter.release_on_behalf_of": {"call:remove", "call:add"},
    }, floor=5, modules=[A])
    writer_table(ctx, "R10-g", "_total_tokens", {
        "CapacityLimiter.__init__": {"assign"},
        "CapacityLimiter.total_tokens@setter": {"assign"},
    }, floor=2, modules=[A])
    writer_table(ctx, "R10-g", "_value", {
        "Semaphore.__init__": {"assign"},
        "Semaphore.acquire": {"aug"},
        "Semaphore.acquire_nowait": {"aug"},
        "Semaphore.release": {"aug"},
    }, floor=4, modules=[A], cls_filter=in_cls({"Semaphore"}))
    # the setter validates and stores
    f = L["total_tokens@setter"]
    val = f.node.args.args[1].arg
    s = ctx.sites(f, f"self._total_tokens = {val}")
    ctx.ob("R10-g", f, "setter stores the new total", len(s) == 1, detail="" if s else "the setter does not store its argument in _total_tokens",
           by=("self._total_tokens = value",))
    for st, _ in s:
        ctx.require_at("R10-g", f, st, [[f"not {val} < 0"]], instance="negative totals are rejected before the store")

    # ================================================================== Semaphore
    S = {k: ctx.fn(f"Semaphore.{k}", A) for k in ("acquire", "acquire_nowait", "release", "value", "statistics")}
    # ---- R10-b permits
    decs = []
    for nm in ("acquire", "acquire_nowait"):
        for st, env in ctx.sites(S[nm], "self._value -= 1"):
            decs.append((nm, S[nm], st))
    ctx.floor("R10-b", "permit-taking sites `_value -= 1`", len(decs), 2)
    for nm, f, st in decs:
        if nm == "acquire":
            dnf = [["0 < self._value", "not self._waiters"], ["not self._value == 0", "not self._waiters"]]
        else:
            dnf = [["0 < self._value"], ["not self._value == 0"], ["not 0 == self._value"]]
        ctx.require_at("R10-b", f, st, dnf, instance="a permit is taken only when one is free", what="permit decrement")
    f = S["release"]

    def step(st, e, c):
        wake, inc = st
        if c.is_exc:
            return st
        if e == "wake":
            return (wake + 1, inc)
        if e == "inc":
            return (wake, inc + 1)
        return st

    def at_exit(kind, st, facts):
        wake, inc = st
        if kind == "return" and wake + inc != 1:
            return f"release returns after {wake} wake-up(s) and {inc} increment(s): exactly one is required"
        if kind != "return" and wake + inc:
            return "release raises after handing out the permit"
        return None

    ctx.paths("R10-b", f, [("wake", "$F.set_result($*A)"), ("inc", "self._value += 1")], step, (0, 0), at_exit,
              instance="Semaphore.release outcome")
    for st, env in ctx.sites(f, "self._value += 1"):
        ctx.require_at("R10-b", f, st, [["not self._waiters"]], instance="value is incremented only when nobody waits")
    for st, env in ctx.sites(f, "$F.set_result($*A)"):
        fut = u(env["F"])
        ctx.require_at("R10-b", f, st, [[f"not {fut}.cancelled()"]], instance="permit handed only to a live waiter")
        if not isinstance(env["F"], ast.Name):
            # `self._waiters.popleft().set_result(None)`: the waiter is woken without a liveness test on it (reported above)
            continue
        deq = ctx.sites(f, f"{fut} = self._waiters.popleft()")
        ctx.ob("R10-b", f, "woken waiter was dequeued from the head", bool(deq),
               detail="" if deq else f"the future woken in release (`{fut}`) is not the one dequeued from _waiters", node=st, by=("popleft",))
    rs = ctx.sites(f, "raise ValueError($*A)")
    ok = False
    for st, _ in rs:
        fa = ctx.facts_at(f, st)
        if fa and all(F("self._max_value is not None") in x and (F("self._value == self._max_value") in x) for x in fa):
            ok = True
    ctx.ob("R10-b", f, "release beyond max_value is rejected", ok,
           detail="" if ok else "no ValueError raised under `_max_value is not None and _value == _max_value`", by=("max_value guard",))
    # the guard comes before any state change: no wake/inc on the raising path is covered by at_exit above
    # ... and *every* way of handing the permit back (waking a waiter as well as incrementing) is behind it: with max_value == 0 the value
    # equals max_value while tasks wait, and waking one of them creates a permit that must not exist
    under_max = [["self._max_value is None"], ["not self._value == self._max_value"], ["not self._max_value == self._value"],
                 ["self._value < self._max_value"], ["self._max_value > self._value"]]
    for pat_, what_ in (("self._value += 1", "increment"), ("$F.set_result($*A)", "wake-up of a waiter")):
        for st, env in ctx.sites(f, pat_):
            ctx.require_at("R10-b", f, st, under_max, instance=f"a permit is given back ({what_}) only below max_value", what=what_)
    # a queued waiter leaves the queue un-woken only if its wait was cancelled
    dq_ = ctx.sites(f, "$F = self._waiters.popleft()")
    futs_ = {u(e["F"]) for _, e in dq_}
    if len(futs_) == 1:
        fut1 = next(iter(futs_))
        dead = (F(f"{fut1}.cancelled()")[0], True)

        def step_d(st, e, c):
            if c.is_exc:
                # (an EAFP take that raised dequeued nothing; what was dequeued before is judged by what is known at this point)
                return False if e == "deq" and st and dead in c.facts_before else st
            if e == "deq":
                if st and dead not in c.facts_before:
                    return Bad("a dequeued waiter is discarded (not woken) although its wait was not cancelled")
                return True
            if e == "wake":
                return False
            return st

        def exit_d(kind, st, facts):
            if st and dead not in facts:
                return "release() ends having dequeued a waiter it neither woke nor found cancelled"
            return None

        ctx.paths("R10-b", f, [("deq", f"{fut1} = self._waiters.popleft()"), ("wake", f"{fut1}.set_result($*A)")], step_d, False, exit_d,
                  instance="only a waiter whose wait was cancelled is dropped from the queue")

    # ---- R10-d semaphore waiters
    acq = S["acquire"]
    futs = [e["F"] for s, e in ctx.sites(acq, "await $F") if isinstance(e["F"], ast.Name)]
    if ctx.need("R10-d", acq, "wait on the waiter future in Semaphore.acquire", len(futs), 1):
        fut = u(futs[0])
        for assume, nm in (({"self._fast_acquire": False}, "fast_acquire=False"), ({"self._fast_acquire": True}, "fast_acquire=True")):
            checkpoint_typestate(ctx, "R10-d", acq, effects=["self._value -= 1"], regs=["self._waiters.append($I)"],
                                 undos=["self.release()", "self._waiters.remove($I)"], blocks=[f"await {fut}"], assume=assume,
                                 instance=f"Semaphore.acquire [{nm}]", native=True, require_yield=not assume["self._fast_acquire"])
        for st, env in ctx.sites(acq, "self._waiters.remove($I)"):
            ctx.require_at("R10-d", acq, st, [[f"{fut}.cancelled()"]], instance="dequeue only if never woken")
        rels = [s for s, _ in ctx.sites(acq, "self.release()")]
        slow = [s for s in rels if any((F(f"{fut}.cancelled()")[0], False) in x for x in ctx.facts_at(acq, s, native=True))]
        ctx.ob("R10-d", acq, "a cancelled waiter that was already handed a permit gives it back", bool(slow),
               detail="" if slow else "no `self.release()` on the path where the waiter's future completed before the cancellation",
               by=("not fut.cancelled()",))
    s = ctx.sites(S["value"], "return self._value")
    ctx.ob("R10-g", S["value"], "value reports the counter", len(s) == 1, detail="" if s else "Semaphore.value is not `return self._value`",
           by=("return self._value",))

    # ---- R10-h public classes, adapters and `async with` agree with the backend primitives -------------------------------------------
    from .adapters import check_adapter, check_factory, check_async_with
    check_adapter(ctx, "R10-h", "SemaphoreAdapter", "_internal_semaphore", "_semaphore", "create_semaphore",
                  {"initial_value": "_initial_value", "max_value": "_max_value"}, value_members=("statistics",))
    # fast_acquire is not kept by the adapter on the pinned tree: it only changes whether an uncontended acquire yields (never fewer
    # checkpoints than documented), so its loss is not a violation of C10 and is not required here
    check_factory(ctx, "R10-h", "Semaphore", "create_semaphore", "SemaphoreAdapter", adapter_args_may_drop=("fast_acquire",))
    check_async_with(ctx, "R10-h", "Semaphore")
    check_adapter(ctx, "R10-h", "CapacityLimiterAdapter", "_internal_limiter", "_limiter", "create_capacity_limiter", {},
                  value_members=("statistics",), pre_state={"total_tokens": "self._total_tokens = $V"})
    check_factory(ctx, "R10-h", "CapacityLimiter", "create_capacity_limiter", "CapacityLimiterAdapter")

    # ---- R10-i the summary the guarded-write rules rest on (A3): checkpoint_if_cancelled() never yields and then returns normally --------
    # (a task that could be suspended between the "is it free?" test and the write would let two tasks pass the test in one cycle)
    from .walkers import check_cic, check_walker
    check_cic(ctx, "R10-i")
    check_walker(ctx, "R10-i", ctx.fn("AsyncIOBackend.checkpoint_if_cancelled", A))

    # ---- R10-j the counter starts non-negative and not above max_value (what assumption A7 and the `_value == 0` / `_value > 0` guards
    # rest on): the shared constructor rejects everything else on every path, and both concrete classes go through it with their own arguments
    from .common import SYNC as _SYNC
    binit = ctx.fn("Semaphore.__init__", _SYNC)
    a_ = binit.node.args
    pn = [x.arg for x in a_.posonlyargs + a_.args + a_.kwonlyargs]
    iv = pn[1] if len(pn) > 1 else "initial_value"
    mv = "max_value"
    ok_int, ok_neg = F(f"isinstance({iv}, int)"), (F(f"{iv} < 0")[0], False)

    def exit_v(kind, st, facts):
        if kind != "return":
            return None
        if ok_int not in facts:
            return f"the constructor accepts an `{iv}` that is not an integer"
        if ok_neg not in facts:
            return f"the constructor accepts a negative `{iv}` on this path: acquire_nowait() (guarded by `_value == 0`) then grants permits that do not exist"
        if F(f"{mv} is None") not in facts and ((F(f"{mv} < {iv}")[0], False) not in facts or F(f"isinstance({mv}, int)") not in facts):
            return f"the constructor accepts a `{mv}` below `{iv}` (or not an integer) on this path"
        return None

    ctx.paths("R10-j", binit, [], lambda st, e, c: st, 0, exit_v, instance="Semaphore(initial_value, max_value) validation is total")
    for q_, m_ in (("Semaphore.__init__", A), ("SemaphoreAdapter.__init__", _SYNC)):
        f_ = ctx.fn(q_, m_)
        p_ = [x.arg for x in f_.node.args.posonlyargs + f_.node.args.args][1:2]
        p_ = p_[0] if p_ else "initial_value"

        def is_super_init(frag, node, p_=p_):
            for c_ in (ast.walk(frag) if frag is not None else ()):
                if (isinstance(c_, ast.Call) and norm(c_.func) == "super().__init__" and [norm(x) for x in c_.args] == [p_]
                        and any(k.arg == "max_value" and norm(k.value) == "max_value" for k in c_.keywords)):
                    return True
            return False

        dominates_all_exits(ctx, "R10-j", f_, is_super_init, f"{q_} validates its arguments through the shared constructor")
    sinit = ctx.fn("Semaphore.__init__", A)
    p_ = [x.arg for x in sinit.node.args.args][1]
    for pat_ in (f"self._value = {p_}", "self._max_value = max_value"):
        dominates_all_exits(ctx, "R10-j", sinit, pat_, f"the backend semaphore starts from the validated arguments (`{pat_}`)")

    # ---- R10-k the total is an int or +inf, never NaN and never negative (every capacity comparison `len(borrowers) < total` is false
    # against NaN: nothing is ever refused and no waiter is ever woken): where `_total_tokens` is stored from a caller's value, the
    # facts on the path say so.  Both setters (backend and adapter) are checked; the constructors go through them.
    n_tt = 0
    for q_, m_ in (("CapacityLimiter.total_tokens@setter", A), ("CapacityLimiterAdapter.total_tokens@setter", _SYNC)):
        f_ = ctx.fn(q_, m_)
        vp = f_.node.args.args[1].arg
        for st_, _ in ctx.sites(f_, f"self._total_tokens = {vp}") + ctx.sites(f_, f"self._limiter.total_tokens = {vp}") + ctx.sites(f_, f"self._internal_limiter.total_tokens = {vp}"):
            n_tt += 1
            ctx.require_at("R10-k", f_, st_, [[f"isinstance({vp}, int)", f"not {vp} < 0"], [f"math.isinf({vp})", f"not {vp} < 0"], [f"{vp} == math.inf"]],
                           instance=f"{q_.split('@')[0]}: the stored total is a non-negative int or +inf (NaN passes neither test)", what="store of the total")
    ctx.floor("R10-k", "stores of a caller-supplied total", n_tt, 2)
