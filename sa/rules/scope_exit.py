"""R04-c / R02-e — what CancelScope.__exit__ absorbs (shared by C02 and C04)."""
from __future__ import annotations

import ast

from sa.engine.facts import F
from sa.engine.pattern import P, u
from sa.engine.source import norm, own_walk
from .common import A, writer_table

OWN = ["self._cancel_called", "not self._parent_cancellation_is_visible_to_us"]


def scope_exit_filter(ctx, rule):
    ex = ctx.fn("CancelScope.__exit__", A)
    ev = ex.node.args.args[2].arg  # exc_val
    single = OWN + [f"isinstance({ev}, CancelledError)", f"is_anyio_cancellation({ev})", f"not isinstance({ev}, BaseExceptionGroup)"]
    # split call
    sp = ctx.sites(ex, f"$C, $R = {ev}.split($L)")
    if not ctx.need(rule, ex, "exception-group split `cancelleds_caught, remaining = exc_val.split(<predicate>)`", len(sp), 1):
        return
    cc, rem, lam = u(sp[0][1]["C"]), u(sp[0][1]["R"]), sp[0][1]["L"]
    ok = False
    if isinstance(lam, ast.Lambda) and isinstance(lam.body, ast.BoolOp) and isinstance(lam.body.op, ast.And) and lam.args.args:
        a = lam.args.args[0].arg
        conj = {F(ast.unparse(v)) for v in lam.body.values}
        ok = conj == {F(f"isinstance({a}, CancelledError)"), F(f"is_anyio_cancellation({a})")}
    ctx.ob(rule, ex, "the split predicate selects exactly AnyIO cancellations (CancelledError and is_anyio_cancellation)", ok,
           detail="" if ok else f"split predicate is `{norm(lam)}`: it must conjoin isinstance(e, CancelledError) and is_anyio_cancellation(e) "
           "(otherwise native cancellations or other errors are swallowed)", node=sp[0][0], by=("conjunct set",))
    grp = OWN + [f"isinstance({ev}, BaseExceptionGroup)", f"not {cc} is None"]
    dnf_true = [single, grp + [f"{rem} is None"]]
    rets = [n for n in own_walk(ex.node) if isinstance(n, ast.Return)]
    n_true = 0
    for r in rets:
        v = r.value
        if isinstance(v, ast.Constant) and v.value is True:
            n_true += 1
            ctx.require_at(rule, ex, r, dnf_true, instance="absorb only an own, not outwardly visible AnyIO cancellation", what="return True")
        elif isinstance(v, ast.Constant) and v.value is False:
            ctx.ob(rule, ex, "other exits do not swallow", True, node=r, by=("return False",))
        else:
            ctx.ob(rule, ex, "__exit__ returns a literal verdict", False, detail=f"`{norm(r)}`: the verdict is not a literal True/False", node=r)
    ctx.need(rule, ex, "`return True` sites (single exception and exception group)", n_true, 2)
    rr = [s for s, e in ctx.sites(ex, "raise $X") if u(e["X"]) == rem]
    if ctx.need(rule, ex, "`raise remaining` (re-raise what was not an AnyIO cancellation)", len(rr), 1):
        ctx.require_at(rule, ex, rr[0], [grp + [f"not {rem} is None"]], instance="the remainder of the group is re-raised, not dropped",
                       what="raise remaining")
    marks = ctx.sites(ex, "self._cancelled_caught = True")
    ctx.need(rule, ex, "`self._cancelled_caught = True` sites", len(marks), 2)
    for st, _ in marks:
        ctx.require_at(rule, ex, st, [single, grp], instance="cancelled_caught set exactly when something was absorbed",
                       what="_cancelled_caught = True")
    writer_table(ctx, rule, "_cancelled_caught", {"CancelScope.__init__": {"assign"}, "CancelScope.__exit__": {"assign"}}, floor=3, modules=[A])
    # converse: whenever an own AnyIO cancellation arrives at an exit that is not visible from outside, it IS absorbed
    for r in rets:
        v = r.value
        if isinstance(v, ast.Constant) and v.value is False:
            fa = ctx.facts_at(ex, r)
            bad = [x for x in fa if all(F(t) in x for t in single)]
            ctx.ob(rule, ex, "an own AnyIO cancellation is not let through", not bad,
                   detail="" if not bad else "`return False` reachable although the exception is this scope's own AnyIO cancellation and no parent cancellation is visible",
                   node=r, by=("no state with all absorb facts",))
    # the absorbing paths set cancelled_caught first
    from sa.engine.facts import Bad

    def step(st, e, c):
        if e == "mark" and not c.is_exc:
            return True
        if e == "ret_true" and not st:
            return Bad("returns True without having set _cancelled_caught")
        if e == "raise_rem" and not st:
            return Bad("the scope's own cancellation was split out of the group and swallowed, the rest re-raised, but cancelled_caught is not set")
        return st

    ctx.paths(rule, ex, [("mark", "self._cancelled_caught = True"), ("ret_true", "return True"), ("raise_rem", f"raise {rem}")], step, False,
              lambda k, s, f: None, instance="cancelled_caught precedes every absorbing exit (return True, or re-raising only the remainder)")
