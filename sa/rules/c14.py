"""C14 — to_thread.run_sync: faithful results, bounded threads, cancellation handled."""
from __future__ import annotations

import ast
import itertools

from sa.engine.cfg import call_name
from sa.engine.facts import Bad, F
from sa.engine.pattern import u, find_all
from sa.engine.source import norm, own_walk, stmt_of, AnalysisError
from .common import A, lexically_inside, enclosing, checkpoint_typestate, dominates_all_exits, block_head
from .walkers import check_walker

EXPLANATION = ("to_thread.run_sync: the dispatch to the worker and the wait for its future happen only while a token of the chosen limiter "
               "(argument, else the default limiter) is held, and the limiter's async exit releases unconditionally; the wait is shielded "
               "exactly when abandon_on_cancel is false; the scope handed to the thread is the caller's enclosing scope unless abandoned; a "
               "new worker is started before work is queued, a reused one comes from the idle deque; the tuple put on the worker queue and "
               "its unpacking agree position by position; the thread runs the function in the caller's copied context, captures every "
               "exception, publishes the scope for check_cancelled around the call only, and reports (future, result, exception) to a "
               "callback that sets exactly one of them on a non-cancelled future; from_thread.run/run_sync resolve their concurrent future on "
               "every path and return its result; the public wrappers forward their arguments; only WorkerThread.stop queues the shutdown sentinel and it takes the worker out of the idle deque on every returning path (a stopped worker is never handed work); the loop-independent CapacityLimiter adapter forwards every member, the total_tokens setter included, to the backend limiter it materialised.")
NOT_DECIDED = ("Real thread timing (the race between the report callback and a cancellation of the caller), pruning of idle workers, "
               "the number of OS threads, uvloop.")

TT = "to_thread.py"
FT = "from_thread.py"


def evalbool(e, env):
    """evaluate a boolean expression over atoms whose truth is given by env (key = unparsed atom)"""
    if isinstance(e, ast.BoolOp):
        vals = [evalbool(v, env) for v in e.values]
        if any(v is None for v in vals):
            return None
        return all(vals) if isinstance(e.op, ast.And) else any(vals)
    if isinstance(e, ast.UnaryOp) and isinstance(e.op, ast.Not):
        v = evalbool(e.operand, env)
        return None if v is None else (not v)
    if isinstance(e, ast.Constant):
        return bool(e.value)
    if isinstance(e, ast.Compare) and len(e.ops) == 1 and isinstance(e.ops[0], (ast.Is, ast.IsNot)) \
            and isinstance(e.comparators[0], ast.Constant) and e.comparators[0].value is None:
        k = ast.unparse(e.left) + " is None"
        if k in env:
            return env[k] if isinstance(e.ops[0], ast.Is) else (not env[k])
        return None
    k = ast.unparse(e)
    return env.get(k)


def _worker_scope(ctx, rule, rs, ws, sname, p_abandon):
    """which scope is handed to the worker thread (it is what from_thread.check_cancelled / from_thread.run attach to)"""
    # value of the scope variable on every path into the hand-over, against the facts that hold there
    inner, outer = sname, f"{sname}._parent_scope"
    if isinstance(ws, ast.Name):
        def is_assign(frag, node, name=ws.id):
            n = node.node
            return node.kind == "stmt" and isinstance(n, (ast.Assign, ast.AnnAssign, ast.AugAssign)) and \
                any(isinstance(t, ast.Name) and t.id == name for t in (n.targets if isinstance(n, ast.Assign) else [n.target]))

        def step_w(st, e, c):
            if c.is_exc:
                return st
            if e == "assign":
                n = c.node.node
                return ast.unparse(n.value) if isinstance(n, (ast.Assign, ast.AnnAssign)) and n.value is not None else "?"
            if e == "put":
                return judge(st, c.facts)
            return st
        spec = [("assign", [is_assign]), ("put", "$W.queue.put_nowait($T)")]
        init = None
    else:
        def step_w(st, e, c):
            if e == "put" and not c.is_exc:
                if isinstance(ws, ast.IfExp):
                    return Bad("the scope handed to the worker is selected by an expression the rule cannot evaluate")
                return judge(ast.unparse(ws), c.facts)
            return st
        spec = [("put", "$W.queue.put_nowait($T)")]
        init = None

    def judge(val, facts):
        if val == inner:
            if F(p_abandon) in facts or F(f"{sname}._parent_scope is None") in facts:
                return val
            return Bad(f"the thread is handed the call's own (shielded) scope `{inner}` although the call is not abandoned on cancel and an enclosing "
                       "scope exists: from_thread.check_cancelled() and from_thread.run() would never see the caller's cancellation")
        if val == outer:
            if F(f"not {p_abandon}") in facts and F(f"{sname}._parent_scope is not None") in facts:
                return val
            return Bad(f"the thread is handed `{outer}` on a path where the call may be abandoned on cancel or there may be no enclosing scope")
        return Bad(f"the scope handed to the worker is `{val}`: required is the call's own scope when abandoning (or when there is no enclosing scope) and "
                   "its direct parent otherwise - a scope further out ignores the caller's shields, none at all hides its cancellation")

    ctx.paths(rule, rs, spec, step_w, init, None,
              instance="the thread is given the caller's directly enclosing scope unless abandoned (its own shielded scope would hide the caller's cancellation)")


def _thread_call_anchors(ctx):
    rs = ctx.fn("AsyncIOBackend.run_sync_in_worker_thread", A)
    fn = rs.node
    pnames = [a.arg for a in fn.args.args]
    if len(pnames) < 5:
        raise AnalysisError("R14: run_sync_in_worker_thread no longer takes (cls, func, args, abandon_on_cancel, limiter)")
    p_abandon, p_lim = pnames[3], pnames[4]
    limw = None
    for w in [n for n in own_walk(fn) if isinstance(n, ast.AsyncWith)]:
        if p_lim in {x.id for x in ast.walk(w.items[0].context_expr) if isinstance(x, ast.Name)}:
            limw = w
    sw = [n for n in own_walk(fn) if isinstance(n, ast.With) and any(isinstance(i.context_expr, ast.Call) and call_name(i.context_expr) == "CancelScope" for i in n.items)]
    return rs, p_abandon, limw, sw


def worker_scope(ctx, rule):
    """(shared with C04) the scope published to the worker thread never lies outside the caller's own shields"""
    rs, p_abandon, limw, sw = _thread_call_anchors(ctx)
    tup = None
    for st, env in ctx.sites(rs, "$W.queue.put_nowait($T)"):
        if isinstance(env["T"], ast.Tuple):
            tup = env["T"]
    sname = sw[0].items[0].optional_vars.id if len(sw) == 1 and isinstance(sw[0].items[0].optional_vars, ast.Name) else None
    if ctx.need(rule, rs, "hand-over tuple and the call's own scope in run_sync_in_worker_thread", 1 if (tup is not None and len(tup.elts) == 5 and sname) else 0, 1):
        _worker_scope(ctx, rule, rs, tup.elts[4], sname, p_abandon)


def token_wait_interruptible(ctx, rule):
    """(shared with C03) the wait for a limiter token happens outside the call's internal shield: a caller queued for a token can still
    be cancelled"""
    rs, p_abandon, limw, sw = _thread_call_anchors(ctx)
    if ctx.need(rule, rs, "limiter block and internal scope of run_sync_in_worker_thread", 1 if (limw is not None and len(sw) == 1) else 0, 1):
        ok = any(x is sw[0] for x in ast.walk(limw)) and not any(x is limw for x in ast.walk(sw[0]))
        ctx.ob(rule, rs, "the token is awaited outside the internal (shielded) scope", ok, node=sw[0],
               detail="" if ok else "the limiter block is inside the shielded scope: a caller waiting for a token cannot be interrupted", by=("nesting",))


def cancellable_alias(ctx, rule):
    """(shared with C03) to_thread.run_sync(cancellable=...) is taken over into abandon_on_cancel before the backend call"""
    tt = ctx.fn("run_sync", TT)
    # the documented alias: `cancellable=` overrides `abandon_on_cancel` whenever it is given (a dropped assignment would make the
    # wait shielded although the caller asked for an abandonable call)
    pnames_tt = [a_.arg for a_ in tt.node.args.kwonlyargs]
    if "cancellable" in pnames_tt:
        def step_al(st, e, c):
            return True if (e == "alias" and not c.is_exc) else st

        def at_exit_al(kind, st, facts):
            return None

        def step_call(st, e, c):
            if e == "alias" and not c.is_exc:
                return True
            if e == "call" and not st and F("cancellable is None") not in c.facts_before:
                return Bad("the backend is called with abandon_on_cancel although `cancellable` may have been given and was not taken over "
                           "(to_thread.run_sync(fn, cancellable=True) would wait under the internal shield)")
            return st

        ctx.paths(rule, tt, [("alias", "abandon_on_cancel = cancellable"), ("call", "await get_async_backend().run_sync_in_worker_thread($*A)")],
                  step_call, False, None, instance="the deprecated `cancellable=` alias is taken over into abandon_on_cancel before the backend call")



def check(ctx):
    rs = ctx.fn("AsyncIOBackend.run_sync_in_worker_thread", A)
    fn = rs.node
    pnames = [a.arg for a in fn.args.args]
    if len(pnames) < 5:
        raise AnalysisError("R14: run_sync_in_worker_thread no longer takes (cls, func, args, abandon_on_cancel, limiter)")
    _, p_func, p_args, p_abandon, p_lim = pnames[:5]

    # ---- R14-a token held around the call ------------------------------------------------------------------------------------------
    aws = [n for n in own_walk(fn) if isinstance(n, ast.AsyncWith)]
    limw = None
    for w in aws:
        ce = w.items[0].context_expr
        names = {x.id for x in ast.walk(ce) if isinstance(x, ast.Name)}
        if p_lim in names:
            limw = w
    if not ctx.need("R14-a", rs, f"`async with {p_lim} or <default limiter>`", 1 if limw is not None else 0, 1):
        return
    ce = limw.items[0].context_expr
    ok = isinstance(ce, ast.BoolOp) and isinstance(ce.op, ast.Or) and len(ce.values) == 2 and getattr(ce.values[0], "id", "") == p_lim \
        and "current_default_thread_limiter" in ast.unparse(ce.values[1])
    ctx.ob("R14-a", rs, "the token is taken from the limiter argument, else from the default thread limiter", ok, node=limw,
           detail="" if ok else f"`{norm(limw)}` does not select `{p_lim} or <default thread limiter>`", by=(ast.unparse(ce),))
    puts = ctx.sites(rs, "$W.queue.put_nowait($T)")
    waits = [n for n in own_walk(fn) if isinstance(n, ast.Await) and isinstance(n.value, ast.Name)]
    ctx.need("R14-a", rs, "dispatch `worker.queue.put_nowait(...)`", len(puts), 1)
    ctx.need("R14-a", rs, "wait `await future`", len(waits), 1)

    def inside(n, w):
        return lexically_inside(n, lambda x: x is w, stop=fn)

    for st, _ in puts:
        ok = inside(st, limw)
        ctx.ob("R14-a", rs, "work is queued only while the limiter token is held", ok, node=st,
               detail="" if ok else "the dispatch is outside `async with limiter`: more functions than tokens can run", by=("inside async with limiter",))
    for w in waits:
        ok = inside(w, limw)
        ctx.ob("R14-a", rs, "the token is held until the function's future has completed", ok, node=stmt_of(w),
               detail="" if ok else "the wait is outside `async with limiter`: the token is given back while the function still runs", by=("inside async with limiter",))
    starts = ctx.sites(rs, "$W.start()")
    for st, _ in starts:
        ok = inside(st, limw)
        ctx.ob("R14-a", rs, "a worker thread is started only while the token is held", ok, node=st,
               detail="" if ok else "a thread is started before the token is acquired (unbounded threads while callers queue for tokens)", by=("inside async with limiter",))
    # limiter context manager: acquire on entry, release on every exit
    ae = ctx.fn("CapacityLimiter.__aenter__", A)
    ax = ctx.fn("CapacityLimiter.__aexit__", A)
    dominates_all_exits(ctx, "R14-a", ae, "await self.acquire()", "CapacityLimiter.__aenter__ acquires", exits=("return",))
    dominates_all_exits(ctx, "R14-a", ax, "self.release()", "CapacityLimiter.__aexit__ releases on every path", exits=("return",), count=1)
    # nothing between acquiring the token and the shielded section may be interrupted without release: guaranteed by `async with`;
    # what remains is that nothing suspends between the entry checkpoint and the with statement in a way that holds a worker
    # a new worker is started before work is queued to it; a reused one comes from the idle deque

    def step_w(st, e, c):
        if c.is_exc:
            return st
        if e == "new":
            return "new"
        if e == "start":
            return "started" if st == "new" else st
        if e == "reuse":
            return "idle"
        if e == "put":
            if st == "new":
                return Bad("work is queued to a newly created worker thread that was never started (the caller waits forever)")
            if st == "":
                return Bad("work is queued without a worker having been chosen on this path")
            return "put"
        if e == "wait":
            if st != "put":
                return Bad("the future is awaited although nothing was queued for it on this path")
            return "waited"
        return st

    def at_exit_w(kind, st, facts):
        if kind == "return" and st != "waited":
            return "returns without having dispatched the function and awaited its future"
        return None

    nw0 = ctx.sites(rs, "$W = WorkerThread($R, $S, $I)")
    if not ctx.need("R14-a", rs, "`worker = WorkerThread(root_task, workers, idle_workers)`", len(nw0), 1):
        return
    ROOT, WSET, IDLE = (u(nw0[0][1][k]) for k in "RSI")
    ctx.paths("R14-a", rs, [("new", "$W = WorkerThread($*A)"), ("start", "$W.start()"), ("reuse", f"$W = {IDLE}.pop()"),
                            ("put", "$W.queue.put_nowait($T)"), ("wait", [lambda frag, node: frag is not None and node.kind in ("stmt", "return") and any(
                                isinstance(x, ast.Await) and isinstance(x.value, ast.Name) for x in [frag] + list(own_walk(frag)))])],
              step_w, "", at_exit_w, instance="worker chosen, started, fed, awaited")
    nw = ctx.sites(rs, "$W = WorkerThread($*A)")
    for st, env in nw:
        reg = ctx.sites(rs, f"{WSET}.add({u(env['W'])})")
        cb = ctx.sites(rs, f"{ROOT}.add_done_callback({u(env['W'])}.stop, $*A)")
        ctx.ob("R14-a", rs, "a new worker is registered and stopped with the root task", bool(reg) and bool(cb), node=st,
               detail="" if reg and cb else "a new worker thread is not added to the worker set / not stopped when the root task ends (threads leak)",
               by=("workers.add", "root_task.add_done_callback(worker.stop)"))
    # reuse is LIFO from the idle deque, pruning takes the oldest
    rp = ctx.sites(rs, f"$W = {IDLE}.pop()")
    ctx.ob("R14-a", rs, "an idle worker is taken out of the idle deque before it is given work", len(rp) == 1,
           detail="" if rp else "the reused worker is not removed from idle_workers: two calls could be queued to one thread while the token count says otherwise",
           by=("idle_workers.pop()",))
    for st, _ in rp:
        ctx.require_at("R14-a", rs, st, [[IDLE]], instance="a worker is reused only if one is idle")

    # ---- R14-b shielding ---------------------------------------------------------------------------------------------------------------
    sw = [n for n in own_walk(fn) if isinstance(n, ast.With) and any(isinstance(i.context_expr, ast.Call) and call_name(i.context_expr) == "CancelScope" for i in n.items)]
    if ctx.need("R14-b", rs, "`with CancelScope(shield=...)` around the wait", len(sw), 1):
        w = sw[0]
        c = w.items[0].context_expr
        sh = [k.value for k in c.keywords if k.arg == "shield"]
        ok = False
        detail = "the scope around the wait has no shield argument"
        if sh:
            vals = {v: evalbool(sh[0], {p_abandon: v}) for v in (True, False)}
            ok = vals[True] is False and vals[False] is True
            detail = f"shield={ast.unparse(sh[0])} evaluates to {vals} for abandon_on_cancel in (True, False); required: shielded exactly when not abandoning"
        ctx.ob("R14-b", rs, "the wait is shielded exactly when abandon_on_cancel is false", ok, node=w, detail="" if ok else detail, by=("evalbool(shield) for both values",))
        for x in waits:
            okw = inside(x, w)
            ctx.ob("R14-b", rs, "the wait for the thread is inside that scope", okw, node=stmt_of(x), detail="" if okw else "`await future` is outside the (conditionally) shielded scope",
                   by=("lexically inside",))
        sname = w.items[0].optional_vars.id if isinstance(w.items[0].optional_vars, ast.Name) else None
        ok2 = inside(w, limw)
        ctx.ob("R14-b", rs, "the shielded scope is nested inside the limiter block (release happens after the wait, also when cancelled)", ok2, node=w,
               detail="" if ok2 else "the limiter block is inside the shielded scope", by=("nesting",))
    else:
        sname = None

    # ---- R14-c the thread sees the caller's cancellation -----------------------------------------------------------------------------------
    tup = None
    for st, env in puts:
        if isinstance(env["T"], ast.Tuple):
            tup = env["T"]
    if ctx.need("R14-d", rs, "the queued item is a literal tuple", 1 if tup is not None else 0, 1) and sname:
        ctx.ob("R14-d", rs, "the queued tuple has 5 positions", len(tup.elts) == 5, detail=f"{len(tup.elts)} elements", by=("arity 5",))
    if tup is not None and len(tup.elts) == 5 and sname:
        _worker_scope(ctx, "R14-c", rs, tup.elts[4], sname, p_abandon)
    cc = ctx.fn("AsyncIOBackend.check_cancelled", A)
    check_walker(ctx, "R14-c", cc)
    src = ctx.sites(cc, "$S = threadlocals.current_cancel_scope")
    ctx.ob("R14-c", cc, "check_cancelled starts from the scope published for this thread", len(src) == 1, detail="" if src else "check_cancelled does not read threadlocals.current_cancel_scope",
           by=("threadlocals.current_cancel_scope",))
    rz = ctx.sites(cc, "raise CancelledError($*A)")
    ctx.ob("R14-c", cc, "a cancelled scope makes check_cancelled raise the cancellation exception", len(rz) == 1, detail="" if rz else "no raise CancelledError", by=("raise CancelledError",))
    fcc = ctx.fn("check_cancelled", FT)
    s = ctx.sites(fcc, "$T.backend_class.check_cancelled()")
    ctx.ob("R14-c", fcc, "from_thread.check_cancelled delegates to the backend", len(s) == 1, detail="" if s else "no delegation", by=("delegation",))

    # ---- R14-d faithful result and context ------------------------------------------------------------------------------------------------
    run = ctx.fn("WorkerThread.run", A)
    rep = ctx.fn("WorkerThread._report_result", A)
    unp = [n for n in own_walk(run.node) if isinstance(n, ast.Assign) and isinstance(n.targets[0], ast.Tuple) and isinstance(n.value, ast.Name)]
    if ctx.need("R14-d", run, "unpacking of the queue item", len(unp), 1) and tup is not None and len(tup.elts) == 5:
        names = [getattr(e, "id", "?") for e in unp[0].targets[0].elts]
        ok = len(names) == 5
        ctx.ob("R14-d", run, "producer and consumer agree on the arity of the work item", ok, node=unp[0], detail="" if ok else f"consumer unpacks {len(names)} names, producer queues 5",
               by=("5 == 5",))
        if ok:
            cx, fu, ar, ft, sc = names
            calls = ctx.sites(run, f"$R = {cx}.run({fu}, *{ar})")
            ctx.ob("R14-d", run, "position 0/1/2 are context, function, arguments: the function runs as context.run(func, *args)", len(calls) == 1,
                   detail="" if calls else f"no `{cx}.run({fu}, *{ar})` in WorkerThread.run", by=(f"{cx}.run({fu}, *{ar})",))
            pub = ctx.sites(run, f"threadlocals.current_cancel_scope = {sc}")
            ctx.ob("R14-d", run, "position 4 is the scope published for check_cancelled", len(pub) == 1, detail="" if pub else "the scope is not published to threadlocals", by=("threadlocals.current_cancel_scope = scope",))
            # producer roles
            prod = [ast.unparse(e) for e in tup.elts]
            ctxdef = ctx.sites(rs, f"{prod[0]} = copy_context()")
            okp = bool(ctxdef) and prod[1] == p_func and prod[2] == p_args
            ctx.ob("R14-d", rs, "the producer queues (copy of the caller's context, func, args, ...)", okp, node=stmt_of(tup),
                   detail="" if okp else f"queued {prod[:3]}; required (copy_context(), {p_func}, {p_args})", by=("copy_context()", p_func, p_args))
            okf = any(isinstance(w.value, ast.Name) and w.value.id == prod[3] for w in waits)
            ctx.ob("R14-d", rs, "position 3 is the future the caller awaits", okf, node=stmt_of(tup), detail="" if okf else f"the queued future `{prod[3]}` is not the awaited one", by=("same future",))
            rets = [n for n in own_walk(fn) if isinstance(n, ast.Return) and n.value is not None]
            okr = len(rets) == 1 and isinstance(rets[0].value, ast.Await) and getattr(rets[0].value.value, "id", "") == prod[3]
            ctx.ob("R14-d", rs, "the caller returns exactly the future's outcome", okr, detail="" if okr else "run_sync_in_worker_thread does not `return await future`", by=("return await future",))
            # the thread: captures everything, clears the published scope, reports in the order of _report_result's parameters
            if calls and pub:
                res = u(calls[0][1]["R"])

                def step_t(st, e, c):
                    if e == "pub" and not c.is_exc:
                        return st | {"pub"}
                    if e == "call":
                        if "pub" not in st:
                            return Bad("the function runs before the scope for check_cancelled was published")
                        return st | {"call"} if not c.is_exc else st | {"raised"}
                    if e == "cap" and not c.is_exc:
                        return st | {"cap"}
                    if e == "unpub" and not c.is_exc:
                        return (st - {"pub"}) | {"unpub"}
                    if e == "report" and not c.is_exc:
                        if "pub" in st:
                            return Bad("the result is reported while the cancel scope is still published for this thread")
                        if "raised" in st and "cap" not in st:
                            return Bad("the function raised but the exception was not captured for the report")
                        return st | {"report"}
                    if e == "get" and not c.is_exc:
                        return frozenset()
                    return st

                rpt = ctx.sites(run, f"self.loop.call_soon_threadsafe(self._report_result, {ft}, $R, $E)")
                ctx.need("R14-d", run, "report through loop.call_soon_threadsafe(self._report_result, future, result, exception)", len(rpt), 1)
                handlers = [h for h in own_walk(run.node) if isinstance(h, ast.ExceptHandler)]
                okh = any(h.type is not None and ast.unparse(h.type) == "BaseException" and h.name for h in handlers)
                ctx.ob("R14-d", run, "every exception of the function (BaseException) is captured", okh, detail="" if okh else "the handler around the call is narrower than BaseException: "
                       "the thread dies and the caller waits forever", by=("except BaseException as exc",))
                if rpt:
                    r_ok = u(rpt[0][1]["R"]) == res
                    excn = u(rpt[0][1]["E"])
                    cap = ctx.sites(run, f"{excn} = $X")
                    capok = any(isinstance(enclosing(s, (ast.ExceptHandler,), stop=run.node), ast.ExceptHandler) and getattr(env["X"], "id", None) == enclosing(s, (ast.ExceptHandler,), stop=run.node).name
                                for s, env in cap)
                    ctx.ob("R14-d", run, "what is reported is the call's own result and the captured exception", r_ok and capok, node=rpt[0][0],
                           detail="" if r_ok and capok else f"reported ({u(rpt[0][1]['R'])}, {excn}); result variable is {res}; exception captured from handler: {capok}", by=(res, excn))
                    ctx.paths("R14-d", run, [("get", "$I = self.queue.get()"), ("pub", f"threadlocals.current_cancel_scope = {sc}"), ("call", f"$R = {cx}.run({fu}, *{ar})"),
                                             ("cap", f"{excn} = $X"), ("unpub", "del threadlocals.current_cancel_scope"),
                                             ("report", f"self.loop.call_soon_threadsafe(self._report_result, $*A)")], step_t, frozenset(), None,
                              instance="publish scope, run, capture, unpublish, report", allow_no_exit=True)
                    # every executed item is reported unless the loop is closed

                    def step_u(st, e, c):
                        if c.is_exc:
                            return st
                        if e == "call":
                            return "ran"
                        if e == "report":
                            return "reported" if st == "ran" else st
                        if e == "closed_test":
                            return st
                        if e == "done":
                            if st == "ran" and ("self.loop.is_closed()", True) not in c.facts_before and ("self.loop.is_closed()", True) not in c.facts:
                                return Bad("an item was executed but its outcome is not reported to the event loop (the caller waits forever)")
                            return ""
                        return st

                    ctx.paths("R14-d", run, [("call", f"$R = {cx}.run({fu}, *{ar})"), ("report", "self.loop.call_soon_threadsafe(self._report_result, $*A)"),
                                             ("done", "self.queue.task_done()")], step_u, "", None, instance="every executed item is reported", allow_no_exit=True)
    # _report_result
    rp_params = [a.arg for a in rep.node.args.args]
    if len(rp_params) == 4:
        _, r_f, r_res, r_exc = rp_params

        def step_r(st, e, c):
            if c.is_exc:
                return st
            ns, ne = st
            if e == "sr":
                return (min(ns + 1, 2), ne)
            if e == "se":
                return (ns, min(ne + 1, 2))
            return st

        def at_exit_r(kind, st, facts):
            ns, ne = st
            if kind != "return":
                return None
            canc = (f"{r_f}.cancelled()", True) in facts
            if canc:
                if ns or ne:
                    return "an outcome is set on a cancelled future (InvalidStateError in the loop callback)"
                return None
            if ns + ne != 1:
                return f"a non-cancelled future gets {ns} result(s) and {ne} exception(s) (exactly one outcome required)"
            return None

        ctx.paths("R14-d", rep, [("sr", f"{r_f}.set_result($X)"), ("se", f"{r_f}.set_exception($X)")], step_r, (0, 0), at_exit_r,
                  instance="exactly one outcome on a live future")
        for st, env in ctx.sites(rep, f"{r_f}.set_result($X)"):
            ok = getattr(env["X"], "id", "") == r_res
            ctx.ob("R14-d", rep, "the result set is the reported result", ok, node=st, detail="" if ok else f"`{norm(st)}`", by=(r_res,))
            ctx.require_at("R14-d", rep, st, [[f"not {r_f}.cancelled()"]], instance="no outcome is set on a cancelled future (abandoned call)", what="set_result")
            ctx.require_at("R14-d", rep, st, [[f"{r_exc} is None"]], instance="a result is delivered only when the function did not raise", what="set_result")
        for st, env in ctx.sites(rep, f"{r_f}.set_exception($X)"):
            ok = getattr(env["X"], "id", "") == r_exc
            ctx.ob("R14-d", rep, "the exception set is the reported exception", ok, node=st, detail="" if ok else f"`{norm(st)}`", by=(r_exc,))
            ctx.require_at("R14-d", rep, st, [[f"not {r_f}.cancelled()"]], instance="no outcome is set on a cancelled future (abandoned call)", what="set_exception")
            ctx.require_at("R14-d", rep, st, [[f"not {r_exc} is None"]], instance="an exception is delivered only when the function raised", what="set_exception")
        # the exception variable is only rebound for StopIteration (which cannot be set on a future)
        reb = [s for s, _ in ctx.sites(rep, f"{r_exc} = $X")]
        for s in reb:
            ctx.require_at("R14-d", rep, s, [[f"isinstance({r_exc}, StopIteration)"]], instance="the exception is replaced only for StopIteration", what="rebinding of the exception")
        idle = ctx.sites(rep, "self.idle_workers.append(self)")
        ctx.ob("R14-d", rep, "a worker that reported becomes idle again (threads are reused, not leaked)", len(idle) == 1, detail="" if idle else "the worker is never returned to the idle deque",
               by=("idle_workers.append(self)",))
    else:
        ctx.ob("R14-d", rep, "_report_result(self, future, result, exc)", False, detail=f"parameters are {rp_params}")

    # context: the copy is taken in the caller, before dispatch
    cps = ctx.sites(rs, "$C = copy_context()")
    ok = len(cps) == 1 and all(cps[0][0].lineno < st.lineno for st, _ in puts)
    ctx.ob("R14-d", rs, "the caller's context is copied in the caller before dispatch", ok, detail="" if ok else "no copy_context() before the dispatch", by=("copy_context()",))

    # ---- R14-e entry checkpoint / nothing started when already cancelled ------------------------------------------------------------------------
    checkpoint_typestate(ctx, "R14-e", rs, effects=["$W.queue.put_nowait($*A)", "$W.start()"], blocks=["await $F"],
                         instance="run_sync_in_worker_thread checks for cancellation before starting anything", native=False, require_undo=False)
    tt = ctx.fn("run_sync", TT)
    s = ctx.sites(tt, "return await get_async_backend().run_sync_in_worker_thread($*A)")
    okd = False
    if s:
        c = s[0][0].value.value
        tparams = tt.node.args
        kws = {k.arg: ast.unparse(k.value) for k in c.keywords}
        okd = len(c.args) == 2 and ast.unparse(c.args[0]) == tparams.args[0].arg and ast.unparse(c.args[1]) == tparams.vararg.arg \
            and kws.get("abandon_on_cancel") == "abandon_on_cancel" and kws.get("limiter") == "limiter"
    ctx.ob("R14-e", tt, "to_thread.run_sync forwards func, args, abandon_on_cancel and limiter", okd,
           detail="" if okd else "to_thread.run_sync does not forward (func, args, abandon_on_cancel=abandon_on_cancel, limiter=limiter)", by=("argument forwarding",))

    cancellable_alias(ctx, "R14-e")

    loop_entry_points(ctx, "R14-f")

    # ---- R14-g a coroutine started with from_thread.run joins the thread's scope: it is reached by a cancellation of that scope or of an
    # enclosing one even when the scope's delivery has died down (shared with C03)
    from .walkers import join_restarts, restart_walker
    join_restarts(ctx, "R14-g", ("AsyncIOBackend.run_async_from_thread.task_wrapper",), 1)
    restart_walker(ctx, "R14-g")

    # ---- R14-i the default limiter outlives root tasks: the run-variable store is never dropped wholesale
    run_var_store_intact(ctx, "R14-i")

    # ---- R14-j a stopped worker is never offered for reuse: whoever queues the shutdown sentinel for a worker also takes it out of the idle deque
    stopped_worker_not_idle(ctx, "R14-j")

    # ---- R14-k the limiter a caller passes to run_sync may be the loop-independent public object (`anyio.CapacityLimiter(n)` created
    # outside a loop = CapacityLimiterAdapter): "never more running calls than the limiter's total" then rests on the adapter handing
    # every operation - the total_tokens setter included - to the backend limiter it materialised (shared with C10/R10-h; seed C14-k)
    from .adapters import check_adapter, check_factory
    check_adapter(ctx, "R14-k", "CapacityLimiterAdapter", "_internal_limiter", "_limiter", "create_capacity_limiter", {},
                  value_members=("statistics",), pre_state={"total_tokens": "self._total_tokens = $V"})
    check_factory(ctx, "R14-k", "CapacityLimiter", "create_capacity_limiter", "CapacityLimiterAdapter")

    # ---- R14-h "never more running calls than the limiter's total": every grant of a token is capacity-guarded (shared with C10/R10-a)
    from .c10 import grants_capacity_guarded
    grants_capacity_guarded(ctx, "R14-h")


def stopped_worker_not_idle(ctx, rule):
    """`run_sync_in_worker_thread` reuses whatever worker it pops from the idle deque without looking at it, and a worker that got the
    shutdown sentinel (`queue.put_nowait(None)`) leaves its loop and never runs another item: the function queued to it is never called
    and the caller waits forever. So every function that queues the sentinel for `self` must, on every path that returns, have
    attempted to take `self` out of `idle_workers` (or have found it absent)."""
    st_f = ctx.fn("WorkerThread.stop", A)
    rs = ctx.fn("AsyncIOBackend.run_sync_in_worker_thread", A)
    sent = ctx.sites(st_f, "self.queue.put_nowait(None)")
    if not ctx.need(rule, st_f, "shutdown sentinel `self.queue.put_nowait(None)` in WorkerThread.stop", len(sent), 1):
        return
    # sentinel writers anywhere else in the backend (must be none: stop() is the only way to end a worker)
    others = []
    for f in ctx.repo.funcs_in(A):
        if f is st_f or f.qual.startswith("WorkerThread.stop"):
            continue
        for pat in ("$W.queue.put_nowait(None)", "$W.queue.put(None)"):
            for s, env in ctx.sites(f, pat):
                if "queue" in norm(s) and ("worker" in norm(s).lower() or f.cls == "WorkerThread"):
                    others.append((f, s))
    ctx.ob(rule, others[0][0] if others else st_f, "only WorkerThread.stop queues the shutdown sentinel", not others, node=others[0][1] if others else None,
           detail="" if not others else f"`{norm(others[0][1])}` in {others[0][0].qual} ends a worker without the bookkeeping of stop()", by=("writer table of the sentinel",))
    absent = F("self in self.idle_workers")

    def step(st, e, c):
        return 1                       # attempted removal counts even when remove() raises ValueError (the worker was not idle)

    def at_exit(kind, st, facts):
        if kind.split(":")[0] == "return" and not st and (absent[0], False) not in facts:
            return "`self.idle_workers.remove(self)` is not attempted on a path to return: the stopped worker stays in the idle deque and the next run_sync() hands it work that never runs"
        return None

    ctx.paths(rule, st_f, [("rm", ["self.idle_workers.remove(self)"])], step, 0, at_exit, instance="stop() takes the worker out of the idle deque", broad=True)


def loop_entry_points(ctx, RULE):
    """the loop-side entry points used by foreign/worker threads resolve their concurrent future on every path and hand back its
    outcome (shared by C14 R14-f and C15 R15-f)"""
    rsf = ctx.fn("AsyncIOBackend.run_sync_from_thread", A)
    wr = ctx.fn("AsyncIOBackend.run_sync_from_thread.wrapper", A)
    fvar = None
    for st, env in ctx.sites(wr, "$F.set_result(func(*args))"):
        fvar = u(env["F"])
    if ctx.need(RULE, wr, "`f.set_result(func(*args))`", 1 if fvar else 0, 1):
        def step_f(st, e, c):
            if c.is_exc:
                return st
            return min(st + 1, 2)

        def at_exit_f(kind, st, facts):
            if st != 1:
                return f"the caller's future is resolved {st} times on a path leaving by {kind} (exactly once required, or the thread blocks forever)"
            return None

        ctx.paths(RULE, wr, [("res", [f"{fvar}.set_result($X)", f"{fvar}.set_exception($X)"])], step_f, 0, at_exit_f, instance="run_sync_from_thread.wrapper resolves the future exactly once", broad=True)
        se = ctx.sites(wr, f"{fvar}.set_exception($X)")
        for st, env in se:
            h = enclosing(st, (ast.ExceptHandler,), stop=wr.node)
            ok = h is not None and h.type is not None and ast.unparse(h.type) == "BaseException" and getattr(env["X"], "id", None) == h.name
            ctx.ob(RULE, wr, "any exception of the callback (BaseException) is forwarded as is", ok, node=st, detail="" if ok else f"`{norm(st)}` is not in `except BaseException as e` forwarding e", by=("except BaseException",))
        rr = ctx.sites(rsf, f"return {fvar}.result()")
        ctx.ob(RULE, rsf, "from_thread.run_sync returns the future's outcome", len(rr) == 1, detail="" if rr else f"no `return {fvar}.result()`", by=("return f.result()",))
        sched = ctx.sites(rsf, "$L.call_soon_threadsafe(wrapper)")
        ctx.ob(RULE, rsf, "the wrapper is scheduled in the loop thread", len(sched) == 1, detail="" if sched else "no loop.call_soon_threadsafe(wrapper)", by=("call_soon_threadsafe",))
    raf = ctx.fn("AsyncIOBackend.run_async_from_thread", A)
    tw = ctx.fn("AsyncIOBackend.run_async_from_thread.task_wrapper", A)
    s1 = ctx.sites(tw, "return await func(*args)")
    ctx.ob(RULE, tw, "the task returns the coroutine function's own result", len(s1) == 1, detail="" if s1 else "task_wrapper does not `return await func(*args)`", by=("return await func(*args)",))
    s2 = ctx.sites(raf, "$F = $C.run(asyncio.run_coroutine_threadsafe, task_wrapper(), loop=$L)")
    s3 = ctx.sites(raf, "return $F.result()")
    s4 = ctx.sites(raf, "return $C.run(asyncio.run_coroutine_threadsafe, task_wrapper(), loop=$L).result()")      # (canonical form: temporary folded)
    ok = (len(s2) == 1 and len(s3) == 1 and u(s2[0][1]["F"]) == u(s3[0][1]["F"])) or (len(s4) == 1 and not s2)
    ctx.ob(RULE, raf, "from_thread.run returns the outcome of the task it scheduled", ok, detail="" if ok else "the returned future is not the one of run_coroutine_threadsafe(task_wrapper())", by=("f.result()",))
    sc = ctx.sites(raf, "$S = getattr(threadlocals, 'current_cancel_scope', None)")
    ctx.ob(RULE, raf, "the coroutine joins the scope published for the calling thread", len(sc) == 1, detail="" if sc else "the thread's cancel scope is not picked up", by=("threadlocals.current_cancel_scope",))
    for q, target in (("run", "run_async_from_thread"), ("run_sync", "run_sync_from_thread")):
        f = ctx.fn(q, FT)
        s = ctx.sites(f, f"return token.backend_class.{target}(func, args, token=$T)")
        ctx.ob(RULE, f, f"from_thread.{q} forwards func and args to the backend and returns its value", len(s) == 1, detail="" if s else f"no `return token.backend_class.{target}(func, args, ...)`",
               by=("delegation",))


def run_var_store_intact(ctx, rule):
    """the per-event-loop store of run variables (`lowlevel._run_vars`: default thread limiter, worker pool, root task, ...) is created per
    loop by RunVar and never dropped or replaced wholesale by anybody else: a clean-up that pops the loop's whole entry would silently
    reset the default limiter to a fresh one with the default 40 tokens while calls still hold tokens of the old one"""
    bad = []
    n = 0
    for rel, tree in ctx.repo.non_trio_modules().items():
        for x in ctx.live_walk(tree):
            if isinstance(x, ast.Name) and x.id == "_run_vars":
                n += 1
                par = getattr(x, "_parent", None)
                f_ = ctx.repo.func_of(x)
                q_ = f_.qual if f_ else "<module>"
                write = None
                if isinstance(par, ast.Subscript) and par.value is x and isinstance(par.ctx, (ast.Store, ast.Del)):
                    write = "subscript " + type(par.ctx).__name__.lower()
                elif isinstance(par, ast.Attribute) and par.value is x and par.attr in ("pop", "popitem", "clear", "update", "setdefault", "__delitem__", "__setitem__"):
                    write = "call:" + par.attr
                elif isinstance(x.ctx, (ast.Store, ast.Del)) and q_ != "<module>":
                    write = "rebinding"
                if write and not (rel.endswith("lowlevel.py") and (f_ is None or f_.cls == "RunVar")):
                    bad.append((f_, x, write, rel))
    anchor = ctx.fn("AsyncIOBackend.current_default_thread_limiter", A)
    ctx.floor(rule, "references to lowlevel._run_vars", n, 3)
    ctx.ob(rule, bad[0][0] if bad and bad[0][0] else anchor, "the per-loop store of run variables is only ever filled by RunVar (no wholesale removal elsewhere)", not bad,
           node=stmt_of(bad[0][1]) if bad else None,
           detail="" if not bad else f"`{norm(stmt_of(bad[0][1]))}` ({bad[0][2]}) in src/anyio/{bad[0][3]}: drops or replaces every run variable of the loop, the default thread limiter included",
           by=("writer table of _run_vars",))
