"""Neutral variants of the "extract method" kind: part of an anchored function moves into a fresh private helper of the same
class.  The engine splices such helpers back before the rules run (core.inline_fresh_helpers)."""
from sa.selftest.mutants import NN, A, SYNC, MEM

LOCK_OLD = ("            if not self._fast_acquire:\n                try:\n                    await AsyncIOBackend.cancel_shielded_checkpoint()\n"
            "                except CancelledError:\n                    self.release()\n                    raise\n\n            return\n\n        if self._owner_task == task:")
LOCK_NEW = "            await self._yield_unless_fast()\n            return\n\n        if self._owner_task == task:"
LOCK_HELPER = ("    async def _yield_unless_fast(self) -> None:\n        if not self._fast_acquire:\n            try:\n                await AsyncIOBackend.cancel_shielded_checkpoint()\n"
               "            except CancelledError:\n                self.release()\n                raise\n\n    def acquire_nowait(self) -> None:\n        task = cast(asyncio.Task, current_task())\n        if self._owner_task is None and not self._waiters:")
for prop in ("C08", "C09"):
    NN(f"{prop.lower()}-n-extract-lock-yield", prop, [
        (A, "Lock.acquire", LOCK_OLD, LOCK_NEW),
        (A, "Lock", "    def acquire_nowait(self) -> None:\n        task = cast(asyncio.Task, current_task())\n        if self._owner_task is None and not self._waiters:", LOCK_HELPER),
    ])

NN("c10-n-extract-grant-loop", "C10", [
    (A, "CapacityLimiter.total_tokens@setter",
     "        # Notify waiting tasks that they have acquired the limiter\n        while self._wait_queue and len(self._borrowers) < self._total_tokens:\n            borrower, event = self._wait_queue.popitem(last=False)\n            self._borrowers.add(borrower)\n            event.set()\n",
     "        self._grant_free_tokens()\n"),
    (A, "CapacityLimiter", "    @property\n    def borrowed_tokens(self) -> int:",
     "    def _grant_free_tokens(self) -> None:\n        while self._wait_queue and len(self._borrowers) < self._total_tokens:\n            borrower, event = self._wait_queue.popitem(last=False)\n            self._borrowers.add(borrower)\n            event.set()\n\n    @property\n    def borrowed_tokens(self) -> int:"),
])

for prop in ("C05", "C06"):
    NN(f"{prop.lower()}-n-extract-drop-timer", prop, [
        (A, "CancelScope.cancel", "            if self._timeout_handle:\n                self._timeout_handle.cancel()\n                self._timeout_handle = None\n", "            self._drop_timer_in_cancel()\n"),
        (A, "CancelScope", "    def cancel(self, reason: str | None = None) -> None:",
         "    def _drop_timer_in_cancel(self) -> None:\n        if self._timeout_handle:\n            self._timeout_handle.cancel()\n            self._timeout_handle = None\n\n    def cancel(self, reason: str | None = None) -> None:"),
    ])

NN("c18-n-extract-empty-queue-mapping", "C18", [
    (A, "SocketStream.receive",
     "                if self._closed:\n                    raise ClosedResourceError from None\n                elif self._protocol.exception:\n                    raise BrokenResourceError from self._protocol.exception\n                else:\n                    raise EndOfStream from None\n",
     "                self._raise_for_empty_queue()\n"),
    (A, "SocketStream", "    async def send(self, item: bytes) -> None:\n        with self._send_guard:",
     "    def _raise_for_empty_queue(self) -> None:\n        if self._closed:\n            raise ClosedResourceError from None\n        elif self._protocol.exception:\n            raise BrokenResourceError from self._protocol.exception\n        else:\n            raise EndOfStream from None\n\n    async def send(self, item: bytes) -> None:\n        with self._send_guard:"),
])
