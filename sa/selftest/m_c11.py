"""C11 mutants / neutral variants"""
from sa.selftest.mutants import M, MM, N, A, SYNC, MEM, TASKS

W = "Condition.wait"

M("c11-F5-revert-owner-kept", "C11", SYNC, "Condition.release", "        self._lock.release()\n        self._owner_task = None\n", "        self._lock.release()\n", ["R11-c"])
M("c11-owner-cleared-first", "C11", SYNC, "Condition.release", "        self._lock.release()\n        self._owner_task = None\n", "        self._owner_task = None\n        self._lock.release()\n", ["R11-c"])
M("c11-owner-before-lock", "C11", SYNC, "Condition.acquire",
  "        await self._lock.acquire()\n        self._owner_task = get_current_task()", "        self._owner_task = get_current_task()\n        await self._lock.acquire()", ["R11-c"])
M("c11-nowait-no-owner", "C11", SYNC, "Condition.acquire_nowait", "        self._owner_task = get_current_task()", "        pass", ["R11-c"])
M("c11-event-wait-no-wait", "C11", A, "Event.wait",
  "        else:\n            await self._event.wait()", "        else:\n            await AsyncIOBackend.checkpoint()", ["R11-a"])
M("c11-event-wait-set-no-checkpoint", "C11", A, "Event.wait",
  "        if self.is_set():\n            await AsyncIOBackend.checkpoint()\n        else:\n            await self._event.wait()",
  "        if not self.is_set():\n            await self._event.wait()", ["R11-a"])
M("c11-event-cleared", "C11", A, "Event.statistics", "        return EventStatistics(", "        self._event.clear()\n        return EventStatistics(", ["R11-a"])
M("c11-adapter-loses-set", "C11", SYNC, "EventAdapter._event", "            if self._is_set:\n                self._internal_event.set()\n", "", ["R11-a"])
M("c11-notify-unchecked", "C11", SYNC, "Condition.notify", "        self._check_acquired()\n", "", ["R11-b"])
M("c11-notify-all-unchecked", "C11", SYNC, "Condition.notify_all", "        self._check_acquired()\n", "", ["R11-b"])
M("c11-wait-unchecked", "C11", SYNC, W, "        self._check_acquired()\n", "", ["R11-b", "R11-e"])
M("c11-wait-check-after-append", "C11", SYNC, W,
  "        self._check_acquired()\n        event = Event()\n        self._waiters.append(event)\n", "        event = Event()\n        self._waiters.append(event)\n        self._check_acquired()\n", ["R11-b", "R11-e"])
M("c11-check-acquired-noop", "C11", SYNC, "Condition._check_acquired", "        if self._owner_task != get_current_task():\n            raise", "        if self._owner_task is None:\n            raise", ["R11-b"])
M("c11-notify-lifo", "C11", SYNC, "Condition.notify", "self._waiters.popleft()", "self._waiters.pop()", ["R11-d"])
M("c11-notify-unbounded", "C11", SYNC, "Condition.notify", "for _ in range(n):", "for _ in range(len(self._waiters)):", ["R11-d"])
M("c11-notify-no-set", "C11", SYNC, "Condition.notify", "            event.set()", "            pass", ["R11-d"])
M("c11-notify-all-no-clear", "C11", SYNC, "Condition.notify_all", "        self._waiters.clear()", "        pass", ["R11-d"])
M("c11-notify-all-first-only", "C11", SYNC, "Condition.notify_all", "        for event in self._waiters:\n            event.set()\n", "        for event in list(self._waiters)[:1]:\n            event.set()\n", ["R11-d"])
M("c11-wait-release-before-enqueue", "C11", SYNC, W,
  "        self._waiters.append(event)\n        self.release()", "        self.release()\n        self._waiters.append(event)", ["R11-e"])
M("c11-wait-no-cancel-check", "C11", SYNC, W, "        await checkpoint_if_cancelled()\n", "", ["R11-e"])
M("c11-wait-cancelled-stays-queued", "C11", SYNC, W,
  "            if not event.is_set():\n                self._waiters.remove(event)\n            elif self._waiters:", "            if event.is_set() and self._waiters:", ["R11-e"])
M("c11-wait-notification-lost", "C11", SYNC, W,
  "            elif self._waiters:\n                # This task was notified by could not act on it, so pass\n                # it on to the next task\n                self._waiters.popleft().set()\n", "", ["R11-e"])
M("c11-wait-swallow", "C11", SYNC, W, "                self._waiters.popleft().set()\n\n            raise", "                self._waiters.popleft().set()\n", ["R11-e"])
M("c11-wait-no-reacquire-on-cancel", "C11", SYNC, W,
  "            raise\n        finally:\n            with CancelScope(shield=True):\n                await self.acquire()", "            raise\n\n        with CancelScope(shield=True):\n            await self.acquire()", ["R11-e"])
M("c11-wait-unshielded-reacquire", "C11", SYNC, W, "            with CancelScope(shield=True):\n                await self.acquire()", "            with CancelScope():\n                await self.acquire()", ["R11-e"])
M("c11-wait-forwards-lifo", "C11", SYNC, W, "self._waiters.popleft().set()", "self._waiters.pop().set()", ["R11-d", "R11-e"])
M("c11-wait-for-once", "C11", SYNC, "Condition.wait_for", "        while not (result := predicate()):\n            await self.wait()", "        if not (result := predicate()):\n            await self.wait()\n            result = predicate()", ["R11-f"])

N("c11-n-check-eq", "C11", SYNC, "Condition._check_acquired", "if self._owner_task != get_current_task():", "if not (self._owner_task == get_current_task()):")
N("c11-n-wait-handler-order", "C11", SYNC, W,
  "            if not event.is_set():\n                self._waiters.remove(event)\n            elif self._waiters:\n                # This task was notified by could not act on it, so pass\n                # it on to the next task\n                self._waiters.popleft().set()",
  "            if event.is_set():\n                if self._waiters:\n                    self._waiters.popleft().set()\n            else:\n                self._waiters.remove(event)")

# ---- adapter / factory / async with (R11-f)
M("c11-adapter-early-set-lost", "C11", SYNC, "EventAdapter.set", "        if self._internal_event is None:\n            self._is_set = True\n        else:\n            self._event.set()", "        if self._internal_event is not None:\n            self._event.set()", ["R11-f", "R11-a"])
M("c11-adapter-is-set-stale", "C11", SYNC, "EventAdapter.is_set", "        return self._internal_event.is_set()", "        return self._is_set", ["R11-f"])
M("c11-adapter-wait-not-awaited", "C11", SYNC, "EventAdapter.wait", "        await self._event.wait()", "        if not self._event.is_set():\n            await self._event.wait()", ["R11-f"])
M("c11-condition-aexit-conditional", "C11", SYNC, "Condition.__aexit__", "        self.release()", "        if exc_type is None:\n            self.release()", ["R11-f"])
# from seeded change C08/c (round 2)
M("c11-adapter-wait-fast-path", "C11", SYNC, "EventAdapter.wait", "        await self._event.wait()", "        if self._internal_event is None and self._is_set:\n            await checkpoint_if_cancelled()\n            return\n\n        await self._event.wait()", ["R11-f"])

# two-phase notify (delivered neutral patch C11/n6): collect into a list, then wake the list
_NOTIFY_OLD = ("        for _ in range(n):\n            try:\n                event = self._waiters.popleft()\n            except IndexError:\n                break\n\n            event.set()\n")
_COLLECT = ("        selected = []\n        for _ in range(n):\n            try:\n                selected.append(self._waiters.popleft())\n            except IndexError:\n                break\n\n")
N("c11-n-notify-collect-then-wake", "C11", SYNC, "Condition.notify", _NOTIFY_OLD, _COLLECT + "        for event in selected:\n            event.set()\n")
M("c11-notify-collect-wakes-all-but-first", "C11", SYNC, "Condition.notify", _NOTIFY_OLD, _COLLECT + "        for event in selected[1:]:\n            event.set()\n", ["R11-d"])
M("c11-notify-collect-wake-loop-breaks", "C11", SYNC, "Condition.notify", _NOTIFY_OLD, _COLLECT + "        for event in selected:\n            event.set()\n            break\n", ["R11-d"])
M("c11-notify-collect-unbounded", "C11", SYNC, "Condition.notify", _NOTIFY_OLD, _COLLECT.replace("range(n)", "range(n + 1)") + "        for event in selected:\n            event.set()\n", ["R11-d"])
M("c11-notify-collect-never-woken", "C11", SYNC, "Condition.notify", _NOTIFY_OLD, _COLLECT + "        if not selected:\n            for event in selected:\n                event.set()\n", ["R11-d"])

# from seeded change C11/g (round 4)
M("c11-taskinfo-equality-includes-parent", "C11", "_core/_testing.py", "TaskInfo.__eq__", "            return self.id == other.id", "            return (self.id, self.parent_id) == (other.id, other.parent_id)", ["R11-g"])
N("c11-n-taskinfo-eq-written-out", "C11", "_core/_testing.py", "TaskInfo.__eq__", "            return self.id == other.id", "            if other.id == self.id:\n                return True\n\n            return False")
M("c11-taskinfo-eq-written-out-inverted", "C11", "_core/_testing.py", "TaskInfo.__eq__", "            return self.id == other.id", "            if other.id == self.id:\n                return False\n\n            return True", ["R11-g"])
