"""Seeded mutants (each breaks one obligation and the behaviour behind it while the module
still compiles) and hand-written neutral variants.  Located by (module, qualname, unique
source fragment) — never by line number."""
from __future__ import annotations

A = "_backends/_asyncio.py"
SYNC = "_core/_synchronization.py"
MEM = "streams/memory.py"
TASKS = "_core/_tasks.py"

MUTANTS: list[dict] = []
NEUTRAL: list[dict] = []


def M(id, prop, module, qual, old, new, expect=()):
    MUTANTS.append({"id": id, "prop": prop, "edits": [(module, qual, old, new)], "expect": list(expect)})


def MM(id, prop, edits, expect=()):
    MUTANTS.append({"id": id, "prop": prop, "edits": edits, "expect": list(expect)})


def N(id, prop, module, qual, old, new):
    NEUTRAL.append({"id": id, "prop": prop, "edits": [(module, qual, old, new)]})


# ============================================================================ C09 Lock
M("c09-barging", "C09", A, "Lock.acquire",
  "if self._owner_task is None and not self._waiters:", "if self._owner_task is None:", ["R09-a"])
M("c09-nowait-barging", "C09", A, "Lock.acquire_nowait",
  "if self._owner_task is None and not self._waiters:", "if self._owner_task is None:", ["R09-a"])
M("c09-real-checkpoint-between-test-and-take", "C09", A, "Lock.acquire",
  "await AsyncIOBackend.checkpoint_if_cancelled()\n            self._owner_task = task",
  "await AsyncIOBackend.checkpoint()\n            self._owner_task = task", ["R09-a"])
M("c09-handoff-to-cancelled", "C09", A, "Lock.release",
  "            if fut.cancelled():\n                continue\n\n", "", ["R09-b"])
M("c09-lifo", "C09", A, "Lock.release", "self._waiters.popleft()", "self._waiters.pop()", ["R09-c"])
M("c09-put-front", "C09", A, "Lock.acquire", "self._waiters.append(item)", "self._waiters.appendleft(item)", ["R09-c"])
M("c09-no-wake", "C09", A, "Lock.release", "            fut.set_result(None)\n            return", "            return", ["R09-b"])
M("c09-no-owner-transfer", "C09", A, "Lock.release",
  "            self._owner_task = task\n            fut.set_result(None)", "            fut.set_result(None)", ["R09-b"])
M("c09-free-with-waiters", "C09", A, "Lock.release",
  "            fut.set_result(None)\n            return", "            fut.set_result(None)\n            break", ["R09-b"])
M("c09-no-owner-check", "C09", A, "Lock.release",
  "        if self._owner_task != current_task():\n            raise RuntimeError(\"The current task is not holding this lock\")\n", "", ["R09-b"])
M("c09-cancelled-waiter-keeps-lock", "C09", A, "Lock.acquire",
  "            else:\n                self.release()\n\n            raise", "            raise", ["R09-d"])
M("c09-cancelled-waiter-stays-queued", "C09", A, "Lock.acquire",
  "                try:\n                    self._waiters.remove(item)\n                except ValueError:\n                    pass",
  "                pass", ["R09-d"])
M("c09-swallow-cancel", "C09", A, "Lock.acquire",
  "            else:\n                self.release()\n\n            raise", "            else:\n                self.release()\n                raise", ["R09-d"])
M("c09-fastpath-no-undo", "C09", A, "Lock.acquire",
  "                except CancelledError:\n                    self.release()\n                    raise\n\n            return",
  "                except CancelledError:\n                    raise\n\n            return", ["R09-d"])
M("c09-fastpath-no-yield", "C09", A, "Lock.acquire",
  "            if not self._fast_acquire:\n                try:\n                    await AsyncIOBackend.cancel_shielded_checkpoint()\n                except CancelledError:\n                    self.release()\n                    raise\n\n            return",
  "            return", ["R09-d"])
M("c09-take-before-cancel-check", "C09", A, "Lock.acquire",
  "            await AsyncIOBackend.checkpoint_if_cancelled()\n            self._owner_task = task",
  "            self._owner_task = task\n            await AsyncIOBackend.checkpoint_if_cancelled()", ["R09-d"])
M("c09-reacquire-queues", "C09", A, "Lock.acquire",
  "        if self._owner_task == task:\n            raise RuntimeError(\"Attempted to acquire an already held Lock\")\n", "", ["R09-e"])
M("c09-nowait-no-wouldblock", "C09", A, "Lock.acquire_nowait", "        raise WouldBlock", "        return None", ["R09-e"])
M("c09-wrong-undo-order", "C09", A, "Lock.acquire",
  "            if fut.cancelled():\n                try:", "            if not fut.cancelled():\n                try:", ["R09-d"])

N("c09-n-flip-cmp", "C09", A, "Lock.release", "if self._owner_task != current_task():", "if current_task() != self._owner_task:")
N("c09-n-not-eq", "C09", A, "Lock.release", "if self._owner_task != current_task():", "if not (self._owner_task == current_task()):")
N("c09-n-swap-conj", "C09", A, "Lock.acquire",
  "if self._owner_task is None and not self._waiters:", "if not self._waiters and self._owner_task is None:")
N("c09-n-nested-if", "C09", A, "Lock.acquire_nowait",
  "        if self._owner_task is None and not self._waiters:\n            self._owner_task = task\n            return",
  "        if self._owner_task is None:\n            if not self._waiters:\n                self._owner_task = task\n                return")
N("c09-n-alias", "C09", A, "Lock.release",
  "        while self._waiters:\n            task, fut = self._waiters.popleft()",
  "        waiters = self._waiters\n        while waiters:\n            task, fut = waiters.popleft()")
N("c09-n-else-form", "C09", A, "Lock.release",
  "            if fut.cancelled():\n                continue\n\n            self._owner_task = task\n            fut.set_result(None)\n            return",
  "            if not fut.cancelled():\n                self._owner_task = task\n                fut.set_result(None)\n                return")

# ============================================================================ C10 Semaphore / CapacityLimiter
M("c10-F1-revert-delta-grant", "C10", A, "CapacityLimiter.total_tokens@setter",
  "        self._total_tokens = value\n\n        # Notify waiting tasks that they have acquired the limiter\n        while self._wait_queue and len(self._borrowers) < self._total_tokens:\n            borrower, event = self._wait_queue.popitem(last=False)\n            self._borrowers.add(borrower)\n            event.set()\n",
  "        waiters_to_notify = max(value - self._total_tokens, 0)\n        self._total_tokens = value\n\n        # Notify waiting tasks that they have acquired the limiter\n        while self._wait_queue and waiters_to_notify:\n            borrower, event = self._wait_queue.popitem(last=False)\n            self._borrowers.add(borrower)\n            event.set()\n            waiters_to_notify -= 1\n",
  ["R10-a"])
M("c10-F6-revert-wrong-undo", "C10", A, "CapacityLimiter.acquire_on_behalf_of",
  "self.release_on_behalf_of(borrower)", "self.release()", ["R10-e"])
M("c10-notify-without-capacity", "C10", A, "CapacityLimiter._notify_next_waiter",
  "if self._wait_queue and len(self._borrowers) < self._total_tokens:", "if self._wait_queue:", ["R10-a"])
M("c10-nowait-barging", "C10", A, "CapacityLimiter.acquire_on_behalf_of_nowait",
  "if self._wait_queue or len(self._borrowers) >= self._total_tokens:", "if len(self._borrowers) >= self._total_tokens:", ["R10-a"])
M("c10-nowait-off-by-one", "C10", A, "CapacityLimiter.acquire_on_behalf_of_nowait",
  "len(self._borrowers) >= self._total_tokens:", "len(self._borrowers) > self._total_tokens:", ["R10-a"])
M("c10-double-borrow", "C10", A, "CapacityLimiter.acquire_on_behalf_of_nowait",
  "        if borrower in self._borrowers:\n            raise RuntimeError(\n                \"this borrower is already holding one of this CapacityLimiter's tokens\"\n            )\n", "", ["R10-a"])
M("c10-limiter-lifo", "C10", A, "CapacityLimiter._notify_next_waiter", "popitem(last=False)", "popitem()", ["R10-c", "R10-a"])
M("c10-sem-lifo", "C10", A, "Semaphore.release", "self._waiters.popleft()", "self._waiters.pop()", ["R10-c", "R10-b"])
M("c10-cancelled-waiter-keeps-token", "C10", A, "CapacityLimiter.acquire_on_behalf_of",
  "                if event.is_set():\n                    self._borrowers.discard(borrower)\n                    self._notify_next_waiter()\n", "", ["R10-d"])
M("c10-cancelled-waiter-no-pass-on", "C10", A, "CapacityLimiter.acquire_on_behalf_of",
  "                    self._borrowers.discard(borrower)\n                    self._notify_next_waiter()\n", "                    self._borrowers.discard(borrower)\n", ["R10-d"])
M("c10-cancelled-waiter-stays-queued", "C10", A, "CapacityLimiter.acquire_on_behalf_of",
  "                self._wait_queue.pop(borrower, None)\n", "", ["R10-d"])
M("c10-waiter-swallows-cancel", "C10", A, "CapacityLimiter.acquire_on_behalf_of",
  "                    self._notify_next_waiter()\n\n                raise", "                    self._notify_next_waiter()\n", ["R10-d"])
M("c10-limiter-no-cancel-check", "C10", A, "CapacityLimiter.acquire_on_behalf_of",
  "        await AsyncIOBackend.checkpoint_if_cancelled()\n", "", ["R10-d"])
M("c10-limiter-no-yield", "C10", A, "CapacityLimiter.acquire_on_behalf_of",
  "            try:\n                await AsyncIOBackend.cancel_shielded_checkpoint()\n            except BaseException:\n                self.release_on_behalf_of(borrower)\n                raise",
  "            pass", ["R10-d"])
M("c10-release-no-notify", "C10", A, "CapacityLimiter.release_on_behalf_of", "        self._notify_next_waiter()\n", "", ["R10-f"])
M("c10-release-nonborrower-silent", "C10", A, "CapacityLimiter.release_on_behalf_of",
  "            self._borrowers.remove(borrower)\n        except KeyError:\n            raise RuntimeError(\n                \"this borrower isn't holding any of this CapacityLimiter's tokens\"\n            ) from None",
  "            self._borrowers.remove(borrower)\n        except KeyError:\n            return", ["R10-f"])
M("c10-aexit-conditional-release", "C10", A, "CapacityLimiter.__aexit__", "        self.release()", "        if exc_val is None:\n            self.release()", ["R10-f"])
M("c10-available-wrong", "C10", A, "CapacityLimiter.available_tokens", "self._total_tokens - len(self._borrowers)", "self._total_tokens - len(self._borrowers) - len(self._wait_queue)", ["R10-g"])
M("c10-foreign-writer", "C10", A, "CapacityLimiter.statistics", "        return CapacityLimiterStatistics(", "        self._borrowers.discard(None)\n        return CapacityLimiterStatistics(", ["R10-g"])
M("c10-negative-total", "C10", A, "CapacityLimiter.total_tokens@setter",
  "        if value < 0:\n            raise ValueError(\"total_tokens must be >= 0\")\n", "", ["R10-g"])
M("c10-sem-barging", "C10", A, "Semaphore.acquire", "if self._value > 0 and not self._waiters:", "if self._value > 0:", ["R10-b"])
M("c10-sem-negative", "C10", A, "Semaphore.acquire_nowait", "        if self._value == 0:\n            raise WouldBlock\n\n", "", ["R10-b"])
M("c10-sem-release-double", "C10", A, "Semaphore.release",
  "            fut.set_result(None)\n            return", "            fut.set_result(None)\n            break", ["R10-b"])
M("c10-sem-release-to-cancelled", "C10", A, "Semaphore.release", "            if fut.cancelled():\n                continue\n\n", "", ["R10-b"])
M("c10-sem-max-ignored", "C10", A, "Semaphore.release",
  "        if self._max_value is not None and self._value == self._max_value:\n            raise ValueError(\"semaphore released too many times\")\n", "", ["R10-b"])
M("c10-sem-max-after", "C10", A, "Semaphore.release",
  "        self._value += 1", "        self._value += 1\n        if self._max_value is not None and self._value > self._max_value:\n            raise ValueError(\"semaphore released too many times\")", ["R10-b"])
M("c10-sem-cancelled-waiter-keeps-permit", "C10", A, "Semaphore.acquire",
  "            else:\n                self.release()\n\n            raise", "            raise", ["R10-d"])
M("c10-sem-fast-no-undo", "C10", A, "Semaphore.acquire",
  "                except CancelledError:\n                    self.release()\n                    raise\n\n            return", "                except CancelledError:\n                    raise\n\n            return", ["R10-d"])
M("c10-sem-real-checkpoint", "C10", A, "Semaphore.acquire",
  "await AsyncIOBackend.checkpoint_if_cancelled()\n            self._value -= 1", "await AsyncIOBackend.checkpoint()\n            self._value -= 1", ["R10-b"])
M("c10-limiter-register-under-wrong-key", "C10", A, "CapacityLimiter.acquire_on_behalf_of",
  "self._wait_queue[borrower] = event", "self._wait_queue[current_task()] = event", ["R10-d"])

N("c10-n-ge-to-not-lt", "C10", A, "CapacityLimiter.acquire_on_behalf_of_nowait",
  "if self._wait_queue or len(self._borrowers) >= self._total_tokens:", "if self._wait_queue or not (len(self._borrowers) < self._total_tokens):")
N("c10-n-flip", "C10", A, "CapacityLimiter._notify_next_waiter",
  "len(self._borrowers) < self._total_tokens", "self._total_tokens > len(self._borrowers)")
N("c10-n-sem-flip", "C10", A, "Semaphore.acquire", "if self._value > 0 and not self._waiters:", "if not self._waiters and 0 < self._value:")
N("c10-n-setter-helper-loop", "C10", A, "CapacityLimiter.total_tokens@setter",
  "        while self._wait_queue and len(self._borrowers) < self._total_tokens:\n            borrower, event = self._wait_queue.popitem(last=False)\n            self._borrowers.add(borrower)\n            event.set()\n",
  "        while True:\n            if not self._wait_queue:\n                break\n            if len(self._borrowers) >= self._total_tokens:\n                break\n            borrower, event = self._wait_queue.popitem(last=False)\n            self._borrowers.add(borrower)\n            event.set()\n")
