"""Seeded mutants (each breaks one obligation and the behaviour behind it while the module
still compiles) and hand-written neutral variants.  Located by (module, qualname, unique
source fragment) — never by line number."""
from __future__ import annotations

A = "_backends/_asyncio.py"
SYNC = "_core/_synchronization.py"
MEM = "streams/memory.py"
TASKS = "_core/_tasks.py"

MUTANTS: list[dict] = []
NEUTRAL: list[dict] = []


def M(id, prop, module, qual, old, new, expect=()):
    MUTANTS.append({"id": id, "prop": prop, "edits": [(module, qual, old, new)], "expect": list(expect)})


def MM(id, prop, edits, expect=()):
    MUTANTS.append({"id": id, "prop": prop, "edits": edits, "expect": list(expect)})


def NN(id, prop, edits):
    NEUTRAL.append({"id": id, "prop": prop, "edits": edits})


def N(id, prop, module, qual, old, new):
    NEUTRAL.append({"id": id, "prop": prop, "edits": [(module, qual, old, new)]})




def load_all():
    import importlib, os, pkgutil
    here = os.path.dirname(os.path.abspath(__file__))
    for fn in sorted(os.listdir(here)):
        if fn.startswith("m_c") and fn.endswith(".py"):
            importlib.import_module("sa.selftest." + fn[:-3])
