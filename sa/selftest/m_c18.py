"""C18 mutants / neutral variants"""
from sa.selftest.mutants import M, MM, N, A, SYNC

RC = "SocketStream.receive"
SD = "SocketStream.send"

M("c18-F8-revert-no-finally", "C18", A, RC,
  "                try:\n                    await self._protocol.read_event.wait()\n                finally:\n                    self._transport.pause_reading()",
  "                await self._protocol.read_event.wait()\n                self._transport.pause_reading()", ["R18-b"])
M("c18-F8-revert-accept-not-paused", "C18", A, "TCPSocketListener.accept", "        transport.pause_reading()\n", "", ["R18-b"])
M("c18-F8-revert-wrap-not-paused", "C18", A, "AsyncIOBackend.wrap_stream_socket", "        transport.pause_reading()\n", "", ["R18-b"])
M("c18-connect-not-paused", "C18", A, "AsyncIOBackend.connect_tcp", "        transport.pause_reading()\n", "", ["R18-b"])
M("c18-never-pause", "C18", A, RC, "                finally:\n                    self._transport.pause_reading()", "                finally:\n                    pass", ["R18-b"])
M("c18-never-resume", "C18", A, RC, "                self._transport.resume_reading()\n", "", ["R18-b"])
M("c18-wait-at-eof", "C18", A, RC, "                and not self._transport.is_closing()\n                and not self._protocol.is_at_eof\n", "                and not self._transport.is_closing()\n", ["R18-b"])
M("c18-wait-when-closing", "C18", A, RC, "                not self._protocol.read_event.is_set()\n                and not self._transport.is_closing()\n", "                not self._protocol.read_event.is_set()\n", ["R18-b"])
M("c18-split-drops-rest", "C18", A, RC, "                self._protocol.read_queue.appendleft(leftover)\n", "", ["R18-a"])
M("c18-split-rest-at-tail", "C18", A, RC, "self._protocol.read_queue.appendleft(leftover)", "self._protocol.read_queue.append(leftover)", ["R18-a"])
M("c18-split-off-by-one", "C18", A, RC, "chunk, leftover = chunk[:max_bytes], chunk[max_bytes:]", "chunk, leftover = chunk[:max_bytes], chunk[max_bytes + 1 :]", ["R18-a"])
M("c18-split-condition", "C18", A, RC, "            if len(chunk) > max_bytes:", "            if len(chunk) > max_bytes + 1:", ["R18-a"])
M("c18-no-split", "C18", A, RC, "            if len(chunk) > max_bytes:\n                # Split the oversized chunk\n                chunk, leftover = chunk[:max_bytes], chunk[max_bytes:]\n                self._protocol.read_queue.appendleft(leftover)\n", "", ["R18-a"])
M("c18-pop-tail", "C18", A, RC, "chunk = self._protocol.read_queue.popleft()", "chunk = self._protocol.read_queue.pop()", ["R18-a"])
M("c18-data-at-head", "C18", A, "StreamProtocol.data_received", "self.read_queue.append(bytes(data))", "self.read_queue.appendleft(bytes(data))", ["R18-a"])
M("c18-data-no-wake", "C18", A, "StreamProtocol.data_received", "        self.read_event.set()\n", "", ["R18-a"])
M("c18-event-never-cleared", "C18", A, RC, "            if not self._protocol.read_queue:\n                self._protocol.read_event.clear()\n", "", ["R18-c"])
M("c18-event-always-cleared", "C18", A, RC, "            if not self._protocol.read_queue:\n                self._protocol.read_event.clear()", "            self._protocol.read_event.clear()", ["R18-c"])
M("c18-event-clear-inverted", "C18", A, RC, "            if not self._protocol.read_queue:\n                self._protocol.read_event.clear()", "            if self._protocol.read_queue:\n                self._protocol.read_event.clear()", ["R18-c"])
M("c18-empty-closed-is-eof", "C18", A, RC, "                if self._closed:\n                    raise ClosedResourceError from None\n                elif self._protocol.exception:", "                if self._protocol.exception:", ["R18-c"])
M("c18-empty-broken-is-eof", "C18", A, RC, "                elif self._protocol.exception:\n                    raise BrokenResourceError from self._protocol.exception\n                else:\n                    raise EndOfStream from None", "                else:\n                    raise EndOfStream from None", ["R18-c"])
M("c18-empty-order-swapped", "C18", A, RC,
  "                if self._closed:\n                    raise ClosedResourceError from None\n                elif self._protocol.exception:\n                    raise BrokenResourceError from self._protocol.exception",
  "                if self._protocol.exception:\n                    raise BrokenResourceError from self._protocol.exception\n                elif self._closed:\n                    raise ClosedResourceError from None", ["R18-c"])
M("c18-no-checkpoint-fast-path", "C18", A, RC, "            else:\n                await AsyncIOBackend.checkpoint()\n", "", ["R18-c"])
M("c18-receive-unguarded", "C18", A, RC, "        with self._receive_guard:\n            if (", "        if True:\n            if (", ["R18-c"])
M("c18-receive-wrong-guard", "C18", A, RC, "        with self._receive_guard:", "        with self._send_guard:", ["R18-c"])
M("c18-send-unguarded", "C18", A, SD, "        with self._send_guard:\n            await AsyncIOBackend.checkpoint()", "        if True:\n            await AsyncIOBackend.checkpoint()", ["R18-c"])
M("c18-send-no-gate", "C18", A, SD, "            await self._protocol.write_event.wait()", "            pass", ["R18-b"])
M("c18-send-on-closed", "C18", A, SD, "            if self._closed:\n                raise ClosedResourceError\n            elif self._protocol.exception is not None:", "            if self._protocol.exception is not None:", ["R18-c"])
M("c18-send-on-broken", "C18", A, SD, "            elif self._protocol.exception is not None:\n                raise BrokenResourceError from self._protocol.exception\n", "", ["R18-c"])
M("c18-write-limit-default", "C18", A, "StreamProtocol.connection_made", "        cast(asyncio.Transport, transport).set_write_buffer_limits(0)\n", "", ["R18-b"])
M("c18-pause-writing-noop", "C18", A, "StreamProtocol.pause_writing", "        self.write_event = asyncio.Event()", "        pass", ["R18-b"])
M("c18-resume-writing-noop", "C18", A, "StreamProtocol.resume_writing", "        self.write_event.set()", "        pass", ["R18-b"])
M("c18-eof-closes-write-side", "C18", A, "StreamProtocol.eof_received", "        return True", "        return None", ["R18-c"])
M("c18-eof-no-wake", "C18", A, "StreamProtocol.eof_received", "        self.read_event.set()\n", "", ["R18-c"])
M("c18-eof-not-recorded", "C18", A, "StreamProtocol.eof_received", "        self.is_at_eof = True\n", "", ["R18-c"])
M("c18-lost-no-wake-writer", "C18", A, "StreamProtocol.connection_lost", "        self.write_event.set()\n", "", ["R18-c"])
M("c18-lost-error-dropped", "C18", A, "StreamProtocol.connection_lost", "        if exc:\n            self.exception = exc\n\n", "", ["R18-c"])
M("c18-aclose-mark-late", "C18", A, "SocketStream.aclose", "        self._closed = True\n        if not self._transport.is_closing():", "        if not self._transport.is_closing():\n            self._closed = True", ["R18-c"])
M("c18-aclose-no-eof", "C18", A, "SocketStream.aclose", "            try:\n                self._transport.write_eof()\n            except OSError:\n                pass\n\n            self._transport.close()", "            self._transport.close()", ["R18-c"])
M("c18-guard-no-busy", "C18", SYNC, "ResourceGuard.__enter__", "        if self._guarded:\n            raise BusyResourceError(self.action)\n\n", "", ["R18-c"])
M("c18-guard-not-released", "C18", SYNC, "ResourceGuard.__exit__", "        self._guarded = False", "        if exc_type is None:\n            self._guarded = False", ["R18-c"])
M("c18-unix-recv-unbounded", "C18", A, "UNIXSocketStream.receive", "data = self._raw_socket.recv(max_bytes)", "data = self._raw_socket.recv(65536)", ["R18-a"])
M("c18-unix-empty-returned", "C18", A, "UNIXSocketStream.receive", "                    if not data:\n                        raise EndOfStream\n\n", "", ["R18-c"])
M("c18-unix-send-once", "C18", A, "UNIXSocketStream.send", "            while view:", "            if view:", ["R18-a"])
M("c18-unix-send-advance-wrong", "C18", A, "UNIXSocketStream.send", "                    view = view[bytes_sent:]", "                    view = view[bytes_sent + 1 :]", ["R18-a"])
M("c18-unix-send-no-advance", "C18", A, "UNIXSocketStream.send", "                else:\n                    view = view[bytes_sent:]", "                else:\n                    break", ["R18-a"])
M("c18-unix-oserror-first", "C18", A, "UNIXSocketStream.send",
  "                except BlockingIOError:\n                    await self._wait_until_writable(loop)\n                except OSError as exc:\n                    if self._closing:\n                        raise ClosedResourceError from None\n                    else:\n                        raise BrokenResourceError from exc",
  "                except OSError as exc:\n                    if self._closing:\n                        raise ClosedResourceError from None\n                    else:\n                        raise BrokenResourceError from exc\n                except BlockingIOError:\n                    await self._wait_until_writable(loop)", ["R18-c"])
M("c18-unix-closed-is-broken", "C18", A, "UNIXSocketStream.receive", "                    if self._closing:\n                        raise ClosedResourceError from None\n                    else:\n                        raise BrokenResourceError from exc",
  "                    if not self._closing:\n                        raise ClosedResourceError from None\n                    else:\n                        raise BrokenResourceError from exc", ["R18-c"])
M("c18-unix-receive-unguarded", "C18", A, "UNIXSocketStream.receive", "        with self._receive_guard:\n            while True:", "        if True:\n            while True:", ["R18-c"])

N("c18-n-split-two-statements", "C18", A, RC, "            if len(chunk) > max_bytes:", "            if max_bytes < len(chunk):")
N("c18-n-clear-flip", "C18", A, RC, "            if not self._protocol.read_queue:\n                self._protocol.read_event.clear()", "            if self._protocol.read_queue:\n                pass\n            else:\n                self._protocol.read_event.clear()")
N("c18-n-wait-cond-order", "C18", A, RC, "                not self._protocol.read_event.is_set()\n                and not self._transport.is_closing()\n                and not self._protocol.is_at_eof\n",
  "                not self._protocol.is_at_eof\n                and not self._protocol.read_event.is_set()\n                and not self._transport.is_closing()\n")

M("c18-anext-swallows-errors", "C18", "abc/_streams.py", "ByteReceiveStream.__anext__", "        except EndOfStream:", "        except (EndOfStream, OSError, Exception):", ["R18-d"])

# from seeded change C18/a
M("c18-clear-before-split", "C18", A, RC,
  "            if len(chunk) > max_bytes:\n                # Split the oversized chunk\n                chunk, leftover = chunk[:max_bytes], chunk[max_bytes:]\n                self._protocol.read_queue.appendleft(leftover)\n\n            # If the read queue is empty, clear the flag so that the next call will\n            # block until data is available\n            if not self._protocol.read_queue:\n                self._protocol.read_event.clear()\n",
  "            if not self._protocol.read_queue:\n                self._protocol.read_event.clear()\n\n            if len(chunk) > max_bytes:\n                # Split the oversized chunk\n                chunk, leftover = chunk[:max_bytes], chunk[max_bytes:]\n                self._protocol.read_queue.appendleft(leftover)\n", ["R18-c"])

# from seeded changes C18/e, C18/f (round 3)
M("c18-unix-send-eof-under-receive-guard", "C18", A, "UNIXSocketStream.send_eof", "        with self._send_guard:", "        with self._receive_guard:", ["R18-e"])
M("c18-validate-socket-object-stays-blocking", "C18", "abc/_sockets.py", "_validate_socket", "    elif isinstance(sock_or_fd, socket.socket):\n        sock = sock_or_fd\n",
  "    elif isinstance(sock_or_fd, socket.socket):\n        return sock_or_fd\n", ["R18-f"])
N("c18-n-validate-socket-setblocking-per-branch", "C18", "abc/_sockets.py", "_validate_socket", "    elif isinstance(sock_or_fd, socket.socket):\n        sock = sock_or_fd\n", "    elif isinstance(sock_or_fd, socket.socket):\n        sock = sock_or_fd\n        sock.setblocking(False)\n")

# from seeded change C18/h (round 4)
M("c18-send-fds-waits-for-readable", "C18", A, "UNIXSocketStream.send_fds", "                    await self._wait_until_writable(loop)", "                    await self._wait_until_readable(loop)", ["R18-g"])
M("c18-writable-helper-registers-reader", "C18", A, "_RawSocketMixin._wait_until_writable", "        loop.add_writer(self.__raw_socket, f.set_result, None)", "        loop.add_reader(self.__raw_socket, f.set_result, None)", ["R18-g"])
N("c18-n-wait-helper-statement-order", "C18", A, "_RawSocketMixin._wait_until_writable",
  "        f = self._send_future = asyncio.Future()\n        loop.add_writer(self.__raw_socket, f.set_result, None)\n        f.add_done_callback(callback)",
  "        f = asyncio.Future()\n        self._send_future = f\n        f.add_done_callback(callback)\n        loop.add_writer(self.__raw_socket, f.set_result, None)")

# from seeded changes C18/i, C18/j (round 5)
MM("c18-stale-write-event-snapshot", "C18", [(A, SD, "            try:\n                self._transport.write(item)", "            write_event = self._protocol.write_event\n            try:\n                self._transport.write(item)"),
                                               (A, SD, "            await self._protocol.write_event.wait()", "            await write_event.wait()")], ["R18-b"])
M("c18-raw-close-wakes-one-direction", "C18", A, "_RawSocketMixin.aclose", "            if self._send_future and not self._send_future.done():", "            elif self._send_future and not self._send_future.done():", ["R18-h"])
