"""C10 mutants / neutral variants"""
from sa.selftest.mutants import M, MM, N, A, SYNC, MEM, TASKS


M("c10-F1-revert-delta-grant", "C10", A, "CapacityLimiter.total_tokens@setter",
  "        self._total_tokens = value\n\n        # Notify waiting tasks that they have acquired the limiter\n        while self._wait_queue and len(self._borrowers) < self._total_tokens:\n            borrower, event = self._wait_queue.popitem(last=False)\n            self._borrowers.add(borrower)\n            event.set()\n",
  "        waiters_to_notify = max(value - self._total_tokens, 0)\n        self._total_tokens = value\n\n        # Notify waiting tasks that they have acquired the limiter\n        while self._wait_queue and waiters_to_notify:\n            borrower, event = self._wait_queue.popitem(last=False)\n            self._borrowers.add(borrower)\n            event.set()\n            waiters_to_notify -= 1\n",
  ["R10-a"])
M("c10-F6-revert-wrong-undo", "C10", A, "CapacityLimiter.acquire_on_behalf_of",
  "self.release_on_behalf_of(borrower)", "self.release()", ["R10-e"])
M("c10-notify-without-capacity", "C10", A, "CapacityLimiter._notify_next_waiter",
  "if self._wait_queue and len(self._borrowers) < self._total_tokens:", "if self._wait_queue:", ["R10-a"])
M("c10-nowait-barging", "C10", A, "CapacityLimiter.acquire_on_behalf_of_nowait",
  "if self._wait_queue or len(self._borrowers) >= self._total_tokens:", "if len(self._borrowers) >= self._total_tokens:", ["R10-a"])
M("c10-nowait-off-by-one", "C10", A, "CapacityLimiter.acquire_on_behalf_of_nowait",
  "len(self._borrowers) >= self._total_tokens:", "len(self._borrowers) > self._total_tokens:", ["R10-a"])
M("c10-double-borrow", "C10", A, "CapacityLimiter.acquire_on_behalf_of_nowait",
  "        if borrower in self._borrowers:\n            raise RuntimeError(\n                \"this borrower is already holding one of this CapacityLimiter's tokens\"\n            )\n", "", ["R10-a"])
M("c10-limiter-lifo", "C10", A, "CapacityLimiter._notify_next_waiter", "popitem(last=False)", "popitem()", ["R10-c", "R10-a"])
M("c10-sem-lifo", "C10", A, "Semaphore.release", "self._waiters.popleft()", "self._waiters.pop()", ["R10-c", "R10-b"])
M("c10-cancelled-waiter-keeps-token", "C10", A, "CapacityLimiter.acquire_on_behalf_of",
  "                if event.is_set():\n                    self._borrowers.discard(borrower)\n                    self._notify_next_waiter()\n", "", ["R10-d"])
M("c10-cancelled-waiter-no-pass-on", "C10", A, "CapacityLimiter.acquire_on_behalf_of",
  "                    self._borrowers.discard(borrower)\n                    self._notify_next_waiter()\n", "                    self._borrowers.discard(borrower)\n", ["R10-d"])
M("c10-cancelled-waiter-stays-queued", "C10", A, "CapacityLimiter.acquire_on_behalf_of",
  "                self._wait_queue.pop(borrower, None)\n", "", ["R10-d"])
M("c10-waiter-swallows-cancel", "C10", A, "CapacityLimiter.acquire_on_behalf_of",
  "                    self._notify_next_waiter()\n\n                raise", "                    self._notify_next_waiter()\n", ["R10-d"])
M("c10-limiter-no-cancel-check", "C10", A, "CapacityLimiter.acquire_on_behalf_of",
  "        await AsyncIOBackend.checkpoint_if_cancelled()\n", "", ["R10-d"])
M("c10-limiter-no-yield", "C10", A, "CapacityLimiter.acquire_on_behalf_of",
  "            try:\n                await AsyncIOBackend.cancel_shielded_checkpoint()\n            except BaseException:\n                self.release_on_behalf_of(borrower)\n                raise",
  "            pass", ["R10-d"])
M("c10-release-no-notify", "C10", A, "CapacityLimiter.release_on_behalf_of", "        self._notify_next_waiter()\n", "", ["R10-f"])
M("c10-release-nonborrower-silent", "C10", A, "CapacityLimiter.release_on_behalf_of",
  "            self._borrowers.remove(borrower)\n        except KeyError:\n            raise RuntimeError(\n                \"this borrower isn't holding any of this CapacityLimiter's tokens\"\n            ) from None",
  "            self._borrowers.remove(borrower)\n        except KeyError:\n            return", ["R10-f"])
M("c10-aexit-conditional-release", "C10", A, "CapacityLimiter.__aexit__", "        self.release()", "        if exc_val is None:\n            self.release()", ["R10-f"])
M("c10-available-wrong", "C10", A, "CapacityLimiter.available_tokens", "self._total_tokens - len(self._borrowers)", "self._total_tokens - len(self._borrowers) - len(self._wait_queue)", ["R10-g"])
M("c10-foreign-writer", "C10", A, "CapacityLimiter.statistics", "        return CapacityLimiterStatistics(", "        self._borrowers.discard(None)\n        return CapacityLimiterStatistics(", ["R10-g"])
M("c10-negative-total", "C10", A, "CapacityLimiter.total_tokens@setter",
  "        if value < 0:\n            raise ValueError(\"total_tokens must be >= 0\")\n", "", ["R10-g"])
M("c10-sem-barging", "C10", A, "Semaphore.acquire", "if self._value > 0 and not self._waiters:", "if self._value > 0:", ["R10-b"])
M("c10-sem-negative", "C10", A, "Semaphore.acquire_nowait", "        if self._value == 0:\n            raise WouldBlock\n\n", "", ["R10-b"])
M("c10-sem-release-double", "C10", A, "Semaphore.release",
  "            fut.set_result(None)\n            return", "            fut.set_result(None)\n            break", ["R10-b"])
M("c10-sem-release-to-cancelled", "C10", A, "Semaphore.release", "            if fut.cancelled():\n                continue\n\n", "", ["R10-b"])
M("c10-sem-max-ignored", "C10", A, "Semaphore.release",
  "        if self._max_value is not None and self._value == self._max_value:\n            raise ValueError(\"semaphore released too many times\")\n", "", ["R10-b"])
M("c10-sem-max-after", "C10", A, "Semaphore.release",
  "        self._value += 1", "        self._value += 1\n        if self._max_value is not None and self._value > self._max_value:\n            raise ValueError(\"semaphore released too many times\")", ["R10-b"])
M("c10-sem-cancelled-waiter-keeps-permit", "C10", A, "Semaphore.acquire",
  "            else:\n                self.release()\n\n            raise", "            raise", ["R10-d"])
M("c10-sem-fast-no-undo", "C10", A, "Semaphore.acquire",
  "                except CancelledError:\n                    self.release()\n                    raise\n\n            return", "                except CancelledError:\n                    raise\n\n            return", ["R10-d"])
M("c10-sem-real-checkpoint", "C10", A, "Semaphore.acquire",
  "await AsyncIOBackend.checkpoint_if_cancelled()\n            self._value -= 1", "await AsyncIOBackend.checkpoint()\n            self._value -= 1", ["R10-b"])
M("c10-limiter-register-under-wrong-key", "C10", A, "CapacityLimiter.acquire_on_behalf_of",
  "self._wait_queue[borrower] = event", "self._wait_queue[current_task()] = event", ["R10-d"])

N("c10-n-ge-to-not-lt", "C10", A, "CapacityLimiter.acquire_on_behalf_of_nowait",
  "if self._wait_queue or len(self._borrowers) >= self._total_tokens:", "if self._wait_queue or not (len(self._borrowers) < self._total_tokens):")
N("c10-n-flip", "C10", A, "CapacityLimiter._notify_next_waiter",
  "len(self._borrowers) < self._total_tokens", "self._total_tokens > len(self._borrowers)")
N("c10-n-sem-flip", "C10", A, "Semaphore.acquire", "if self._value > 0 and not self._waiters:", "if not self._waiters and 0 < self._value:")
N("c10-n-setter-helper-loop", "C10", A, "CapacityLimiter.total_tokens@setter",
  "        while self._wait_queue and len(self._borrowers) < self._total_tokens:\n            borrower, event = self._wait_queue.popitem(last=False)\n            self._borrowers.add(borrower)\n            event.set()\n",
  "        while True:\n            if not self._wait_queue:\n                break\n            if len(self._borrowers) >= self._total_tokens:\n                break\n            borrower, event = self._wait_queue.popitem(last=False)\n            self._borrowers.add(borrower)\n            event.set()\n")

# ---- adapters / factories / async with (R10-h)
M("c10-sem-adapter-drops-max", "C10", SYNC, "SemaphoreAdapter._semaphore", "self._initial_value, max_value=self._max_value", "self._initial_value", ["R10-h"])
M("c10-sem-adapter-release-twice", "C10", SYNC, "SemaphoreAdapter.release", "        self._semaphore.release()", "        if self._internal_semaphore is not None and self._internal_semaphore.value == 0:\n            return\n        self._semaphore.release()", ["R10-h"])
M("c10-sem-aexit-conditional", "C10", SYNC, "Semaphore.__aexit__", "        self.release()", "        if exc_val is None:\n            self.release()", ["R10-h"])
M("c10-limiter-adapter-wrong-borrower", "C10", SYNC, "CapacityLimiterAdapter.release_on_behalf_of", "self._limiter.release_on_behalf_of(borrower)", "self._limiter.release()", ["R10-h"])
M("c10-limiter-adapter-acquire-not-awaited", "C10", SYNC, "CapacityLimiterAdapter.acquire_on_behalf_of", "        await self._limiter.acquire_on_behalf_of(borrower)", "        self._limiter.acquire_on_behalf_of_nowait(borrower)", ["R10-h"])
M("c10-limiter-adapter-setter-lost", "C10", SYNC, "CapacityLimiterAdapter.total_tokens@setter", "        self._limiter.total_tokens = value", "        self._total_tokens = value", ["R10-h"])
M("c10-limiter-adapter-available-stale", "C10", SYNC, "CapacityLimiterAdapter.available_tokens", "        return self._internal_limiter.available_tokens", "        return self._total_tokens", ["R10-h"])
M("c10-limiter-factory-wrong-adapter-arg", "C10", SYNC, "CapacityLimiter.__new__", "return CapacityLimiterAdapter(total_tokens)", "return CapacityLimiterAdapter(1)", ["R10-h"])

# from seeded changes C10/g, C10/h (round 4)
M("c10-negative-initial-value-accepted-with-max", "C10", SYNC, "Semaphore.__init__",
  "        if initial_value < 0:\n            raise ValueError(\"initial_value must be >= 0\")\n        if max_value is not None:",
  "        if max_value is None and initial_value < 0:\n            raise ValueError(\"initial_value must be >= 0\")\n        if max_value is not None:", ["R10-j"])
M("c10-max-guard-after-handover", "C10", A, "Semaphore.release",
  "        if self._max_value is not None and self._value == self._max_value:\n            raise ValueError(\"semaphore released too many times\")\n\n        while self._waiters:\n            fut = self._waiters.popleft()\n            if fut.cancelled():\n                continue\n\n            fut.set_result(None)\n            return\n\n",
  "        while self._waiters:\n            fut = self._waiters.popleft()\n            if fut.cancelled():\n                continue\n\n            fut.set_result(None)\n            return\n\n        if self._max_value is not None and self._value == self._max_value:\n            raise ValueError(\"semaphore released too many times\")\n\n", ["R10-b"])
M("c10-backend-semaphore-skips-validation", "C10", A, "Semaphore.__init__", "        super().__init__(initial_value, max_value=max_value)\n        self._value = initial_value", "        self._value = initial_value", ["R10-j"])
M("c10-release-drops-live-waiter", "C10", A, "Semaphore.release", "            if fut.cancelled():\n                continue\n\n            fut.set_result(None)", "            if fut.cancelled() or fut.done():\n                continue\n\n            fut.set_result(None)", ["R10-b"])
N("c10-n-validation-restructured", "C10", SYNC, "Semaphore.__init__",
  "        if initial_value < 0:\n            raise ValueError(\"initial_value must be >= 0\")\n        if max_value is not None:\n            if not isinstance(max_value, int):\n                raise TypeError(\"max_value must be an integer or None\")\n            if max_value < initial_value:",
  "        if not initial_value >= 0:\n            raise ValueError(\"initial_value must be >= 0\")\n        if max_value is None:\n            pass\n        else:\n            if not isinstance(max_value, int):\n                raise TypeError(\"max_value must be an integer or None\")\n            if initial_value > max_value:")
N("c10-n-release-guard-spelled-differently", "C10", A, "Semaphore.release",
  "        if self._max_value is not None and self._value == self._max_value:\n            raise ValueError(\"semaphore released too many times\")",
  "        if self._max_value is None:\n            pass\n        elif self._max_value == self._value:\n            raise ValueError(\"semaphore released too many times\")")

# from seeded changes C10/i, C10/j (round 5)
M("c10-undo-covers-duplicate-acquire", "C10", A, "CapacityLimiter.acquire_on_behalf_of",
  "        try:\n            self.acquire_on_behalf_of_nowait(borrower)\n        except WouldBlock:",
  "        try:\n            self.acquire_on_behalf_of_nowait(borrower)\n        except RuntimeError:\n            self.release_on_behalf_of(borrower)\n            raise\n        except WouldBlock:", ["R10-e"])
M("c10-nan-total-accepted", "C10", A, "CapacityLimiter.total_tokens@setter", "        if not isinstance(value, int) and not math.isinf(value):", "        if not isinstance(value, int) and math.isfinite(value):", ["R10-k"])
M("c10-adapter-nan-total-accepted", "C10", SYNC, "CapacityLimiterAdapter.total_tokens@setter", "        if not isinstance(value, int) and not math.isinf(value):", "        if not isinstance(value, int) and math.isfinite(value):", ["R10-k"])
