"""C15 mutants / neutral variants"""
from sa.selftest.mutants import M, MM, N, A

FT = "from_thread.py"
CF = "BlockingPortal._call_func"

M("c15-result-on-cancelled", "C15", FT, CF, "        else:\n            if not future.cancelled():\n                future.set_result(retval)", "        else:\n            future.set_result(retval)", ["R15-a"])
M("c15-exception-on-cancelled", "C15", FT, CF, "            if not future.cancelled():\n                future.set_exception(exc)\n", "            future.set_exception(exc)\n", ["R15-a"])
M("c15-exception-dropped", "C15", FT, CF, "            if not future.cancelled():\n                future.set_exception(exc)\n", "            pass\n", ["R15-a"])
M("c15-exception-only-exception", "C15", FT, CF, "        except BaseException as exc:\n            if not future.cancelled():", "        except Exception as exc:\n            if not future.cancelled():", ["R15-a"])
M("c15-base-exception-swallowed", "C15", FT, CF, "            if not isinstance(exc, Exception):\n                raise\n", "", ["R15-a"])
M("c15-cancel-no-notify", "C15", FT, CF, "            future.cancel()\n            future.set_running_or_notify_cancel()", "            future.cancel()", ["R15-a"])
M("c15-cancel-handler-after-base", "C15", FT, CF,
  "        except get_cancelled_exc_class():\n            future.cancel()\n            future.set_running_or_notify_cancel()\n        except BaseException as exc:\n            if not future.cancelled():\n                future.set_exception(exc)\n\n            # Let base exceptions fall through\n            if not isinstance(exc, Exception):\n                raise\n",
  "        except BaseException as exc:\n            if not future.cancelled():\n                future.set_exception(exc)\n\n            # Let base exceptions fall through\n            if not isinstance(exc, Exception):\n                raise\n        except get_cancelled_exc_class():\n            future.cancel()\n            future.set_running_or_notify_cancel()\n", ["R15-a"])
M("c15-callback-not-registered", "C15", FT, CF, "                    future.add_done_callback(callback)\n", "", ["R15-a"])
M("c15-callback-after-await", "C15", FT, CF, "                    future.add_done_callback(callback)\n                    retval = await retval_or_awaitable", "                    retval = await retval_or_awaitable\n                    future.add_done_callback(callback)", ["R15-a"])
M("c15-await-outside-scope", "C15", FT, CF, "                with CancelScope() as scope:\n                    future.add_done_callback(callback)\n                    retval = await retval_or_awaitable",
  "                with CancelScope() as scope:\n                    future.add_done_callback(callback)\n\n                retval = await retval_or_awaitable", ["R15-a"])
M("c15-scope-shielded", "C15", FT, CF, "with CancelScope() as scope:", "with CancelScope(shield=True) as scope:", ["R15-a"])
M("c15-callback-cancels-always", "C15", FT, CF, "            if f.cancelled():\n                if event_loop_thread_id == get_ident():", "            if True:\n                if event_loop_thread_id == get_ident():", ["R15-a"])
M("c15-callback-no-token", "C15", FT, CF, "scope.cancel, \"the future was cancelled\", token=self._token", "scope.cancel, \"the future was cancelled\"", ["R15-a"])
M("c15-result-not-awaited", "C15", FT, CF, "                    retval = await retval_or_awaitable", "                    await retval_or_awaitable\n                    retval = None", ["R15-a"])
M("c15-double-call", "C15", FT, CF, "            else:\n                retval = retval_or_awaitable", "            else:\n                retval = func(*args, **kwargs)", ["R15-a"])
M("c15-soon-no-running-check", "C15", FT, "BlockingPortal.start_task_soon", "        self._check_running()\n", "", ["R15-b"])
M("c15-start-task-check-late", "C15", FT, "BlockingPortal.start_task",
  "        self._check_running()\n        task_status_future: Future = Future()", "        task_status_future: Future = Future()", ["R15-b"])
M("c15-check-running-none-ok", "C15", FT, "BlockingPortal._check_running", "        if self._event_loop_thread_id is None:\n            raise RuntimeError(\"This portal is not running\")\n", "", ["R15-b"])
M("c15-stop-keeps-running", "C15", FT, "BlockingPortal.stop", "        self._event_loop_thread_id = None\n", "", ["R15-b"])
M("c15-stop-no-event", "C15", FT, "BlockingPortal.stop", "        self._stop_event.set()\n", "", ["R15-b"])
M("c15-stop-cancel-inverted", "C15", FT, "BlockingPortal.stop", "        if cancel_remaining:", "        if not cancel_remaining:", ["R15-b"])
M("c15-stop-never-cancels", "C15", FT, "BlockingPortal.stop", "        if cancel_remaining:\n            self._task_group.cancel_scope.cancel(\"the blocking portal is shutting down\")", "        pass", ["R15-b"])
M("c15-call-not-result", "C15", FT, "BlockingPortal.call", "return cast(T_Retval, self.start_task_soon(func, *args).result())", "return cast(T_Retval, self.start_task_soon(func, *args))", ["R15-b"])
M("c15-soon-returns-other-future", "C15", FT, "BlockingPortal.start_task_soon", "        self._spawn_task_from_thread(func, args, {}, name, f)\n        return f", "        self._spawn_task_from_thread(func, args, {}, name, f)\n        return Future()", ["R15-b"])
M("c15-spawn-other-group", "C15", FT, "BlockingPortal._spawn_task_from_thread", "partial(self._task_group.start_soon, name=name)", "partial(create_task_group().start_soon, name=name)", ["R15-c"])
M("c15-spawn-args-swapped", "C15", FT, "BlockingPortal._spawn_task_from_thread", "            func,\n            args,\n            kwargs,\n            future,", "            func,\n            kwargs,\n            args,\n            future,", ["R15-c"])
M("c15-spawn-no-token", "C15", FT, "BlockingPortal._spawn_task_from_thread", "            future,\n            token=self._token,\n", "            future,\n", ["R15-c"])
M("c15-aexit-no-join", "C15", FT, "BlockingPortal.__aexit__", "        return await self._task_group.__aexit__(exc_type, exc_val, exc_tb)", "        self._task_group.cancel_scope.cancel()\n        return False", ["R15-d"])
M("c15-aexit-no-stop", "C15", FT, "BlockingPortal.__aexit__", "        await self.stop()\n", "", ["R15-d"])
M("c15-aexit-join-before-stop", "C15", FT, "BlockingPortal.__aexit__", "        await self.stop()\n        return await self._task_group.__aexit__(exc_type, exc_val, exc_tb)",
  "        res = await self._task_group.__aexit__(exc_type, exc_val, exc_tb)\n        await self.stop()\n        return res", ["R15-d"])
M("c15-sbp-no-join", "C15", FT, "start_blocking_portal", "    finally:\n        thread.join()", "    finally:\n        pass", ["R15-d"])
M("c15-sbp-join-not-finally", "C15", FT, "start_blocking_portal", "    finally:\n        thread.join()", "    except RuntimeError:\n        raise\n    thread.join()", ["R15-d"])
M("c15-sbp-flag-never-set", "C15", FT, "start_blocking_portal", "        except BaseException:\n            cancel_remaining_tasks = True\n            raise", "        except BaseException:\n            raise", ["R15-d"])
M("c15-sbp-swallow", "C15", FT, "start_blocking_portal", "            cancel_remaining_tasks = True\n            raise\n", "            cancel_remaining_tasks = True\n", ["R15-d"])
M("c15-sbp-flag-only-exception", "C15", FT, "start_blocking_portal", "        except BaseException:\n            cancel_remaining_tasks = True", "        except Exception:\n            cancel_remaining_tasks = True", ["R15-d"])
M("c15-sbp-stop-not-finally", "C15", FT, "start_blocking_portal",
  "        finally:\n            try:\n                portal.call(portal.stop, cancel_remaining_tasks)\n            except RuntimeError:\n                pass",
  "        else:\n            try:\n                portal.call(portal.stop, cancel_remaining_tasks)\n            except RuntimeError:\n                pass", ["R15-d"])
M("c15-run-portal-no-cm", "C15", FT, "start_blocking_portal",
  "        async with BlockingPortal() as portal_:\n            if name is None:\n                current_thread().name = f\"{backend}-portal-{id(portal_):x}\"\n\n            future.set_result(portal_)\n            await portal_.sleep_until_stopped()",
  "        portal_ = BlockingPortal()\n        await portal_.__aenter__()\n        if name is None:\n            current_thread().name = f\"{backend}-portal-{id(portal_):x}\"\n\n        future.set_result(portal_)\n        await portal_.sleep_until_stopped()", ["R15-d"])
M("c15-task-done-overwrites", "C15", FT, "BlockingPortal.start_task", "            if not task_status_future.done():\n                if future.cancelled():", "            if True:\n                if future.cancelled():", ["R15-e"])
M("c15-task-done-no-runtime-error", "C15", FT, "BlockingPortal.start_task",
  "                else:\n                    exc = RuntimeError(\n                        \"Task exited without calling task_status.started()\"\n                    )\n                    task_status_future.set_exception(exc)", "", ["R15-e"])
M("c15-task-done-cancel-dropped", "C15", FT, "BlockingPortal.start_task", "                if future.cancelled():\n                    task_status_future.cancel()\n                elif future.exception():", "                if future.cancelled():\n                    pass\n                elif future.exception():", ["R15-e"])
M("c15-started-drops-value", "C15", FT, "_BlockingPortalTaskStatus.started", "self._future.set_result(value)", "self._future.set_result(None)", ["R15-e"])
M("c15-start-task-callback-late", "C15", FT, "BlockingPortal.start_task",
  "        f.add_done_callback(task_done)\n        self._spawn_task_from_thread(func, args, {\"task_status\": task_status}, name, f)", "        self._spawn_task_from_thread(func, args, {\"task_status\": task_status}, name, f)\n        f.add_done_callback(task_done)", ["R15-e"])
M("c15-from-thread-sync-no-exc", "C15", A, "AsyncIOBackend.run_sync_from_thread", "                f.set_exception(exc)\n", "", ["R15-f"])

N("c15-n-result-guard-flip", "C15", FT, CF, "        else:\n            if not future.cancelled():\n                future.set_result(retval)", "        else:\n            if future.cancelled():\n                pass\n            else:\n                future.set_result(retval)")
N("c15-n-stop-order", "C15", FT, "BlockingPortal.stop", "        self._event_loop_thread_id = None\n        self._stop_event.set()", "        self._stop_event.set()\n        self._event_loop_thread_id = None")

# from seeded change C15/d (round 2)
M("c15-provider-forwards-exception", "C15", FT, "BlockingPortalProvider.__exit__", "portal_cm.__exit__(None, None, None)", "portal_cm.__exit__(exc_type, exc_val, exc_tb)", ["R15-g"])
M("c15-provider-stops-with-leases-left", "C15", FT, "BlockingPortalProvider.__exit__", "            if not self._leases:", "            if True:", ["R15-g"])
M("c15-provider-second-portal", "C15", FT, "BlockingPortalProvider.__enter__", "            if self._portal_cm is None:", "            if True:", ["R15-g"])

# from seeded change C15/f (round 3)
M("c15-thread-token-overrides-explicit-token", "C15", FT, "_token_or_error",
  "    if token is not None:\n        return token\n\n    try:\n        return threadlocals.current_token\n    except AttributeError:",
  "    token = getattr(threadlocals, \"current_token\", token)\n    if token is not None:\n        return token\n\n    try:\n        return threadlocals.current_token\n    except AttributeError:", ["R15-f"])
N("c15-n-token-or-error-single-exit", "C15", FT, "_token_or_error",
  "    if token is not None:\n        return token\n\n    try:\n        return threadlocals.current_token\n    except AttributeError:",
  "    if token is None:\n        try:\n            token = threadlocals.current_token\n        except AttributeError:\n            token = None\n\n    if token is not None:\n        return token\n\n    try:\n        raise AttributeError\n    except AttributeError:")

# from seeded changes C15/g, C15/h (round 4)
MM("c15-provider-shutdown-under-lock", "C15", [(FT, "BlockingPortalProvider.__exit__",
  "                del self._portal\n\n        if portal_cm:\n            portal_cm.__exit__(None, None, None)",
  "                del self._portal\n                portal_cm.__exit__(None, None, None)")], ["R15-g"])
M("c15-provider-forgets-portal-after-shutdown", "C15", FT, "BlockingPortalProvider.__exit__",
  "                portal_cm = self._portal_cm\n                self._portal_cm = None\n                del self._portal\n\n        if portal_cm:\n            portal_cm.__exit__(None, None, None)",
  "                portal_cm = self._portal_cm\n\n        if portal_cm:\n            try:\n                portal_cm.__exit__(None, None, None)\n            finally:\n                with self._lock:\n                    self._portal_cm = None\n                    del self._portal", ["R15-g"])
N("c15-n-provider-exit-else-form", "C15", FT, "BlockingPortalProvider.__exit__",
  "            if not self._leases:\n                portal_cm = self._portal_cm\n                self._portal_cm = None\n                del self._portal",
  "            if self._leases == 0:\n                del self._portal\n                portal_cm, self._portal_cm = self._portal_cm, None")
