"""Behaviour-preserving source transforms; every check must stay silent on them."""
from __future__ import annotations

import ast
import builtins
import os

TRANSFORMS = ["unparse_roundtrip", "rename_locals", "swap_if_else", "insert_pass", "return_temp", "elif_to_nested", "insert_logging", "len_tests", "swap_independent", "combo", "rename_private_fields"]


def transforms_for(prop: str):
    return list(TRANSFORMS)


def _modules_of(prop: str, root: str):
    from sa import run as R
    ctx, _ = R.run_rules(prop, root, "quick")
    mods = set()
    for o in ctx.obs:
        w = o.where.split(":")[0]
        if w.startswith("src/anyio/"):
            mods.add(w[len("src/anyio/"):])
    for f in ctx.stats["functions"]:
        pass
    for rel in ctx.repo.modules:
        pass
    return sorted(mods)


def apply(name: str, root: str, prop: str) -> bool:
    mods = _modules_of(prop, root)
    if not mods:
        return False
    for rel in mods:
        p = os.path.join(root, "src", "anyio", rel)
        src = open(p, encoding="utf-8").read()
        tree = ast.parse(src)
        if name == "unparse_roundtrip":
            pass
        elif name == "rename_locals":
            _rename_locals(tree)
        elif name == "swap_if_else":
            _SwapIf().visit(tree)
        elif name == "insert_pass":
            _InsertPass().visit(tree)
        elif name == "return_temp":
            _ReturnTemp().visit(tree)
        elif name == "elif_to_nested":
            _ElifNested().visit(tree)
        elif name == "insert_logging":
            _InsertLogging().visit(tree)
        elif name == "len_tests":
            _LenTests().visit(tree)
        elif name == "swap_independent":
            _SwapIndependent().visit(tree)
        elif name == "rename_private_fields":
            _rename_private_fields(tree)
        elif name == "combo":
            # everything at once: the transforms must also compose
            _SwapIf().visit(tree)
            _ElifNested().visit(tree)
            _ReturnTemp().visit(tree)
            _LenTests().visit(tree)
            _SwapIndependent().visit(tree)
            _InsertLogging().visit(tree)
            _rename_locals(tree)
        else:
            return False
        ast.fix_missing_locations(tree)
        out = ast.unparse(tree)
        ast.parse(out)
        with open(p, "w", encoding="utf-8") as fh:
            fh.write(out + "\n")
    return True


# ----------------------------------------------------------------------------- rename locals
def _rename_locals(tree: ast.Module):
    for node in ast.walk(tree):
        if isinstance(node, ast.ClassDef):
            for ch in node.body:
                if isinstance(ch, (ast.FunctionDef, ast.AsyncFunctionDef)):
                    _rename_in(ch)
    for ch in tree.body:
        if isinstance(ch, (ast.FunctionDef, ast.AsyncFunctionDef)):
            _rename_in(ch)


def _rename_in(fn):
    assigned = set()
    params = set()
    declared = set()
    for n in ast.walk(fn):
        if isinstance(n, (ast.FunctionDef, ast.AsyncFunctionDef, ast.Lambda)):
            a = n.args
            for x in a.posonlyargs + a.args + a.kwonlyargs:
                params.add(x.arg)
            if a.vararg:
                params.add(a.vararg.arg)
            if a.kwarg:
                params.add(a.kwarg.arg)
            if n is not fn and not isinstance(n, ast.Lambda):
                declared.add(n.name)   # nested def names stay (they may be referenced in reprs) - harmless
        elif isinstance(n, (ast.Global, ast.Nonlocal)):
            declared |= set(n.names)
        elif isinstance(n, ast.Name) and isinstance(n.ctx, (ast.Store, ast.Del)):
            assigned.add(n.id)
        elif isinstance(n, ast.ExceptHandler) and n.name:
            assigned.add(n.name)
        elif isinstance(n, ast.ClassDef):
            declared.add(n.name)
        elif isinstance(n, (ast.Import, ast.ImportFrom)):
            for al in n.names:
                declared.add((al.asname or al.name).split(".")[0])
        elif isinstance(n, (ast.MatchAs, ast.MatchStar)) and n.name:
            declared.add(n.name)
    # class bodies nested in the function: their assignments are attributes, leave alone
    for n in ast.walk(fn):
        if isinstance(n, ast.ClassDef):
            for x in ast.walk(n):
                if isinstance(x, ast.Name) and isinstance(x.ctx, ast.Store):
                    declared.add(x.id)
    names = {x for x in assigned - params - declared if not x.startswith("__") and x not in dir(builtins)}
    if not names:
        return
    ren = {x: x + "_rn" for x in names}
    for n in ast.walk(fn):
        if isinstance(n, ast.Name) and n.id in ren:
            n.id = ren[n.id]
        elif isinstance(n, ast.ExceptHandler) and n.name in ren:
            n.name = ren[n.name]


# ----------------------------------------------------------------------------- swap if/else
class _SwapIf(ast.NodeTransformer):
    def visit_If(self, node: ast.If):
        self.generic_visit(node)
        if node.orelse and not (len(node.orelse) == 1 and isinstance(node.orelse[0], ast.If)):
            # walrus in the test binds names used by the branches: order of evaluation is unchanged
            node.test = ast.UnaryOp(op=ast.Not(), operand=node.test)
            node.body, node.orelse = node.orelse, node.body
        return node


class _InsertPass(ast.NodeTransformer):
    def _do(self, node):
        self.generic_visit(node)
        i = 0
        if node.body and isinstance(node.body[0], ast.Expr) and isinstance(node.body[0].value, ast.Constant) \
                and isinstance(node.body[0].value.value, str):
            i = 1
        node.body.insert(i, ast.Pass())
        return node

    visit_FunctionDef = _do
    visit_AsyncFunctionDef = _do

    def visit_If(self, node):
        self.generic_visit(node)
        node.body.append(ast.Pass()) if not isinstance(node.body[-1], (ast.Return, ast.Raise, ast.Continue, ast.Break)) else None
        return node



# ----------------------------------------------------------------------------- `return <call>` -> `tmp = <call>; return tmp`
class _ReturnTemp(ast.NodeTransformer):
    """a returned call / await / subscript expression is first bound to a fresh local"""

    def __init__(self):
        self.n = 0

    def _block(self, stmts):
        out = []
        for s in stmts:
            if isinstance(s, ast.Return) and s.value is not None and isinstance(s.value, (ast.Call, ast.Await, ast.Subscript, ast.BinOp, ast.Attribute)) \
                    and not any(isinstance(x, (ast.Yield, ast.YieldFrom)) for x in ast.walk(s.value)):
                self.n += 1
                nm = f"_rt{self.n}"
                out.append(ast.Assign(targets=[ast.Name(id=nm, ctx=ast.Store())], value=s.value))
                out.append(ast.Return(value=ast.Name(id=nm, ctx=ast.Load())))
            else:
                out.append(s)
        return out

    def generic_visit(self, node):
        super().generic_visit(node)
        for fld in ("body", "orelse", "finalbody"):
            v = getattr(node, fld, None)
            if isinstance(v, list) and v and isinstance(v[0], ast.stmt):
                setattr(node, fld, self._block(v))
        return node


# ----------------------------------------------------------------------------- `elif c:` -> `else: if c:` is what the parser produces anyway;
# the visible variant is the opposite direction of flattening: `if a: X else: (if b: Y else: Z)` -> `if a: X` followed by a guarded block when X always leaves
class _ElifNested(ast.NodeTransformer):
    """`if a: <leaves> else: B` -> `if a: <leaves>` ; B   (early-exit style)"""

    def _leaves(self, stmts):
        return bool(stmts) and isinstance(stmts[-1], (ast.Return, ast.Raise, ast.Continue, ast.Break))

    def _block(self, stmts):
        out = []
        for i, s in enumerate(stmts):
            if isinstance(s, ast.If) and s.orelse and self._leaves(s.body) and i == len(stmts) - 1:
                rest = s.orelse
                s.orelse = []
                out.append(s)
                out.extend(rest)
            else:
                out.append(s)
        return out

    def generic_visit(self, node):
        super().generic_visit(node)
        for fld in ("body", "orelse", "finalbody"):
            v = getattr(node, fld, None)
            if isinstance(v, list) and v and isinstance(v[0], ast.stmt):
                setattr(node, fld, self._block(v))
        return node


# ----------------------------------------------------------------------------- a harmless module-level call at the top of every function body
class _InsertLogging(ast.NodeTransformer):
    def _do(self, node):
        self.generic_visit(node)
        i = 0
        if node.body and isinstance(node.body[0], ast.Expr) and isinstance(node.body[0].value, ast.Constant) and isinstance(node.body[0].value.value, str):
            i = 1
        call = ast.Expr(ast.Call(func=ast.Name(id="id", ctx=ast.Load()), args=[ast.Constant(0)], keywords=[]))
        node.body.insert(i, call)
        return node

    visit_FunctionDef = _do
    visit_AsyncFunctionDef = _do



# ----------------------------------------------------------------------------- emptiness tests written with len()
_CONTAINERS = {"_waiters", "_tasks", "waiting_receivers", "waiting_senders", "buffer", "_wait_queue", "_borrowers", "read_queue", "_buffer",
               "idle_workers", "_exceptions", "_child_scopes"}


class _LenTests(ast.NodeTransformer):
    """in boolean context: `not c` -> `len(c) == 0`, `c` -> `len(c) > 0` for the known container attributes"""

    def _is_c(self, e):
        return isinstance(e, ast.Attribute) and e.attr in _CONTAINERS

    def _len(self, e):
        return ast.Call(func=ast.Name(id="len", ctx=ast.Load()), args=[e], keywords=[])

    def _cond(self, t):
        if isinstance(t, ast.BoolOp):
            t.values = [self._cond(v) for v in t.values]
            return t
        if isinstance(t, ast.UnaryOp) and isinstance(t.op, ast.Not):
            if self._is_c(t.operand):
                return ast.Compare(left=self._len(t.operand), ops=[ast.Eq()], comparators=[ast.Constant(0)])
            t.operand = self._cond(t.operand)
            return t
        if self._is_c(t):
            return ast.Compare(left=self._len(t), ops=[ast.Gt()], comparators=[ast.Constant(0)])
        return t

    def visit_If(self, node):
        self.generic_visit(node)
        node.test = self._cond(node.test)
        return node

    def visit_While(self, node):
        self.generic_visit(node)
        node.test = self._cond(node.test)
        return node


# ----------------------------------------------------------------------------- swap adjacent independent constant assignments
class _SwapIndependent(ast.NodeTransformer):
    """`self.a = <const>; self.b = <const>` (different targets, constant or plain-name values) are order independent"""

    def _simple(self, s):
        if isinstance(s, ast.Assign) and len(s.targets) == 1 and isinstance(s.targets[0], (ast.Attribute, ast.Name)) \
                and isinstance(s.value, (ast.Constant,)):
            t = s.targets[0]
            return ast.unparse(t)
        return None

    def _block(self, stmts):
        i = 0
        while i < len(stmts) - 1:
            a, b = self._simple(stmts[i]), self._simple(stmts[i + 1])
            if a and b and a != b:
                stmts[i], stmts[i + 1] = stmts[i + 1], stmts[i]
                i += 2
            else:
                i += 1
        return stmts

    def generic_visit(self, node):
        super().generic_visit(node)
        for fld in ("body", "orelse", "finalbody"):
            v = getattr(node, fld, None)
            if isinstance(v, list) and v and isinstance(v[0], ast.stmt):
                setattr(node, fld, self._block(v))
        return node



# ----------------------------------------------------------------------------- consistent rename of one private attribute per class
def _rename_private_fields(tree: ast.Module):
    """for every class: the private attribute that is assigned in __init__ and used in most methods gets a new name everywhere in the
    module (a maintainer's `_owner_task` -> `_holder`)"""
    ren = {}
    for cls in [n for n in ast.walk(tree) if isinstance(n, ast.ClassDef)]:
        uses = {}
        init_attrs = set()
        for m in cls.body:
            if isinstance(m, (ast.FunctionDef, ast.AsyncFunctionDef)):
                for n in ast.walk(m):
                    if isinstance(n, ast.Attribute) and isinstance(n.value, ast.Name) and n.value.id == "self" and n.attr.startswith("_") and not n.attr.startswith("__"):
                        uses.setdefault(n.attr, set()).add(m.name)
                        if m.name == "__init__" and isinstance(n.ctx, ast.Store):
                            init_attrs.add(n.attr)
        cands = sorted((a for a in uses if a in init_attrs and len(uses[a]) >= 3 and a not in ren), key=lambda a: (-len(uses[a]), a))
        # methods/properties of the same name must not be touched
        meths = {m.name for m in cls.body if isinstance(m, (ast.FunctionDef, ast.AsyncFunctionDef))}
        cands = [a for a in cands if a not in meths]
        if cands:
            ren[cands[0]] = cands[0] + "_rnf"
    if not ren:
        return
    for n in ast.walk(tree):
        if isinstance(n, ast.Attribute) and n.attr in ren:
            n.attr = ren[n.attr]
        elif isinstance(n, ast.Constant) and isinstance(n.value, str) and n.value in ren:
            n.value = ren[n.value]      # __slots__ entries
