"""C05 mutants / neutral variants"""
from sa.selftest.mutants import M, MM, N, A, SYNC, MEM, TASKS

DL = "CancelScope._deliver_cancellation"
EN = "CancelScope.__enter__"
EX = "CancelScope.__exit__"
CA = "CancelScope.cancel"

M("c05-parent-keeps-host", "C05", A, EN, "                self._parent_scope._tasks.discard(host_task)\n", "", ["R05-a"])
M("c05-child-not-linked", "C05", A, EN, "                self._parent_scope._child_scopes.add(self)\n", "", ["R05-a"])
M("c05-exit-keeps-child-link", "C05", A, EX, "                self._parent_scope._child_scopes.remove(self)\n", "", ["R05-a"])
M("c05-exit-host-not-returned", "C05", A, EX, "                self._parent_scope._tasks.add(self._host_task)\n", "", ["R05-a"])
M("c05-exit-pointer-not-restored", "C05", A, EX, "            host_task_state.cancel_scope = self._parent_scope\n", "", ["R05-a"])
M("c05-exit-own-member-kept", "C05", A, EX, "            self._tasks.remove(self._host_task)\n", "", ["R05-a"])
M("c05-exit-host-task-kept", "C05", A, EX, "        finally:\n            self._host_task = None\n            del exc_val", "        finally:\n            del exc_val", ["R05-a"])
M("c05-exit-stays-active", "C05", A, EX, "            self._active = False\n", "", ["R05-a"])
M("c05-edit-before-misuse-check", "C05", A, EX,
  "        if not self._active:\n            raise RuntimeError(\"This cancel scope is not active\")",
  "        self._tasks.discard(self._host_task)\n        if not self._active:\n            raise RuntimeError(\"This cancel scope is not active\")", ["R05-a"])
M("c05-no-uncancel", "C05", A, EX,
  "                while self._pending_uncancellations:\n                    self._host_task.uncancel()\n                    self._pending_uncancellations -= 1\n", "", ["R05-b"])
M("c05-uncancel-once", "C05", A, EX,
  "                while self._pending_uncancellations:\n                    self._host_task.uncancel()\n                    self._pending_uncancellations -= 1\n",
  "                if self._pending_uncancellations:\n                    self._host_task.uncancel()\n                    self._pending_uncancellations -= 1\n", ["R05-b"])
M("c05-uncancel-when-parent-cancelled", "C05", A, EX,
  "            if self._cancel_called and not self._parent_cancellation_is_visible_to_us:\n                # For each",
  "            if self._cancel_called:\n                # For each", ["R05-b"])
M("c05-no-transfer", "C05", A, EX,
  "                    if self._parent_scope._host_task is self._host_task:\n                        self._parent_scope._pending_uncancellations += (\n                            self._pending_uncancellations\n                        )\n", "", ["R05-b"])
M("c05-transfer-not-zeroed", "C05", A, EX, "                    self._pending_uncancellations = 0\n", "", ["R05-b"])
M("c05-count-every-task", "C05", A, DL,
  "                    if (\n                        task is origin._host_task\n                        and origin._pending_uncancellations is not None\n                    ):\n                        origin._pending_uncancellations += 1",
  "                    if origin._pending_uncancellations is not None:\n                        origin._pending_uncancellations += 1", ["R05-b"])
M("c05-count-without-cancel", "C05", A, DL,
  "                if not isinstance(waiter, asyncio.Future) or not waiter.done():\n                    task.cancel(origin._cancel_reason)\n                    if (",
  "                if not isinstance(waiter, asyncio.Future) or not waiter.done():\n                    task.cancel(origin._cancel_reason)\n                if True:\n                    if (", ["R05-b"])
M("c05-exit-timer-kept", "C05", A, EX,
  "            if self._timeout_handle:\n                self._timeout_handle.cancel()\n                self._timeout_handle = None\n\n            self._tasks.remove", "            self._tasks.remove", ["R05-c"])
M("c05-exit-timer-handle-kept", "C05", A, EX,
  "                self._timeout_handle.cancel()\n                self._timeout_handle = None\n\n            self._tasks.remove", "                self._timeout_handle.cancel()\n\n            self._tasks.remove", ["R05-c", "R05-a"])
M("c05-cancel-timer-kept", "C05", A, CA,
  "            if self._timeout_handle:\n                self._timeout_handle.cancel()\n                self._timeout_handle = None\n\n", "", ["R05-c"])
M("c05-finished-tasks-retry", "C05", A, DL,
  "            if task.done():\n                continue\n\n            should_retry = True", "            should_retry = True\n            if task.done():\n                continue\n", ["R05-d"])
M("c05-handle-kept-when-idle", "C05", A, DL,
  "            else:\n                self._cancel_handle = None", "            else:\n                pass", ["R05-d"])
M("c05-retry-always", "C05", A, DL, "        should_retry = False\n", "        should_retry = True\n", ["R05-d"])

N("c05-n-exit-parent-var", "C05", A, EX,
  "            if self._parent_scope is not None:\n                self._parent_scope._child_scopes.remove(self)\n                self._parent_scope._tasks.add(self._host_task)",
  "            parent = self._parent_scope\n            if parent is not None:\n                parent._child_scopes.remove(self)\n                parent._tasks.add(self._host_task)")
N("c05-n-timer-is-not-none", "C05", A, EX,
  "            if self._timeout_handle:\n                self._timeout_handle.cancel()\n                self._timeout_handle = None\n\n            self._tasks.remove",
  "            if self._timeout_handle is not None:\n                self._timeout_handle.cancel()\n                self._timeout_handle = None\n\n            self._tasks.remove")

# from seeded change C05/b
M("c05-setter-keeps-old-timer", "C05", A, "CancelScope.deadline@setter",
  "        if self._timeout_handle is not None:\n            self._timeout_handle.cancel()\n            self._timeout_handle = None\n\n", "", ["R05-c"])

# F11 (found via a round-2 seeding agent's probe): the count taken on a child task was handed to the group's scope (parent task)
M("c05-F11-revert-transfer-across-tasks", "C05", A, "CancelScope.__exit__",
  "                    if self._parent_scope._host_task is self._host_task:\n                        self._parent_scope._pending_uncancellations += (\n                            self._pending_uncancellations\n                        )\n",
  "                    self._parent_scope._pending_uncancellations += (\n                        self._pending_uncancellations\n                    )\n", ["R05-b"])

M("c05-classifier-walks-any-exception", "C05", A, "is_anyio_cancellation", "        if isinstance(exc.__context__, CancelledError):\n            exc = exc.__context__\n            continue", "        if exc.__context__ is not None:\n            exc = exc.__context__\n            continue", ["R05-e"])

# from seeded change C05/c (round 2)
M("c05-exit-checkpoint-outside-try", "C05", A, "TaskGroup.__aexit__",
  "            try:\n                if not self._tasks:\n                    # If there are no child tasks to wait on, run at least one checkpoint\n                    # anyway\n                    try:\n                        await AsyncIOBackend.cancel_shielded_checkpoint()\n                    except CancelledError as exc:\n                        # A native cancellation got through the shield. Any task that\n                        # was started during the checkpoint still has to be waited on\n                        # below, so handle this the same way as in the wait loop.\n                        self.cancel_scope.cancel()\n                        if exc_val is None or (\n                            isinstance(exc_val, CancelledError)\n                            and not is_anyio_cancellation(exc)\n                        ):\n                            exc_val = exc\n\n                if self._tasks:",
  "            if not self._tasks:\n                await AsyncIOBackend.cancel_shielded_checkpoint()\n\n            try:\n                if self._tasks:", ["R05-f"])

# from seeded change C05/e (round 3): the visibility walk honours only the starting scope's shield
M("c05-visibility-walk-own-shield-only", "C05", A, "CancelScope._effectively_cancelled", "            if cancel_scope.shield:\n                return False", "            if self.shield:\n                return False", ["R05-g"])

# from seeded change C05/g (round 4)
M("c05-native-cancel-replacement-tests-carried-exception", "C05", A, "TaskGroup.__aexit__",
  "                        if exc_val is None or (\n                            isinstance(exc_val, CancelledError)\n                            and not is_anyio_cancellation(exc)\n                        ):\n                            exc_val = exc\n\n                if self._tasks:",
  "                        if exc_val is None or (\n                            isinstance(exc_val, CancelledError)\n                            and not is_anyio_cancellation(exc_val)\n                        ):\n                            exc_val = exc\n\n                if self._tasks:", ["R05-h"])

# from seeded change C04/i (round 5): the must-direction of the replacement rule
M("c05-native-after-anyio-dropped", "C05", A, "TaskGroup.__aexit__",
  "                                if exc_val is None or (\n                                    isinstance(exc_val, CancelledError)\n                                    and not is_anyio_cancellation(exc)\n                                ):",
  "                                if exc_val is None or (\n                                    isinstance(exc_val, CancelledError)\n                                    and not is_anyio_cancellation(exc_val)\n                                    and not is_anyio_cancellation(exc)\n                                ):", ["R05-h"])

# from seeded change C05/k (round 6): a deadline assigned to a scope that is not entered arms a timer nobody cancels
M("c05-setter-arms-inactive-scope", "C05", A, "CancelScope.deadline@setter",
  "        if self._active and not self._cancel_called:", "        if not self._cancel_called:", ["R05-c"])
