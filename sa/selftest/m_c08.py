"""C08 mutants / neutral variants"""
from sa.selftest.mutants import M, MM, N, A, SYNC, MEM, TASKS

IT = "itertools.py"

# ---- primitives
M("c08-checkpoint-noop", "C08", A, "AsyncIOBackend.checkpoint", "        await sleep(0)", "        pass", ["R08-0"])
M("c08-csc-unshielded", "C08", A, "AsyncIOBackend.cancel_shielded_checkpoint",
  "        with CancelScope(shield=True):\n            await sleep(0)", "        await sleep(0)", ["R08-0"])
M("c08-cic-no-spin", "C08", A, "AsyncIOBackend.checkpoint_if_cancelled", "                await sleep(0)\n", "                return\n", ["R08-0"])
M("c08-lowlevel-checkpoint-skips", "C08", "lowlevel.py", "checkpoint", "    await get_async_backend().checkpoint()", "    await get_async_backend().checkpoint_if_cancelled()", ["R08-0"])

# ---- typestate per operation
M("c08-event-wait-set-no-checkpoint", "C08", A, "Event.wait",
  "        if self.is_set():\n            await AsyncIOBackend.checkpoint()\n        else:\n            await self._event.wait()",
  "        if not self.is_set():\n            await self._event.wait()", ["R08-a"])
M("c08-lock-no-cancel-check", "C08", A, "Lock.acquire", "            await AsyncIOBackend.checkpoint_if_cancelled()\n            self._owner_task = task", "            self._owner_task = task", ["R08-a"])
M("c08-lock-check-after-effect", "C08", A, "Lock.acquire", "            await AsyncIOBackend.checkpoint_if_cancelled()\n            self._owner_task = task",
  "            self._owner_task = task\n            await AsyncIOBackend.checkpoint_if_cancelled()", ["R08-a"])
M("c08-lock-no-yield", "C08", A, "Lock.acquire",
  "            if not self._fast_acquire:\n                try:\n                    await AsyncIOBackend.cancel_shielded_checkpoint()\n                except CancelledError:\n                    self.release()\n                    raise\n\n            return\n\n        if self._owner_task == task:",
  "            return\n\n        if self._owner_task == task:", ["R08-a"])
M("c08-lock-yield-inverted-flag", "C08", A, "Lock.acquire", "            if not self._fast_acquire:\n                try:\n                    await AsyncIOBackend.cancel_shielded_checkpoint()\n                except CancelledError:\n                    self.release()",
  "            if self._fast_acquire:\n                try:\n                    await AsyncIOBackend.cancel_shielded_checkpoint()\n                except CancelledError:\n                    self.release()", ["R08-a"])
M("c08-sem-no-cancel-check", "C08", A, "Semaphore.acquire", "            await AsyncIOBackend.checkpoint_if_cancelled()\n            self._value -= 1", "            self._value -= 1", ["R08-a"])
M("c08-sem-fast-no-undo", "C08", A, "Semaphore.acquire",
  "                except CancelledError:\n                    self.release()\n                    raise\n\n            return", "                except CancelledError:\n                    raise\n\n            return", ["R08-a"])
M("c08-limiter-no-cancel-check", "C08", A, "CapacityLimiter.acquire_on_behalf_of", "        await AsyncIOBackend.checkpoint_if_cancelled()\n", "", ["R08-a"])
M("c08-limiter-no-yield", "C08", A, "CapacityLimiter.acquire_on_behalf_of",
  "            try:\n                await AsyncIOBackend.cancel_shielded_checkpoint()\n            except BaseException:\n                self.release_on_behalf_of(borrower)\n                raise",
  "            pass", ["R08-a"])
M("c08-limiter-aenter-nowait", "C08", A, "CapacityLimiter.__aenter__", "        await self.acquire()", "        self.acquire_nowait()", ["R08-a"])
M("c08-condition-wait-no-check", "C08", SYNC, "Condition.wait", "        await checkpoint_if_cancelled()\n", "", ["R08-a", "R11"])
M("c08-send-no-checkpoint", "C08", MEM, "MemoryObjectSendStream.send", "        await checkpoint()\n", "", ["R08-a"])
M("c08-send-conditional-checkpoint", "C08", MEM, "MemoryObjectSendStream.send", "        await checkpoint()\n", "        await checkpoint_if_cancelled()\n", ["R08-a"])
M("c08-receive-no-checkpoint", "C08", MEM, "MemoryObjectReceiveStream.receive", "        await checkpoint()\n", "", ["R08-a"])
M("c08-thread-no-checkpoint", "C08", A, "AsyncIOBackend.run_sync_in_worker_thread", "        await cls.checkpoint()\n", "", ["R08-a"])
M("c08-future-await-bypasses-wait", "C08", "_core/_futures.py", "Future.wait", "        await self._finished_event.wait()", "        if not self._finished_event.is_set():\n            await self._finished_event.wait()", ["R08-a"])
M("c08-sync-event-wait-bypass", "C08", SYNC, "Lock.__aenter__", "        await self.acquire()", "        self.acquire_nowait()", ["R08-a"])

# ---- adapter for sync sources
M("c08-adapter-stop-no-yield", "C08", IT, "_IterableAsyncIterator.__anext__",
  "        except StopIteration:\n            await cancel_shielded_checkpoint()\n            raise", "        except StopIteration:\n            raise", ["R08-c"])
M("c08-adapter-no-cancel-check", "C08", IT, "_IterableAsyncIterator.__anext__", "        await checkpoint_if_cancelled()\n", "", ["R08-c"])
M("c08-adapter-check-after-next", "C08", IT, "_IterableAsyncIterator.__anext__",
  "        await checkpoint_if_cancelled()\n        try:\n            result = next(self.iterator)\n        except StopIteration:\n            await cancel_shielded_checkpoint()\n            raise StopAsyncIteration from None\n",
  "        try:\n            result = next(self.iterator)\n        except StopIteration:\n            await cancel_shielded_checkpoint()\n            raise StopAsyncIteration from None\n\n        await checkpoint_if_cancelled()\n", ["R08-c"])
M("c08-iterate-unwrapped", "C08", IT, "_iterate", "    return _IterableAsyncIterator(iter(iterable))", "    return _Plain(iter(iterable))", ["R08-c"])

# ---- generators
M("c08-accumulate-empty-no-cp", "C08", IT, "accumulate", "        except StopAsyncIteration:\n            await checkpoint()\n            return", "        except StopAsyncIteration:\n            return", ["R08-b"])
M("c08-accumulate-initial-no-yield", "C08", IT, "accumulate", "        total = initial\n        await cancel_shielded_checkpoint()\n", "        total = initial\n", ["R08-b"])
M("c08-batched-empty-no-cp", "C08", IT, "batched", "                if not batch:\n                    await checkpoint()\n                    return", "                if not batch:\n                    return", ["R08-b"])
M("c08-chain-tail-removed", "C08", IT, "Chain.from_iterable", "        if not element_yielded:\n            await checkpoint()\n", "", ["R08-b"])
M("c08-compress-flag-on-wrong-branch", "C08", IT, "compress", "        if selector:\n            element_yielded = True\n            yield datum", "        element_yielded = True\n        if selector:\n            yield datum", ["R08-b"])
M("c08-count-no-yield", "C08", IT, "count", "        await cancel_shielded_checkpoint()\n        yield value", "        yield value", ["R08-b"])
M("c08-cycle-replay-no-cp", "C08", IT, "cycle", "        for element in saved:\n            await checkpoint()\n            yield element", "        for element in saved:\n            yield element", ["R08-b"])
M("c08-cycle-empty-no-cp", "C08", IT, "cycle", "    if not saved:\n        await checkpoint()\n        return", "    if not saved:\n        return", ["R08-b"])
M("c08-dropwhile-flag-early", "C08", IT, "dropwhile", "    element_yielded = False\n    dropping = True", "    element_yielded = True\n    dropping = True", ["R08-b"])
M("c08-filterfalse-tail-removed", "C08", IT, "filterfalse", "    if not element_yielded:\n        await checkpoint()", "    pass", ["R08-b"])
M("c08-groupby-empty-no-cp", "C08", IT, "groupby", "    except StopAsyncIteration:\n        await checkpoint()\n        return", "    except StopAsyncIteration:\n        return", ["R08-b"])
M("c08-islice-zero-no-cp", "C08", IT, "islice", "    if stop == 0 or start == stop:\n        await checkpoint()\n        return", "    if stop == 0 or start == stop:\n        return", ["R08-b"])
M("c08-islice-exhaust-no-cp", "C08", IT, "islice", "        except StopAsyncIteration:\n            if not element_yielded:\n                await checkpoint()\n\n            return", "        except StopAsyncIteration:\n            return", ["R08-b"])
M("c08-islice-flag-on-skipped", "C08", IT, "islice", "        else:\n            index += 1\n", "        else:\n            element_yielded = True\n            index += 1\n", ["R08-b"])
M("c08-pairwise-single-no-cp", "C08", IT, "pairwise", "        yield pair\n\n    if not element_yielded:\n        await checkpoint()", "        yield pair", ["R08-b"])
M("c08-repeat-inf-no-cp", "C08", IT, "repeat", "        while True:\n            await checkpoint()\n            yield element", "        while True:\n            yield element", ["R08-b"])
M("c08-repeat-zero-no-cp", "C08", IT, "repeat", "    if remaining <= 0:\n        await checkpoint()", "    if remaining <= 0:\n        pass", ["R08-b"])
M("c08-tee-buffered-no-yield", "C08", IT, "_TeeAsyncIterator.__anext__", "        if not had_yieldpoint:\n            await cancel_shielded_checkpoint()\n", "", ["R08-b"])
M("c08-tee-end-no-cp", "C08", IT, "_TeeAsyncIterator.__anext__", "            if not self._element_yielded:\n                await checkpoint()\n", "", ["R08-b"])
M("c08-tee-fill-lies", "C08", IT, "_TeeState.fill", "        if link.filled:\n            return False", "        if link.filled:\n            return True", ["R08-b"])
M("c08-product-unwrapped-pool", "C08", IT, "combinations", "async for combination in _iterate(itertools.combinations(pool, r)):", "for combination in itertools.combinations(pool, r):", ["R08-b"])

# ---- neutral
N("c08-n-lock-flag-nested", "C08", A, "Lock.acquire",
  "            if not self._fast_acquire:\n                try:\n                    await AsyncIOBackend.cancel_shielded_checkpoint()\n                except CancelledError:\n                    self.release()\n                    raise\n\n            return\n\n        if self._owner_task == task:",
  "            if self._fast_acquire:\n                return\n\n            try:\n                await AsyncIOBackend.cancel_shielded_checkpoint()\n            except CancelledError:\n                self.release()\n                raise\n\n            return\n\n        if self._owner_task == task:")
N("c08-n-filterfalse-early-flag-test", "C08", IT, "filterfalse", "    if not element_yielded:\n        await checkpoint()", "    if element_yielded:\n        return\n\n    await checkpoint()")
N("c08-n-cycle-always-cp", "C08", IT, "cycle", "    if not saved:\n        await checkpoint()\n        return", "    if not saved:\n        await checkpoint_if_cancelled()\n        await cancel_shielded_checkpoint()\n        return")
# from seeded change C08/c (round 2)
M("c08-event-adapter-wait-fast-path", "C08", SYNC, "EventAdapter.wait", "        await self._event.wait()", "        if self._internal_event is None and self._is_set:\n            await checkpoint_if_cancelled()\n            return\n\n        await self._event.wait()", ["R08-a"])
M("c08-lock-adapter-aenter-nowait", "C08", SYNC, "LockAdapter.__aenter__", "        await self._lock.acquire()", "        self._lock.acquire_nowait()", ["R08-a"])

# from seeded change C08/f (round 3)
M("c08-tee-fork-inherits-yielded-flag", "C08", "itertools.py", "_TeeAsyncIterator.__init__",
  "            self._link = iterable._link\n", "            self._link = iterable._link\n            self._element_yielded = iterable._element_yielded\n            return\n", ["R08-b"])

# from seeded change C08/h (round 4): the exemption is no longer opt-in
M("c08-condition-default-lock-fast-acquire", "C08", SYNC, "Condition.__init__", "        self._lock = lock or Lock()", "        self._lock = lock or Lock(fast_acquire=True)", ["R08-e"])
M("c08-lock-fast-acquire-default-true", "C08", SYNC, "Lock.__new__", "    def __new__(cls, *, fast_acquire: bool = False) -> Lock:", "    def __new__(cls, *, fast_acquire: bool = True) -> Lock:", ["R08-e"])
M("c08-adapter-stores-inverted-flag", "C08", SYNC, "LockAdapter.__init__", "        self._fast_acquire = fast_acquire", "        self._fast_acquire = not fast_acquire", ["R08-e"])
N("c08-n-functools-lock-flag-local", "C08", "functools.py", "AsyncLRUCacheWrapper.__call__", "    async def __call__(self, *args: P.args, **kwargs: P.kwargs) -> T:\n", "    async def __call__(self, *args: P.args, **kwargs: P.kwargs) -> T:\n        assert isinstance(self._always_checkpoint, bool)\n")

# from seeded changes C08/i, C08/j (round 5)
M("c08-memory-stream-anext-shortcut", "C08", MEM, "MemoryObjectReceiveStream.receive_nowait",
  "    def receive_nowait(self) -> T_co:",
  "    async def __anext__(self) -> T_co:\n        try:\n            return self.receive_nowait()\n        except WouldBlock:\n            return await super().__anext__()\n        except EndOfStream:\n            raise StopAsyncIteration from None\n\n    def receive_nowait(self) -> T_co:", ["R08-f"])
M("c08-future-await-fails-fast", "C08", "_core/_futures.py", "Future.__await__", "        yield from self.wait().__await__()\n", "        if self._cancelled:\n            raise FutureCancelled(\"the future was cancelled\")\n\n        yield from self.wait().__await__()\n", ["R08-f"])
