"""C13 mutants / neutral variants"""
from sa.selftest.mutants import M, MM, N, A, SYNC, MEM, TASKS

SS = "MemoryObjectSendStream"
RS = "MemoryObjectReceiveStream"

M("c13-close-not-idempotent", "C13", MEM, f"{SS}.close",
  "        if not self._closed:\n            self._closed = True\n            self._state.open_send_channels -= 1\n            if",
  "        if True:\n            self._closed = True\n            self._state.open_send_channels -= 1\n            if", ["R13-a"])
M("c13-close-no-mark", "C13", MEM, f"{RS}.close", "            self._closed = True\n", "", ["R13-a"])
M("c13-close-no-decrement", "C13", MEM, f"{RS}.close", "            self._state.open_receive_channels -= 1\n", "", ["R13-a"])
M("c13-close-wrong-counter", "C13", MEM, f"{RS}.close", "self._state.open_receive_channels -= 1", "self._state.open_send_channels -= 1", ["R13-a"])
M("c13-clone-on-closed", "C13", MEM, f"{SS}.clone", "        if self._closed:\n            raise ClosedResourceError\n\n", "", ["R13-a", "R13-c"])
M("c13-clone-new-state", "C13", MEM, f"{RS}.clone", "MemoryObjectReceiveStream(_state=self._state)",
  "MemoryObjectReceiveStream(_state=_MemoryObjectStreamState(self._state.max_buffer_size))", ["R13-a"])
M("c13-foreign-counter-writer", "C13", MEM, f"{SS}.clone", "        return MemoryObjectSendStream(_state=self._state)",
  "        self._state.open_send_channels += 1\n        return MemoryObjectSendStream(_state=self._state)", ["R13-a"])
M("c13-last-sender-close-no-wake", "C13", MEM, f"{SS}.close",
  "                for event in receive_events:\n                    event.set()\n", "", ["R13-b"])
M("c13-last-receiver-close-no-wake", "C13", MEM, f"{RS}.close",
  "                for event in send_events:\n                    event.set()\n", "                pass\n", ["R13-b"])
M("c13-wake-on-every-close", "C13", MEM, f"{SS}.close", "            if self._state.open_send_channels == 0:\n", "            if True:\n", ["R13-b"])
M("c13-wake-only-first", "C13", MEM, f"{RS}.close",
  "                for event in send_events:\n                    event.set()\n", "                for event in send_events[:1]:\n                    event.set()\n", ["R13-b"])
M("c13-receivers-not-cleared", "C13", MEM, f"{SS}.close", "                self._state.waiting_receivers.clear()\n", "", ["R13-b"])
M("c13-aclose-noop", "C13", MEM, f"{SS}.aclose", "        self.close()", "        await checkpoint()", ["R13-b"])
M("c13-eos-with-open-senders", "C13", MEM, f"{RS}.receive_nowait", "        elif not self._state.open_send_channels:\n            raise EndOfStream", "        else:\n            raise EndOfStream", ["R13-c"])
M("c13-eos-before-pending-sender", "C13", MEM, f"{RS}.receive_nowait",
  "        if self._state.waiting_senders:\n            # Get the item from the next sender",
  "        if not self._state.buffer and not self._state.open_send_channels:\n            raise EndOfStream\n\n        if self._state.waiting_senders:\n            # Get the item from the next sender", ["R13-c"])
M("c13-receive-on-closed", "C13", MEM, f"{RS}.receive_nowait", "        if self._closed:\n            raise ClosedResourceError\n\n", "", ["R13-c"])
M("c13-send-on-closed", "C13", MEM, f"{SS}.send_nowait", "        if self._closed:\n            raise ClosedResourceError\n", "", ["R13-c"])
M("c13-send-without-receivers", "C13", MEM, f"{SS}.send_nowait", "        if not self._state.open_receive_channels:\n            raise BrokenResourceError\n", "", ["R13-c"])
M("c13-broken-checked-before-closed", "C13", MEM, f"{SS}.send_nowait",
  "        if self._closed:\n            raise ClosedResourceError\n        if not self._state.open_receive_channels:\n            raise BrokenResourceError\n",
  "        if not self._state.open_receive_channels:\n            raise BrokenResourceError\n        if self._closed:\n            raise ClosedResourceError\n", ["R13-c"])
M("c13-released-receiver-blocks", "C13", MEM, f"{RS}.receive",
  "            except AttributeError:\n                raise EndOfStream from None", "            except AttributeError:\n                return await self.receive()", ["R13-c"])
M("c13-woken-sender-no-error", "C13", MEM, f"{SS}.send",
  "                del self._state.waiting_senders[send_event]\n                raise BrokenResourceError from None", "                del self._state.waiting_senders[send_event]", ["R13-c"])
M("c13-stats-swapped", "C13", MEM, "_MemoryObjectStreamState.statistics",
  "            self.open_send_channels,\n            self.open_receive_channels,", "            self.open_receive_channels,\n            self.open_send_channels,", ["R13-a"])
M("c13-wouldblock-as-eos", "C13", MEM, f"{RS}.receive_nowait", "        raise WouldBlock", "        raise EndOfStream", ["R13-c"])

N("c13-n-not-zero", "C13", MEM, f"{SS}.close", "if self._state.open_send_channels == 0:", "if not self._state.open_send_channels:")
N("c13-n-direct-iter", "C13", MEM, f"{RS}.close",
  "                send_events = list(self._state.waiting_senders.keys())\n                for event in send_events:", "                for event in list(self._state.waiting_senders):")
N("c13-n-early-return-close", "C13", MEM, f"{RS}.close",
  "        if not self._closed:\n            self._closed = True\n            self._state.open_receive_channels -= 1\n            if self._state.open_receive_channels == 0:\n                send_events = list(self._state.waiting_senders.keys())\n                for event in send_events:\n                    event.set()",
  "        if self._closed:\n            return\n\n        self._closed = True\n        self._state.open_receive_channels -= 1\n        if self._state.open_receive_channels == 0:\n            send_events = list(self._state.waiting_senders.keys())\n            for event in send_events:\n                event.set()")
N("c13-n-eos-nested", "C13", MEM, f"{RS}.receive_nowait",
  "        if self._state.buffer:\n            return self._state.buffer.popleft()\n        elif not self._state.open_send_channels:\n            raise EndOfStream\n\n        raise WouldBlock",
  "        if self._state.buffer:\n            return self._state.buffer.popleft()\n\n        if self._state.open_send_channels:\n            raise WouldBlock\n\n        raise EndOfStream")

# from seeded changes C13/c and C13/d (round 2)
M("c13-aclose-checkpoint-before-close", "C13", MEM, "MemoryObjectReceiveStream.aclose", "        self.close()", "        await checkpoint()\n        self.close()", ["R13-b"])
M("c13-anext-closed-is-clean-end", "C13", "abc/_streams.py", "UnreliableObjectReceiveStream.__anext__", "        except EndOfStream:", "        except (EndOfStream, ClosedResourceError):", ["R13-d"])

# from seeded changes C13/e, C13/f (round 3)
M("c13-statistics-record-fields-swapped", "C13", MEM, "MemoryObjectStreamStatistics",
  "    open_send_streams: int  #: number of unclosed clones of the send stream\n    open_receive_streams: int  #: number of unclosed clones of the receive stream\n",
  "    open_receive_streams: int  #: number of unclosed clones of the receive stream\n    open_send_streams: int  #: number of unclosed clones of the send stream\n", ["R13-a"])
M("c13-pending-cancellation-walk-own-shield-only", "C13", A, "CancelScope._effectively_cancelled", "            if cancel_scope.shield:\n                return False", "            if self.shield:\n                return False", ["R13-e"])

# from seeded change C13/h (round 4)
M("c13-last-receive-close-wakes-receivers", "C13", MEM, "MemoryObjectReceiveStream.close",
  "                for event in send_events:\n                    event.set()\n",
  "                for event in send_events:\n                    event.set()\n\n                receive_events = list(self._state.waiting_receivers.keys())\n                self._state.waiting_receivers.clear()\n                for event in receive_events:\n                    event.set()\n", ["R13-f"])
M("c13-last-receive-close-sets-receiver-events", "C13", MEM, "MemoryObjectReceiveStream.close",
  "                for event in send_events:\n                    event.set()\n",
  "                for event in send_events:\n                    event.set()\n\n                for event in list(self._state.waiting_receivers):\n                    event.set()\n", ["R13-f"])

# from seeded change C13/j (round 5)
M("c13-finaliser-closes", "C13", MEM, "MemoryObjectSendStream.__del__", "    def __del__(self) -> None:\n        if not self._closed:", "    def __del__(self) -> None:\n        if not self._closed:\n            self.close()\n        if not self._closed:", ["R13-h"])
