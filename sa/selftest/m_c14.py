"""C14 mutants / neutral variants"""
from sa.selftest.mutants import M, MM, N, A

TT = "to_thread.py"
FT = "from_thread.py"
RS = "AsyncIOBackend.run_sync_in_worker_thread"

M("c14-no-limiter", "C14", A, RS, "        async with limiter or cls.current_default_thread_limiter():\n            with CancelScope(shield=not abandon_on_cancel) as scope:",
  "        if True:\n            with CancelScope(shield=not abandon_on_cancel) as scope:", ["R14-a"])
M("c14-ignore-limiter-arg", "C14", A, RS, "async with limiter or cls.current_default_thread_limiter():", "async with cls.current_default_thread_limiter():", ["R14-a"])
M("c14-shield-always", "C14", A, RS, "CancelScope(shield=not abandon_on_cancel)", "CancelScope(shield=True)", ["R14-b"])
M("c14-shield-inverted", "C14", A, RS, "CancelScope(shield=not abandon_on_cancel)", "CancelScope(shield=abandon_on_cancel)", ["R14-b"])
M("c14-shield-never", "C14", A, RS, "CancelScope(shield=not abandon_on_cancel)", "CancelScope()", ["R14-b"])
M("c14-worker-scope-own", "C14", A, RS, "                if abandon_on_cancel or scope._parent_scope is None:", "                if True or scope._parent_scope is None:", ["R14-c"])
M("c14-worker-scope-swapped", "C14", A, RS, "                if abandon_on_cancel or scope._parent_scope is None:\n                    worker_scope = scope\n                else:\n                    worker_scope = scope._parent_scope",
  "                if abandon_on_cancel or scope._parent_scope is None:\n                    worker_scope = scope._parent_scope\n                else:\n                    worker_scope = scope", ["R14-c"])
M("c14-worker-scope-not-abandon", "C14", A, RS, "                if abandon_on_cancel or scope._parent_scope is None:", "                if not abandon_on_cancel or scope._parent_scope is None:", ["R14-c"])
M("c14-new-worker-not-started", "C14", A, RS, "                    worker.start()\n", "", ["R14-a"])
M("c14-reuse-without-pop", "C14", A, RS, "                    worker = idle_workers.pop()", "                    worker = idle_workers[-1]", ["R14-a"])
M("c14-worker-not-registered", "C14", A, RS, "                    workers.add(worker)\n", "", ["R14-a"])
M("c14-no-stop-callback", "C14", A, RS, "                    root_task.add_done_callback(worker.stop, context=Context())\n", "", ["R14-a"])
M("c14-tuple-order", "C14", A, RS, "(context, func, args, future, worker_scope)", "(context, func, args, worker_scope, future)", ["R14-d"])
M("c14-context-not-copied", "C14", A, RS, "                context = copy_context()", "                context = Context()", ["R14-d"])
M("c14-dispatch-after-limiter", "C14", A, RS, "                worker.queue.put_nowait((context, func, args, future, worker_scope))\n                return await future",
  "                worker.queue.put_nowait((context, func, args, future, worker_scope))\n        return await future", ["R14-a", "R14-b"])
M("c14-no-entry-checkpoint", "C14", A, RS, "        await cls.checkpoint()\n", "", ["R14-e"])
M("c14-thread-catches-exception-only", "C14", A, "WorkerThread.run", "                    except BaseException as exc:", "                    except Exception as exc:", ["R14-d"])
M("c14-thread-loses-exception", "C14", A, "WorkerThread.run", "                        exception = exc\n", "                        pass\n", ["R14-d"])
M("c14-thread-scope-not-published", "C14", A, "WorkerThread.run", "                    threadlocals.current_cancel_scope = cancel_scope\n", "", ["R14-d"])
M("c14-thread-runs-outside-context", "C14", A, "WorkerThread.run", "result = context.run(func, *args)", "result = func(*args)", ["R14-d"])
M("c14-thread-report-swapped", "C14", A, "WorkerThread.run", "self._report_result, future, result, exception", "self._report_result, future, exception, result", ["R14-d"])
M("c14-thread-no-report", "C14", A, "WorkerThread.run", "                    if not self.loop.is_closed():\n                        self.loop.call_soon_threadsafe(\n                            self._report_result, future, result, exception\n                        )\n", "", ["R14-d"])
M("c14-report-both", "C14", A, "WorkerThread._report_result", "                future.set_exception(exc)\n            else:\n                future.set_result(result)", "                future.set_exception(exc)\n\n            future.set_result(result)", ["R14-d"])
M("c14-report-on-cancelled", "C14", A, "WorkerThread._report_result", "        if not future.cancelled():\n            if exc is not None:", "        if True:\n            if exc is not None:", ["R14-d"])
M("c14-report-drops-exception", "C14", A, "WorkerThread._report_result", "                future.set_exception(exc)\n", "                future.set_result(None)\n", ["R14-d"])
M("c14-report-not-idle", "C14", A, "WorkerThread._report_result", "        if not self.stopping:\n            self.idle_workers.append(self)\n", "", ["R14-d"])
M("c14-report-inverted", "C14", A, "WorkerThread._report_result", "            if exc is not None:\n                if isinstance", "            if exc is None:\n                if isinstance", ["R14-d"])
M("c14-check-cancelled-shield-first", "C14", A, "AsyncIOBackend.check_cancelled",
  "            if scope.cancel_called:\n                raise CancelledError(f\"Cancelled via cancel scope {id(scope):x}\")\n\n            if scope.shield:\n                return\n",
  "            if scope.shield:\n                return\n\n            if scope.cancel_called:\n                raise CancelledError(f\"Cancelled via cancel scope {id(scope):x}\")\n", ["R14-c"])
M("c14-check-cancelled-no-walk", "C14", A, "AsyncIOBackend.check_cancelled", "            scope = scope._parent_scope", "            return", ["R14-c"])
M("c14-to-thread-drops-limiter", "C14", TT, "run_sync", "func, args, abandon_on_cancel=abandon_on_cancel, limiter=limiter", "func, args, abandon_on_cancel=abandon_on_cancel", ["R14-e"])
M("c14-to-thread-drops-abandon", "C14", TT, "run_sync", "func, args, abandon_on_cancel=abandon_on_cancel, limiter=limiter", "func, args, limiter=limiter", ["R14-e"])
M("c14-from-thread-sync-swallow", "C14", A, "AsyncIOBackend.run_sync_from_thread", "            except BaseException as exc:\n                f.set_exception(exc)", "            except Exception as exc:\n                f.set_exception(exc)", ["R14-f"])
M("c14-from-thread-sync-no-exc", "C14", A, "AsyncIOBackend.run_sync_from_thread", "                f.set_exception(exc)\n", "", ["R14-f"])
M("c14-from-thread-async-no-return", "C14", A, "AsyncIOBackend.run_async_from_thread", "                return await func(*args)", "                await func(*args)", ["R14-f"])
M("c14-from-thread-run-wrong-target", "C14", FT, "run", "token.backend_class.run_async_from_thread(", "token.backend_class.run_sync_from_thread(", ["R14-f"])
M("c14-limiter-aexit-conditional", "C14", A, "CapacityLimiter.__aexit__", "        self.release()", "        if exc_type is None:\n            self.release()", ["R14-a"])

N("c14-n-shield-compare", "C14", A, RS, "with CancelScope(shield=not abandon_on_cancel) as scope:", "with CancelScope(shield=(not abandon_on_cancel)) as scope:")
N("c14-n-worker-scope-ifexp", "C14", A, RS, "                if abandon_on_cancel or scope._parent_scope is None:\n                    worker_scope = scope\n                else:\n                    worker_scope = scope._parent_scope",
  "                if not abandon_on_cancel and scope._parent_scope is not None:\n                    worker_scope = scope._parent_scope\n                else:\n                    worker_scope = scope")
N("c14-n-report-flip", "C14", A, "WorkerThread._report_result", "            if exc is not None:\n                if isinstance(exc, StopIteration):\n                    new_exc = RuntimeError(\"coroutine raised StopIteration\")\n                    new_exc.__cause__ = exc\n                    exc = new_exc\n\n                future.set_exception(exc)\n            else:\n                future.set_result(result)",
  "            if exc is None:\n                future.set_result(result)\n            else:\n                if isinstance(exc, StopIteration):\n                    new_exc = RuntimeError(\"coroutine raised StopIteration\")\n                    new_exc.__cause__ = exc\n                    exc = new_exc\n\n                future.set_exception(exc)")

# from seeded changes C14/c and C14/d (round 2)
M("c14-from-thread-run-own-scope-only", "C14", A, "AsyncIOBackend.run_async_from_thread.task_wrapper",
  "                scope._restart_cancellation()\n", "                if scope._cancel_called and scope._cancel_handle is None:\n                    scope._deliver_cancellation(scope)\n", ["R14-g"])
M("c14-total-tokens-grants-by-difference", "C14", A, "CapacityLimiter.total_tokens@setter",
  "        self._total_tokens = value\n\n        # Notify waiting tasks that they have acquired the limiter\n        while self._wait_queue and len(self._borrowers) < self._total_tokens:\n",
  "        added = value - self._total_tokens\n        self._total_tokens = value\n\n        while self._wait_queue and added > 0:\n            added -= 1\n", ["R14-h"])

# from seeded change C03/f (round 3)
M("c14-cancellable-alias-dropped", "C14", TT, "run_sync", "        abandon_on_cancel = cancellable\n", "", ["R14-e"])

# from seeded change C14/f (round 3)
M("c14-root-task-cleanup-drops-all-run-vars", "C14", A, "find_root_task", "                        if vars := _run_vars.get(t.get_loop()):\n                            vars.pop(_root_task, None)", "                        _run_vars.pop(t.get_loop(), None)", ["R14-i"])

# from seeded change C14/k (round 6)
M("c14-stop-leaves-worker-idle", "C14", A, "WorkerThread.stop",
  "        try:\n            self.idle_workers.remove(self)\n        except ValueError:\n            pass\n", "", ["R14-j"])
M("c14-stop-removes-only-first-time", "C14", A, "WorkerThread.stop",
  "        try:\n            self.idle_workers.remove(self)\n        except ValueError:\n            pass\n",
  "        if f is None:\n            try:\n                self.idle_workers.remove(self)\n            except ValueError:\n                pass\n", ["R14-j"])
N("c14-n-stop-membership-test", "C14", A, "WorkerThread.stop",
  "        try:\n            self.idle_workers.remove(self)\n        except ValueError:\n            pass\n",
  "        if self in self.idle_workers:\n            self.idle_workers.remove(self)\n")
N("c14-n-stop-suppress", "C14", A, "WorkerThread.stop",
  "        try:\n            self.idle_workers.remove(self)\n        except ValueError:\n            pass\n",
  "        with suppress(ValueError):\n            self.idle_workers.remove(self)\n")
N("c14-n-stop-remove-first", "C14", A, "WorkerThread.stop",
  "        self.stopping = True\n        self.queue.put_nowait(None)\n        self.workers.discard(self)\n        try:\n            self.idle_workers.remove(self)\n        except ValueError:\n            pass\n",
  "        self.stopping = True\n        try:\n            self.idle_workers.remove(self)\n        except ValueError:\n            pass\n        self.workers.discard(self)\n        self.queue.put_nowait(None)\n")
M("c14-adapter-total-tokens-not-forwarded", "C14", "_core/_synchronization.py", "CapacityLimiterAdapter.total_tokens@setter",
  "        self._limiter.total_tokens = value\n", "        self._total_tokens = value\n", ["R14-k"])
