"""C02 mutants / neutral variants"""
from sa.selftest.mutants import M, MM, N, A, SYNC, MEM, TASKS

AE = "TaskGroup.__aexit__"
TD = "TaskGroup._spawn.task_done"
EX = "CancelScope.__exit__"

M("c02-F2-revert-early-return", "C02", A, TD,
  "                if (\n                    task_status_future is not None\n                    and task_status_future.cancelled()\n                    and isinstance(exc, CancelledError)\n                ):\n                    return",
  "                if task_status_future is not None and task_status_future.cancelled():\n                    return", ["R02-a"])
M("c02-drop-when-group-cancelled", "C02", A, TD,
  "                    if not isinstance(exc, CancelledError):\n                        self._exceptions.append(exc)",
  "                    if not isinstance(exc, CancelledError) and not self.cancel_scope.cancel_called:\n                        self._exceptions.append(exc)", ["R02-a"])
M("c02-duplicate-sink", "C02", A, TD,
  "                else:\n                    task_status_future.set_exception(exc)",
  "                else:\n                    task_status_future.set_exception(exc)\n                    self._exceptions.append(exc)", ["R02-a", "R02-b"])
M("c02-collect-cancellations", "C02", A, TD,
  "                    if not isinstance(exc, CancelledError):\n                        self._exceptions.append(exc)", "                    self._exceptions.append(exc)", ["R02-b"])
M("c02-body-cancellation-collected", "C02", A, AE,
  "                if not isinstance(exc_val, CancelledError):\n                    self._exceptions.append(exc_val)", "                self._exceptions.append(exc_val)", ["R02-b"])
M("c02-no-sibling-cancel", "C02", A, TD,
  "                    if not self.cancel_scope._effectively_cancelled:\n                        self.cancel_scope.cancel()\n", "", ["R02-c"])
M("c02-sibling-cancel-only-on-cancelled-child", "C02", A, TD,
  "                    if not self.cancel_scope._effectively_cancelled:\n                        self.cancel_scope.cancel()",
  "                    if not self.cancel_scope._effectively_cancelled and isinstance(exc, CancelledError):\n                        self.cancel_scope.cancel()", ["R02-c"])
M("c02-body-error-no-cancel", "C02", A, AE,
  "            if exc_val is not None:\n                self.cancel_scope.cancel()\n", "            if exc_val is not None:\n", ["R02-c"])
M("c02-group-first-leaf-only", "C02", A, AE, "\"unhandled errors in a TaskGroup\", self._exceptions", "\"unhandled errors in a TaskGroup\", self._exceptions[:1]", ["R02-d"])
M("c02-errors-not-raised-when-body-failed", "C02", A, AE,
  "                if self._exceptions:\n                    # The exception", "                if self._exceptions and exc_val is None:\n                    # The exception", ["R02-d"])
M("c02-outer-cancel-swallowed", "C02", A, AE, "                elif exc_val:\n                    raise exc_val\n", "", ["R02-d"])
M("c02-always-swallow", "C02", A, AE,
  "                if self.cancel_scope.__exit__(type(exc), exc, exc.__traceback__):\n                    return True\n\n                raise",
  "                self.cancel_scope.__exit__(type(exc), exc, exc.__traceback__)\n                return True", ["R02-d"])
M("c02-exit-sees-stale-exception", "C02", A, AE,
  "if self.cancel_scope.__exit__(type(exc), exc, exc.__traceback__):", "if self.cancel_scope.__exit__(exc_type, exc_val, exc_tb):", ["R02-d"])
M("c02-split-swallows-native-cancel", "C02", A, EX,
  "                        lambda exc: (\n                            isinstance(exc, CancelledError)\n                            and is_anyio_cancellation(exc)\n                        )",
  "                        lambda exc: isinstance(exc, CancelledError)", ["R02-e"])
M("c02-remaining-dropped", "C02", A, EX,
  "                    if remaining is None:\n                        return True\n", "                    if True:\n                        return True\n", ["R02-e"])
M("c02-swallow-visible-parent-cancel", "C02", A, EX,
  "if self._cancel_called and not self._parent_cancellation_is_visible_to_us:", "if self._cancel_called:", ["R02-e"])
M("c02-swallow-native", "C02", A, EX,
  "                    if isinstance(exc_val, CancelledError) and is_anyio_cancellation(\n                        exc_val\n                    ):",
  "                    if isinstance(exc_val, CancelledError):", ["R02-e"])
M("c02-own-cancel-let-through", "C02", A, EX,
  "                        self._cancelled_caught = True\n                        return True\n                    else:\n                        return False",
  "                        self._cancelled_caught = True\n                        return False\n                    else:\n                        return False", ["R02-e"])

N("c02-n-routing-restructured", "C02", A, TD,
  "                if task_status_future is None or task_status_future.done():\n                    if not isinstance(exc, CancelledError):\n                        self._exceptions.append(exc)",
  "                if task_status_future is None or task_status_future.done():\n                    if isinstance(exc, CancelledError):\n                        pass\n                    else:\n                        self._exceptions.append(exc)")
N("c02-n-exit-nested", "C02", A, EX,
  "if self._cancel_called and not self._parent_cancellation_is_visible_to_us:", "if not self._parent_cancellation_is_visible_to_us and self._cancel_called:")

# from seeded change C02/d (round 2)
M("c02-body-exception-truthiness", "C02", A, "TaskGroup.__aexit__", "            if exc_val is not None:\n                self.cancel_scope.cancel()", "            if exc_val:\n                self.cancel_scope.cancel()", ["R02-c"])

# from seeded change C02/c (round 2): a task that joins an already failed group
M("c02-spawn-restart-before-join", "C02", A, "TaskGroup._spawn",
  "        self.cancel_scope._tasks.add(task)\n        self._tasks.add(task)\n        self.cancel_scope._restart_cancellation()\n",
  "        self.cancel_scope._restart_cancellation()\n        self.cancel_scope._tasks.add(task)\n        self._tasks.add(task)\n", ["R02-f"])
M("c02-spawn-no-restart", "C02", A, "TaskGroup._spawn", "        self.cancel_scope._restart_cancellation()\n", "", ["R02-f"])

# from seeded changes C02/g, C02/h (round 4)
M("c02-classifier-walks-cause", "C02", A, "is_anyio_cancellation",
  "        if isinstance(exc.__context__, CancelledError):\n            exc = exc.__context__\n",
  "        if isinstance(exc.__cause__, CancelledError):\n            exc = exc.__cause__\n", ["R02-g"])
M("c02-restart-gives-up-at-shielded-cancelled-scope", "C02", A, "CancelScope._restart_cancellation",
  "            if scope._cancel_called:\n                if scope._cancel_handle is None:\n                    scope._deliver_cancellation(scope)\n\n                break\n\n            # No point in looking beyond any shielded scope\n            if scope._shield:\n                break\n",
  "            if scope._shield:\n                break\n\n            if scope._cancel_called:\n                if scope._cancel_handle is None:\n                    scope._deliver_cancellation(scope)\n\n                break\n", ["R02-h"])
