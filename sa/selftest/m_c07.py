"""C07 mutants / neutral variants"""
from sa.selftest.mutants import M, MM, N, A, SYNC, MEM, TASKS

ST = "TaskGroup.start"
TD = "TaskGroup._spawn.task_done"
SD = "_AsyncioTaskStatus.started"

M("c07-F2-revert", "C07", A, TD,
  "                if (\n                    task_status_future is not None\n                    and task_status_future.cancelled()\n                    and isinstance(exc, CancelledError)\n                ):\n                    return",
  "                if task_status_future is not None and task_status_future.cancelled():\n                    return", ["R07-d"])
M("c07-no-wait-for-child", "C07", A, ST,
  "                handle.cancel()\n                with CancelScope(shield=True):\n                    await handle.wait()\n", "                handle.cancel()\n", ["R07-a"])
M("c07-no-cancel-child", "C07", A, ST, "                handle.cancel()\n", "", ["R07-a"])
M("c07-unshielded-wait", "C07", A, ST, "                with CancelScope(shield=True):\n                    await handle.wait()", "                with CancelScope():\n                    await handle.wait()", ["R07-a"])
M("c07-swallow", "C07", A, ST, "                    await handle.wait()\n\n            raise", "                    await handle.wait()\n\n            return None", ["R07-a"])
M("c07-only-cancellation-handled", "C07", A, ST, "        except BaseException:\n            if handle.status", "        except Exception:\n            if handle.status", ["R07-a"])
M("c07-return-before-ready", "C07", A, ST,
  "        try:\n            await future\n        except BaseException:",
  "        if return_handle:\n            return handle\n\n        try:\n            await future\n        except BaseException:", ["R07-b"])
M("c07-returns-none", "C07", A, ST, "        else:\n            return future.result()", "        else:\n            return None", ["R07-b"])
M("c07-handle-without-value", "C07", A, ST, "            handle._start_value = future.result()\n", "", ["R07-b"])
M("c07-started-twice-silent", "C07", A, SD,
  "            if not self._future.cancelled():\n                raise RuntimeError(\n                    \"called 'started' twice on the same task status\"\n                ) from None", "            pass", ["R07-c"])
M("c07-started-error-after-cancel", "C07", A, SD, "            if not self._future.cancelled():\n                raise RuntimeError(", "            if True:\n                raise RuntimeError(", ["R07-c"])
M("c07-no-reparent", "C07", A, SD, "        _task_states[task].parent_id = self._parent_id", "        pass", ["R07-c"])
M("c07-started-drops-value", "C07", A, SD, "self._future.set_result(value)", "self._future.set_result(None)", ["R07-c"])
M("c07-child-failure-cancels-group", "C07", A, TD,
  "                else:\n                    task_status_future.set_exception(exc)", "                else:\n                    task_status_future.set_exception(exc)\n                    self.cancel_scope.cancel()", ["R07-d"])
M("c07-exit-without-started-hangs", "C07", A, TD,
  "            elif task_status_future is not None and not task_status_future.done():\n                task_status_future.set_exception(\n                    RuntimeError(\"Child exited without calling task_status.started()\")\n                )", "", ["R07-d"])
M("c07-error-before-started-to-group", "C07", A, TD, "                if task_status_future is None or task_status_future.done():", "                if True:", ["R07-d"])
M("c07-future-not-passed", "C07", A, ST, "handle = self._spawn(coro, final_name, future)", "handle = self._spawn(coro, final_name)", ["R07-e"])
M("c07-status-on-other-future", "C07", A, ST, "_AsyncioTaskStatus(future, id(", "_AsyncioTaskStatus(asyncio.Future(), id(", ["R07-e"])

N("c07-n-pending-neq", "C07", A, ST, "if handle.status is TaskHandle.Status.PENDING:", "if not (handle.status is not TaskHandle.Status.PENDING):")
N("c07-n-return-order", "C07", A, ST,
  "        if return_handle:\n            handle._start_value = future.result()\n            return handle\n        else:\n            return future.result()",
  "        if not return_handle:\n            return future.result()\n\n        handle._start_value = future.result()\n        return handle")

# from seeded change C07/b
M("c07-done-waiter-with-error-cancelled", "C07", A, "CancelScope._deliver_cancellation",
  "                if not isinstance(waiter, asyncio.Future) or not waiter.done():",
  "                if (\n                    not isinstance(waiter, asyncio.Future)\n                    or not waiter.done()\n                    or waiter.cancelled()\n                    or waiter.exception() is not None\n                ):", ["R07-f"])

# from seeded change C07/c (round 2)
M("c07-handle-wait-fast-path", "C07", TASKS, "TaskHandle.wait", "        await self._finished_event.wait()", "        if self.status is TaskHandle.Status.PENDING:\n            await self._finished_event.wait()\n        else:\n            await checkpoint()", ["R07-g"])

# from seeded change C07/d (round 2): a child started into a shielded *and* cancelled group
M("c07-restart-shield-before-cancelled", "C07", A, "CancelScope._restart_cancellation",
  "            if scope._cancel_called:\n                if scope._cancel_handle is None:\n                    scope._deliver_cancellation(scope)\n\n                break\n\n            # No point in looking beyond any shielded scope\n            if scope._shield:\n                break\n",
  "            # No point in looking beyond any shielded scope\n            if scope._shield:\n                break\n\n            if scope._cancel_called:\n                if scope._cancel_handle is None:\n                    scope._deliver_cancellation(scope)\n\n                break\n", ["R07-h"])
M("c07-spawn-no-restart", "C07", A, "TaskGroup._spawn", "        self.cancel_scope._restart_cancellation()\n", "", ["R07-h"])

# from seeded change C07/f (round 3)
M("c07-start-value-none-means-not-started", "C07", TASKS, "TaskHandle.start_value",
  "        try:\n            return self._start_value\n        except AttributeError:\n            raise RuntimeError(\n                \"the task was not started with TaskGroup.start()\"\n            ) from None",
  "        start_value = getattr(self, \"_start_value\", None)\n        if start_value is None:\n            raise RuntimeError(\"the task was not started with TaskGroup.start()\")\n\n        return start_value", ["R07-i"])
N("c07-n-start-value-hasattr", "C07", TASKS, "TaskHandle.start_value",
  "        try:\n            return self._start_value\n        except AttributeError:\n            raise RuntimeError(\n                \"the task was not started with TaskGroup.start()\"\n            ) from None",
  "        if not hasattr(self, \"_start_value\"):\n            raise RuntimeError(\"the task was not started with TaskGroup.start()\")\n\n        return self._start_value")

# from seeded change C07/g (round 4): cancel() flips PENDING to CANCELLING, the wait is never reached
M("c07-start-cancels-before-the-pending-test", "C07", A, "TaskGroup.start",
  "            if handle.status is TaskHandle.Status.PENDING:\n                # Cancel the task and wait for it to exit before returning\n                handle.cancel()\n",
  "            handle.cancel()\n            if handle.status is TaskHandle.Status.PENDING:\n", ["R07-a"])
