"""C04 mutants / neutral variants"""
from sa.selftest.mutants import M, MM, N, A, SYNC, MEM, TASKS

EX = "CancelScope.__exit__"
DL = "CancelScope._deliver_cancellation"

M("c04-walker-shield-first", "C04", A, "CancelScope._effectively_cancelled",
  "            if cancel_scope._cancel_called:\n                return True\n\n            if cancel_scope.shield:\n                return False\n",
  "            if cancel_scope.shield:\n                return False\n\n            if cancel_scope._cancel_called:\n                return True\n", ["R04-a"])
M("c04-walker-no-shield-stop", "C04", A, "CancelScope._effectively_cancelled",
  "            if cancel_scope.shield:\n                return False\n\n", "", ["R04-a"])
M("c04-checkpoint-ignores-shield", "C04", A, "AsyncIOBackend.checkpoint_if_cancelled",
  "            elif cancel_scope.shield:\n                break\n", "", ["R04-a"])
M("c04-check-cancelled-shield-first", "C04", A, "AsyncIOBackend.check_cancelled",
  "            if scope.cancel_called:\n                raise CancelledError(f\"Cancelled via cancel scope {id(scope):x}\")\n\n            if scope.shield:\n                return\n",
  "            if scope.shield:\n                return\n\n            if scope.cancel_called:\n                raise CancelledError(f\"Cancelled via cancel scope {id(scope):x}\")\n", ["R04-a"])
M("c04-deadline-past-shield", "C04", A, "AsyncIOBackend.current_effective_deadline",
  "            elif cancel_scope.shield:\n                break\n", "", ["R04-a"])
M("c04-restart-past-shield", "C04", A, "CancelScope._restart_cancellation",
  "            # No point in looking beyond any shielded scope\n            if scope._shield:\n                break\n\n", "", ["R04-a"])
M("c04-deliver-into-shielded-child", "C04", A, DL, "if not scope._shield and not scope.cancel_called:", "if not scope.cancel_called:", ["R04-b"])
M("c04-deliver-into-cancelled-child", "C04", A, DL, "if not scope._shield and not scope.cancel_called:", "if not scope._shield:", ["R04-b"])
M("c04-absorb-visible", "C04", A, EX, "if self._cancel_called and not self._parent_cancellation_is_visible_to_us:", "if self._cancel_called:", ["R04-c"])
M("c04-absorb-foreign", "C04", A, EX, "if self._cancel_called and not self._parent_cancellation_is_visible_to_us:", "if not self._parent_cancellation_is_visible_to_us:", ["R04-c"])
M("c04-absorb-native", "C04", A, EX,
  "                    if isinstance(exc_val, CancelledError) and is_anyio_cancellation(\n                        exc_val\n                    ):", "                    if isinstance(exc_val, CancelledError):", ["R04-c"])
M("c04-caught-without-absorb", "C04", A, EX,
  "                    if cancelleds_caught is None:\n                        return False\n\n                    self._cancelled_caught = True",
  "                    self._cancelled_caught = True\n                    if cancelleds_caught is None:\n                        return False\n", ["R04-c"])
M("c04-absorb-without-caught", "C04", A, EX,
  "                        self._cancelled_caught = True\n                        return True\n                    else:", "                        return True\n                    else:", ["R04-c"])
M("c04-prefix-mismatch-writer", "C04", A, "CancelScope.cancel", "f\"Cancelled via cancel scope {id(self):x}\"", "f\"Cancelled by cancel scope {id(self):x}\"", ["R04-d"])
M("c04-prefix-mismatch-reader", "C04", A, "is_anyio_cancellation", "\"Cancelled via cancel scope \"", "\"Cancelled via cancelscope \"", ["R04-d"])
M("c04-prefix-mismatch-thread", "C04", A, "AsyncIOBackend.check_cancelled", "f\"Cancelled via cancel scope {id(scope):x}\"", "f\"Cancelled in cancel scope {id(scope):x}\"", ["R04-d"])
M("c04-cancel-without-reason", "C04", A, DL, "task.cancel(origin._cancel_reason)", "task.cancel()", ["R04-d"])
M("c04-is-anyio-always", "C04", A, "is_anyio_cancellation",
  "            continue\n\n        return False", "            continue\n\n        return True", ["R04-d"])
M("c04-visibility-ignores-shield", "C04", A, "CancelScope._parent_cancellation_is_visible_to_us", "            and not self.shield\n", "", ["R04-e"])
M("c04-visibility-direct-parent-only", "C04", A, "CancelScope._parent_cancellation_is_visible_to_us",
  "self._parent_scope._effectively_cancelled", "self._parent_scope._cancel_called", ["R04-e"])
M("c04-cancel-reset", "C04", A, "CancelScope.__exit__", "            self._active = False\n", "            self._active = False\n            self._cancel_called = False\n", ["R04-f"])

N("c04-n-walker-elif", "C04", A, "CancelScope._effectively_cancelled",
  "            if cancel_scope._cancel_called:\n                return True\n\n            if cancel_scope.shield:\n                return False\n\n            cancel_scope = cancel_scope._parent_scope",
  "            if cancel_scope._cancel_called:\n                return True\n            elif cancel_scope.shield:\n                return False\n            else:\n                cancel_scope = cancel_scope._parent_scope")
N("c04-n-vis-order", "C04", A, "CancelScope._parent_cancellation_is_visible_to_us",
  "            self._parent_scope is not None\n            and not self.shield\n", "            not self.shield\n            and self._parent_scope is not None\n")

# from seeded changes C01/c and C05/d (round 2)
M("c04-classifier-not-total", "C04", A, "is_anyio_cancellation", "            exc.args\n            and isinstance(exc.args[0], str)\n            and exc.args[0].startswith", "            exc.args\n            and exc.args[0].startswith", ["R04-d"])
M("c04-classifier-walks-any-exception", "C04", A, "is_anyio_cancellation", "        if isinstance(exc.__context__, CancelledError):\n            exc = exc.__context__\n            continue", "        if exc.__context__ is not None:\n            exc = exc.__context__\n            continue", ["R04-d"])

# from seeded change C04/d (round 2)
M("c04-fail-at-drops-shield", "C04", TASKS, "fail_at", "shield=shield", "shield=False", ["R04-g"])
M("c04-move-on-after-drops-shield", "C04", TASKS, "move_on_after", "shield=shield", "shield=False", ["R04-g"])
M("c04-public-scope-drops-shield", "C04", TASKS, "CancelScope.__new__", "create_cancel_scope(shield=shield, deadline=deadline)", "create_cancel_scope(deadline=deadline)", ["R04-g"])

# from seeded change C04/c (round 2): the worker thread attached outside the caller's shields
M("c04-worker-scope-walks-past-shields", "C04", A, "AsyncIOBackend.run_sync_in_worker_thread",
  "                if abandon_on_cancel or scope._parent_scope is None:\n                    worker_scope = scope\n                else:\n                    worker_scope = scope._parent_scope\n",
  "                worker_scope = scope\n                while worker_scope.shield and worker_scope._parent_scope is not None:\n                    worker_scope = worker_scope._parent_scope\n", ["R04-h"])
M("c04-worker-scope-grandparent", "C04", A, "AsyncIOBackend.run_sync_in_worker_thread",
  "                    worker_scope = scope._parent_scope\n", "                    worker_scope = scope._parent_scope._parent_scope or scope._parent_scope\n", ["R04-h"])

# from seeded change C04/e (round 3): delivery restarted in the name of the wrong scope
M("c04-restart-wrong-origin", "C04", A, "CancelScope._restart_cancellation", "scope._deliver_cancellation(scope)", "scope._deliver_cancellation(self)", ["R04-i"])

# from seeded change C04/f (round 3)
M("c04-shielded-checkpoint-fast-path", "C04", A, "AsyncIOBackend.cancel_shielded_checkpoint", "        with CancelScope(shield=True):\n            await sleep(0)",
  "        if cls.current_effective_deadline() == -math.inf:\n            with CancelScope(shield=True):\n                await sleep(0)\n        else:\n            await sleep(0)", ["R04-j"])

# from seeded change C04/h (round 4)
M("c04-cancelled-caught-only-without-remainder", "C04", A, "CancelScope.__exit__",
  "                    self._cancelled_caught = True\n\n                    if remaining is None:\n                        return True",
  "                    if remaining is None:\n                        self._cancelled_caught = True\n                        return True", ["R04-c"])
