"""C01 mutants / neutral variants"""
from sa.selftest.mutants import M, MM, N, A, SYNC, MEM, TASKS

AE = "TaskGroup.__aexit__"
SP = "TaskGroup._spawn"
TD = "TaskGroup._spawn.task_done"

M("c01-F4-revert-checkpoint-after-test", "C01", A, AE,
  "                            exc_val = exc\n\n                if self._tasks:\n                    with CancelScope() as wait_scope:",
  "                            exc_val = exc\n\n                elif self._tasks:\n                    with CancelScope() as wait_scope:", ["R01-a"])
M("c01-if-instead-of-while", "C01", A, AE, "                        while self._tasks:", "                        if self._tasks:", ["R01-a", "R01-b"])
M("c01-await-after-join", "C01", A, AE,
  "                if self._exceptions:\n                    # The exception that got us here",
  "                await AsyncIOBackend.cancel_shielded_checkpoint()\n                if self._exceptions:\n                    # The exception that got us here", ["R01-a"])
M("c01-cancelled-wait-breaks", "C01", A, AE,
  "                                    exc_val = exc\n\n                            self._on_completed_fut = None",
  "                                    exc_val = exc\n\n                                break\n\n                            self._on_completed_fut = None", ["R01-a", "R01-b"])
M("c01-cancelled-wait-reraises", "C01", A, AE,
  "                                wait_scope.shield = True\n                                self.cancel_scope.cancel()",
  "                                wait_scope.shield = True\n                                self.cancel_scope.cancel()\n                                if exc_val is not None:\n                                    raise", ["R01-a", "R01-b"])
M("c01-no-group-cancel-on-cancelled-wait", "C01", A, AE,
  "                                wait_scope.shield = True\n                                self.cancel_scope.cancel()", "                                wait_scope.shield = True", ["R01-b"])
M("c01-no-shield-on-cancelled-wait", "C01", A, AE,
  "                                wait_scope.shield = True\n", "", ["R01-b"])
M("c01-spawn-not-in-group-set", "C01", A, SP, "        self._tasks.add(task)\n", "", ["R01-c"])
M("c01-spawn-not-in-scope", "C01", A, SP, "        self.cancel_scope._tasks.add(task)\n", "", ["R01-c"])
M("c01-spawn-conditional-callback", "C01", A, SP, "        task.add_done_callback(task_done)", "        if name is not None:\n            task.add_done_callback(task_done)", ["R01-c"])
M("c01-spawn-wrong-scope-state", "C01", A, SP, "parent_id=parent_id, cancel_scope=self.cancel_scope", "parent_id=parent_id, cancel_scope=None", ["R01-c"])
M("c01-spawn-raw-coro", "C01", A, SP, "            task = loop.create_task(wrapper_coro, name=handle.name)", "            task = loop.create_task(coro, name=handle.name)", ["R01-c"])
M("c01-done-wake-before-remove", "C01", A, TD,
  "            self._tasks.remove(task)\n            del _task_states[_task]\n\n            if self._on_completed_fut is not None and not self._tasks:\n                try:\n                    self._on_completed_fut.set_result(None)\n                except asyncio.InvalidStateError:\n                    pass\n",
  "            del _task_states[_task]\n\n            if self._on_completed_fut is not None and len(self._tasks) == 1:\n                try:\n                    self._on_completed_fut.set_result(None)\n                except asyncio.InvalidStateError:\n                    pass\n\n            self._tasks.remove(task)\n", ["R01-d"])
M("c01-done-wake-any-child", "C01", A, TD, "if self._on_completed_fut is not None and not self._tasks:", "if self._on_completed_fut is not None:", ["R01-d"])
M("c01-done-no-wake", "C01", A, TD,
  "                try:\n                    self._on_completed_fut.set_result(None)\n                except asyncio.InvalidStateError:\n                    pass\n", "                pass\n", ["R01-d"])
M("c01-done-stronger-wake-cond", "C01", A, TD, "if self._on_completed_fut is not None and not self._tasks:",
  "if self._on_completed_fut is not None and not self._tasks and not self._exceptions:", ["R01-d"])
M("c01-done-conditional-remove", "C01", A, TD, "            self._tasks.remove(task)\n", "            if not _task.cancelled():\n                self._tasks.remove(task)\n", ["R01-d"])
M("c01-create-task-inactive", "C01", A, "TaskGroup.create_task", "if not self._entered or not self.cancel_scope._active:", "if not self._entered:", ["R01-e"])
M("c01-start-inactive", "C01", A, "TaskGroup.start",
  "        if not self._entered or not self.cancel_scope._active:\n            raise RuntimeError(\n                \"This task group is not active; no new tasks can be started.\"\n            )\n", "", ["R01-e"])
M("c01-runcoro-record-after-signal", "C01", TASKS, "TaskHandle._run_coro",
  "            else:\n                self._return_value = retval\n            finally:\n                self._finished_event.set()\n                del self  # Break the reference cycle",
  "            finally:\n                self._finished_event.set()\n\n            self._return_value = retval\n            del self", ["R01-f"])
M("c01-runcoro-exception-not-recorded", "C01", TASKS, "TaskHandle._run_coro",
  "            except BaseException as exc:\n                self._exception = exc\n                raise",
  "            except Exception as exc:\n                self._exception = exc\n                raise", ["R01-f"])
M("c01-runcoro-no-signal-on-error", "C01", TASKS, "TaskHandle._run_coro",
  "            else:\n                self._return_value = retval\n            finally:\n                self._finished_event.set()\n                del self  # Break the reference cycle",
  "            else:\n                self._return_value = retval\n                self._finished_event.set()\n                del self", ["R01-f"])
M("c01-runcoro-outside-scope", "C01", TASKS, "TaskHandle._run_coro", "        with self._cancel_scope:\n", "        if True:\n", ["R01-f"])
M("c01-exception-arm-missing", "C01", TASKS, "TaskHandle.exception",
  "            case TaskHandle.Status.CANCELLING:\n                raise TaskCancelled(\"the task was cancelled\")\n", "", ["R01-g"])
M("c01-return-value-failed-returns", "C01", TASKS, "TaskHandle.return_value",
  "                raise TaskFailed(\"the task raised an exception\") from self._exception", "                return self._exception", ["R01-g"])
M("c01-status-cancelled-as-failed", "C01", TASKS, "TaskHandle.status",
  "            if isinstance(self._exception, get_cancelled_exc_class()):\n                return TaskHandle.Status.CANCELLED\n            else:\n                return TaskHandle.Status.FAILED",
  "            if isinstance(self._exception, get_cancelled_exc_class()):\n                return TaskHandle.Status.FAILED\n            else:\n                return TaskHandle.Status.CANCELLED", ["R01-g"])
M("c01-status-ignores-finished", "C01", TASKS, "TaskHandle.status",
  "        if not self._finished_event.is_set():\n            if self._cancel_scope.cancel_called:",
  "        if self._exception is None and not self._finished_event.is_set() or self._cancel_scope.cancel_called and self._exception is None:\n            if self._cancel_scope.cancel_called:", ["R01-g"])

N("c01-n-aexit-len", "C01", A, TD, "if self._on_completed_fut is not None and not self._tasks:", "if not self._tasks and self._on_completed_fut is not None:")
N("c01-n-exit-var", "C01", A, AE,
  "            return self.cancel_scope.__exit__(exc_type, exc_val, exc_tb)", "            swallowed = self.cancel_scope.__exit__(exc_type, exc_val, exc_tb)\n            return swallowed")
N("c01-n-status-flat", "C01", TASKS, "TaskHandle.status",
  "        elif self._exception is not None:\n            if isinstance(self._exception, get_cancelled_exc_class()):\n                return TaskHandle.Status.CANCELLED\n            else:\n                return TaskHandle.Status.FAILED\n        else:\n            return TaskHandle.Status.FINISHED",
  "        if self._exception is None:\n            return TaskHandle.Status.FINISHED\n\n        if isinstance(self._exception, get_cancelled_exc_class()):\n            return TaskHandle.Status.CANCELLED\n\n        return TaskHandle.Status.FAILED")

M("c01-classifier-not-total", "C01", A, "is_anyio_cancellation", "            exc.args\n            and isinstance(exc.args[0], str)\n            and exc.args[0].startswith", "            exc.args\n            and exc.args[0].startswith", ["R01-h"])

# F13 revert: the native cancellation of the exit checkpoint skips the join
M("c01-F13-revert-native-cancel-skips-join", "C01", A, "TaskGroup.__aexit__",
  "                    try:\n                        await AsyncIOBackend.cancel_shielded_checkpoint()\n                    except CancelledError as exc:\n                        # A native cancellation got through the shield. Any task that\n                        # was started during the checkpoint still has to be waited on\n                        # below, so handle this the same way as in the wait loop.\n                        self.cancel_scope.cancel()\n                        if exc_val is None or (\n                            isinstance(exc_val, CancelledError)\n                            and not is_anyio_cancellation(exc)\n                        ):\n                            exc_val = exc\n",
  "                    await AsyncIOBackend.cancel_shielded_checkpoint()\n", ["R01-a"])

# F14: the done-callback finalises the handle of a child that never ran
M("c01-F14-revert-never-started-handle", "C01", A, "TaskGroup._spawn.task_done",
  "            if not handle._finished_event.is_set():\n                # The task was cancelled before it got to run its first step, so\n                # TaskHandle._run_coro() never got the chance to record the outcome\n                handle._exception = exc\n                handle._finished_event.set()\n                coro.close()\n\n", "", ["R01-i"])
M("c01-never-started-handle-no-outcome", "C01", A, "TaskGroup._spawn.task_done", "                handle._exception = exc\n                handle._finished_event.set()", "                handle._finished_event.set()", ["R01-i"])
M("c01-done-callback-overwrites-outcome", "C01", A, "TaskGroup._spawn.task_done", "            if not handle._finished_event.is_set():\n                # The task was cancelled", "            if True:\n                # The task was cancelled", ["R01-i"])

# from seeded change C01/e (round 3)
M("c01-delivery-done-on-non-future", "C01", A, "CancelScope._deliver_cancellation", "if not isinstance(waiter, asyncio.Future) or not waiter.done():", "if waiter is None or not waiter.done():", ["R01-j"])

# from seeded change C01/f (round 3)
M("c01-aexit-cancel-reason-formats-exception", "C01", A, "TaskGroup.__aexit__", "            if exc_val is not None:\n                self.cancel_scope.cancel()\n", "            if exc_val is not None:\n                self.cancel_scope.cancel(f\"task group body raised {exc_val}\")\n", ["R01-k"])
